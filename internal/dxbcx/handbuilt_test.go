package dxbcx

import (
	"math"
	"testing"
)

// TestHandBuiltFunction decodes a module written record by record from the
// LLVM 3.7 writer conventions (BitcodeWriter.cpp WriteInstruction), covering the
// instruction kinds naga's corpus output never contains: SELECT, INSERTVAL,
// INSERTELT, EXTRACTELT, SHUFFLEVEC, FENCE, SWITCH, new-style CMPXCHG, a call
// without the explicit-type flag, parameters, an initialised global.
func TestHandBuiltFunction(t *testing.T) {
	mustClean(t, "hand-built module", checkBitcode(handBuilt(nil)))

	rep := checkBitcode(handBuilt(nil))
	if rep.NumTypes != 14 || rep.NumGlobals != 1 || rep.NumFunctions != 2 || rep.NumInstructions != 25 {
		t.Errorf("counters: %+v", rep)
	}

	neg := func(name, rule string, f func(h *handMod)) {
		t.Helper()
		mustFire(t, name, checkBitcode(handBuilt(f)), rule)
	}
	neg("switch case is not a constant", "F3", func(h *handMod) { h.switchCase = 12 }) // the i32 argument
	neg("switch case of another type", "F3", func(h *handMod) { h.switchCase = 6 })    // the float constant
	neg("select condition type", "F3", func(h *handMod) { h.selectCond = 17 - 14 })    // the i32 sum
	neg("insertvalue index", "F3", func(h *handMod) { h.insertIdx = 2 })
	neg("insertvalue type", "F3", func(h *handMod) { h.insertIdx = 1 }) // i32 into the float member
	neg("fence ordering", "F3", func(h *handMod) { h.fenceOrd = 2 })
	neg("atomicrmw operation", "F3", func(h *handMod) { h.rmwOp = 11 })
	neg("atomicrmw ordering", "F3", func(h *handMod) { h.rmwOrd = 1 })
	neg("alloca size value", "F3", func(h *handMod) { h.allocaSize = 6 }) // float constant as i32 size
	neg("global initialiser type is checked by value table", "M4", func(h *handMod) { h.dataLen = 3 })
	neg("aggregate element type", "M4", func(h *handMod) { h.aggSecond = 3 }) // i32 where float is needed
	neg("ret type", "F3", func(h *handMod) { h.retVal = 32 - 29 })            // the float
}

type handMod struct {
	switchCase uint64
	selectCond uint64
	insertIdx  uint64
	fenceOrd   uint64
	rmwOp      uint64
	rmwOrd     uint64
	allocaSize uint64
	dataLen    int
	aggSecond  uint64
	retVal     uint64
}

func handBuilt(tweak func(*handMod)) []byte {
	h := &handMod{switchCase: 4, selectCond: 17 - 15, insertIdx: 0, fenceOrd: 6, rmwOp: 1, rmwOrd: 6, allocaSize: 4, dataLen: 4, aggSecond: 6, retVal: 1}
	if tweak != nil {
		tweak(h)
	}
	const (
		tVoid, tI32, tI1, tFloat, tV4F, tV4I, tPair, tI32Ptr, tFn, tFnVoid, tArr, tArrPtr, tFnPtr, tMD = 0, 1, 2, 3, 4, 5, 6, 7, 8, 9, 10, 11, 12, 13
	)
	w := &bitWriter{}
	w.magic()
	mod := w.enter(2, blkModule, 3)
	w.unabbrev(3, modVersion, 1)

	tb := w.enter(3, blkTypeNew, 4)
	w.unabbrev(4, tcNumEntry, 14)
	w.unabbrev(4, tcVoid)
	w.unabbrev(4, tcInteger, 32)
	w.unabbrev(4, tcInteger, 1)
	w.unabbrev(4, tcFloat)
	w.unabbrev(4, tcVector, 4, tFloat)
	w.unabbrev(4, tcVector, 4, tI32)
	w.unabbrev(4, tcStructAnon, 0, tI32, tFloat)
	w.unabbrev(4, tcPointer, tI32, 0)
	w.unabbrev(4, tcFunction, 0, tI32, tI32, tFloat)
	w.unabbrev(4, tcFunction, 0, tVoid)
	w.unabbrev(4, tcArray, 4, tI32)
	w.unabbrev(4, tcPointer, tArr, 0)
	w.unabbrev(4, tcPointer, tFn, 0)
	w.unabbrev(4, tcMetadata)
	w.end(4, tb)

	// value 0: @g = internal global [4 x i32] <data>, initialiser value 11
	w.unabbrev(3, modGlobalVar, tArr, 2, 11+1, 3, 3, 0)
	// value 1: define i32 @f(i32, float); value 2: declare void @h()
	w.unabbrev(3, modFunction, tFn, 0, 0, 0, 0, 0, 0, 0)
	w.unabbrev(3, modFunction, tFnVoid, 0, 1, 0, 0, 0, 0, 0)

	cb := w.enter(3, blkConstants, 4)
	w.unabbrev(4, cstSetType, tI32)
	w.unabbrev(4, cstInteger, 0)                                // 3: i32 0
	w.unabbrev(4, cstInteger, 2)                                // 4: i32 1
	w.unabbrev(4, cstInteger, 4)                                // 5: i32 2
	w.unabbrev(4, cstSetType, tFloat)                           //
	w.unabbrev(4, cstFloat, uint64(math.Float32bits(1.5)))      // 6: float 1.5
	w.unabbrev(4, cstSetType, tPair)                            //
	w.unabbrev(4, cstUndef)                                     // 7: {i32,float} undef
	w.unabbrev(4, cstSetType, tV4F)                             //
	w.unabbrev(4, cstUndef)                                     // 8: <4 x float> undef
	w.unabbrev(4, cstSetType, tV4I)                             //
	w.unabbrev(4, cstNull)                                      // 9: <4 x i32> zeroinitializer
	w.unabbrev(4, cstSetType, tPair)                            //
	w.unabbrev(4, cstAggregate, 3, h.aggSecond)                 // 10: {i32 0, float 1.5}
	w.unabbrev(4, cstSetType, tArr)                             //
	w.unabbrev(4, cstData, []uint64{1, 2, 3, 4}[:h.dataLen]...) // 11: [4 x i32] data
	w.end(4, cb)

	fb := w.enter(3, blkFunction, 4)
	rec := func(code uint64, ops ...uint64) { w.unabbrev(4, code, ops...) }
	// arguments: 12 (i32), 13 (float); first instruction value is 14
	rec(fcDeclareBlocks, 4)
	rec(fcBinop, 14-12, 14-3, 0)                           // 14 = add i32 %12, 0
	rec(fcCmp2, 15-14, 15-4, 32)                           // 15 = icmp eq %14, 1
	rec(fcVSelect, 16-13, 16-6, 16-15)                     // 16 = select %15, float %13, 1.5
	rec(fcSelect, 17-12, 17-3, h.selectCond)               // 17 = select %15, i32 %12, 0
	rec(fcInsertVal, 18-7, 18-14, h.insertIdx)             // 18 = insertvalue undef, %14, 0
	rec(fcExtractVal, 19-18, 1)                            // 19 = extractvalue %18, 1 (float)
	rec(fcInsertElt, 20-8, 20-19, 20-3)                    // 20 = insertelement undef, %19, 0
	rec(fcExtractElt, 21-20, 21-4)                         // 21 = extractelement %20, 1
	rec(fcShuffleVec, 22-20, 22-8, 22-9)                   // 22 = shufflevector %20, undef, zeroinit
	rec(fcGEP, 1, tArr, 23-0, 23-3, 23-14)                 // 23 = gep inbounds @g, 0, %14
	rec(fcLoad, 24-23, tI32, 3, 0)                         // 24 = load i32 %23
	rec(fcStore, 25-23, 25-24, 3, 0)                       // store %24, %23
	rec(fcFence, h.fenceOrd, 1)                            // fence seq_cst
	rec(fcAtomicRMW, 25-23, 25-4, h.rmwOp, 0, h.rmwOrd, 1) // 25 = atomicrmw add %23, 1
	rec(fcCmpXchg, 26-23, 26-4, 26-5, 0, 6, 1, 6, 0)       // 26 = cmpxchg %23, 1, 2 -> {i32, i1}
	rec(fcExtractVal, 27-26, 0)                            // 27 = extractvalue %26, 0
	rec(fcAlloca, tI32, tI32, h.allocaSize, 3|1<<6)        // 28 = alloca i32, i32 1
	rec(fcCast, 29-27, tFloat, 6)                          // 29 = sitofp %27 to float
	rec(fcSwitch, tI32, 30-24, 3, h.switchCase, 1, 5, 2)
	// bb1
	rec(fcCall, 0, 1<<15, tFnVoid, 30-2) // call void @h()
	rec(fcBr, 3)
	// bb2
	rec(fcCall, 0, 0, 30-1, 30-24, 30-29) // 30 = call i32 @f(%24, %29)
	rec(fcBr, 3, 3, 31-15)
	// bb3
	sv := func(d int64) uint64 {
		if d >= 0 {
			return uint64(d) << 1
		}
		return uint64(-d)<<1 | 1
	}
	rec(fcPhi, tI32, sv(31-24), 0, sv(31-30), 2, sv(31-24), 1) // 31 = phi
	rec(fcRet, h.retVal)
	w.end(4, fb)

	vb := w.enter(3, blkValueSymtab, 4)
	w.unabbrev(4, vstEntry, 1, 'f')
	w.unabbrev(4, vstEntry, 2, 'h')
	w.unabbrev(4, vstEntry, 0, 'g')
	w.end(4, vb)

	w.end(3, mod)
	return w.out
}
