package dxbcx

import (
	"encoding/binary"
	"math"
	"math/bits"
)

// MD5 (RFC 1321) written out here because the DXBC container checksum needs
// the raw block transform with a non-standard final block, which crypto/md5
// does not expose.

var md5K [64]uint32

var md5S = [64]uint8{
	7, 12, 17, 22, 7, 12, 17, 22, 7, 12, 17, 22, 7, 12, 17, 22,
	5, 9, 14, 20, 5, 9, 14, 20, 5, 9, 14, 20, 5, 9, 14, 20,
	4, 11, 16, 23, 4, 11, 16, 23, 4, 11, 16, 23, 4, 11, 16, 23,
	6, 10, 15, 21, 6, 10, 15, 21, 6, 10, 15, 21, 6, 10, 15, 21,
}

func init() {
	// RFC 1321: T[i] = floor(4294967296 * abs(sin(i))), i in radians, 1-based.
	for i := range md5K {
		md5K[i] = uint32(math.Floor(math.Abs(math.Sin(float64(i+1))) * 4294967296))
	}
}

type md5State [4]uint32

func md5Init() md5State { return md5State{0x67452301, 0xefcdab89, 0x98badcfe, 0x10325476} }

// block applies the MD5 compression function to one 64-byte block.
func (s *md5State) block(p []byte) {
	var x [16]uint32
	for i := range x {
		x[i] = binary.LittleEndian.Uint32(p[4*i:])
	}
	a, b, c, d := s[0], s[1], s[2], s[3]
	for i := 0; i < 64; i++ {
		var f uint32
		var g int
		switch i >> 4 {
		case 0:
			f = (b & c) | (^b & d)
			g = i
		case 1:
			f = (d & b) | (^d & c)
			g = (5*i + 1) & 15
		case 2:
			f = b ^ c ^ d
			g = (3*i + 5) & 15
		default:
			f = c ^ (b | ^d)
			g = (7 * i) & 15
		}
		f += a + md5K[i] + x[g]
		a = d
		d = c
		c = b
		b += bits.RotateLeft32(f, int(md5S[i]))
	}
	s[0] += a
	s[1] += b
	s[2] += c
	s[3] += d
}

func (s *md5State) sum() [16]byte {
	var out [16]byte
	for i, v := range s {
		binary.LittleEndian.PutUint32(out[4*i:], v)
	}
	return out
}

// md5Sum is plain MD5.
func md5Sum(data []byte) [16]byte {
	s := md5Init()
	n := len(data)
	full := n &^ 63
	for off := 0; off < full; off += 64 {
		s.block(data[off : off+64])
	}
	var tail [128]byte
	rem := copy(tail[:], data[full:])
	tail[rem] = 0x80
	tl := 64
	if rem >= 56 {
		tl = 128
	}
	binary.LittleEndian.PutUint64(tail[tl-8:], uint64(n)<<3)
	for off := 0; off < tl; off += 64 {
		s.block(tail[off : off+64])
	}
	return s.sum()
}

// dxbcChecksum is the DXBC container digest: MD5 rounds over data with the
// final block(s) laid out as
//
//	leftover < 56 :  u32(bits) | leftover bytes | 0x80 00.. | u32((len<<1)|1)
//	leftover >= 56:  leftover bytes | 0x80 00.. (to 64)   then
//	                 u32(bits) | 56 zero bytes | u32((len<<1)|1)
//
// where bits = len<<3 truncated to 32 bits (public description: DxilHash.cpp
// ComputeHashRetail / INF-0004; the same algorithm FXC containers use).
func dxbcChecksum(data []byte) [16]byte {
	s := md5Init()
	n := len(data)
	full := n &^ 63
	for off := 0; off < full; off += 64 {
		s.block(data[off : off+64])
	}
	rem := data[full:]
	bitLen := uint32(n) << 3
	last := uint32(n)<<1 | 1
	var blk [64]byte
	if len(rem) < 56 {
		binary.LittleEndian.PutUint32(blk[0:], bitLen)
		copy(blk[4:], rem)
		blk[4+len(rem)] = 0x80
		binary.LittleEndian.PutUint32(blk[60:], last)
		s.block(blk[:])
	} else {
		copy(blk[:], rem)
		blk[len(rem)] = 0x80
		s.block(blk[:])
		blk = [64]byte{}
		binary.LittleEndian.PutUint32(blk[0:], bitLen)
		binary.LittleEndian.PutUint32(blk[60:], last)
		s.block(blk[:])
	}
	return s.sum()
}
