package dxbcx

import "fmt"

// FUNCTION_BLOCK record codes (LLVM 3.7 LLVMBitCodes.h FunctionCodes).
const (
	fcDeclareBlocks  = 1
	fcBinop          = 2
	fcCast           = 3
	fcGEPOld         = 4
	fcSelect         = 5
	fcExtractElt     = 6
	fcInsertElt      = 7
	fcShuffleVec     = 8
	fcCmp            = 9
	fcRet            = 10
	fcBr             = 11
	fcSwitch         = 12
	fcInvoke         = 13
	fcUnreachable    = 15
	fcPhi            = 16
	fcAlloca         = 19
	fcLoad           = 20
	fcVAArg          = 23
	fcStoreOld       = 24
	fcExtractVal     = 26
	fcInsertVal      = 27
	fcCmp2           = 28
	fcVSelect        = 29
	fcInboundsGEPOld = 30
	fcIndirectBr     = 31
	fcDebugLocAgain  = 33
	fcCall           = 34
	fcDebugLoc       = 35
	fcFence          = 36
	fcCmpXchgOld     = 37
	fcAtomicRMW      = 38
	fcResume         = 39
	fcLandingPadOld  = 40
	fcLoadAtomic     = 41
	fcStoreAtomicOld = 42
	fcGEP            = 43
	fcStore          = 44
	fcStoreAtomic    = 45
	fcCmpXchg        = 46
	fcLandingPad     = 47
)

var knownFuncCodes = map[uint32]string{
	fcDeclareBlocks: "DECLAREBLOCKS", fcBinop: "BINOP", fcCast: "CAST", fcGEPOld: "GEP_OLD", fcSelect: "SELECT",
	fcExtractElt: "EXTRACTELT", fcInsertElt: "INSERTELT", fcShuffleVec: "SHUFFLEVEC", fcCmp: "CMP", fcRet: "RET",
	fcBr: "BR", fcSwitch: "SWITCH", fcInvoke: "INVOKE", fcUnreachable: "UNREACHABLE", fcPhi: "PHI", fcAlloca: "ALLOCA",
	fcLoad: "LOAD", fcVAArg: "VAARG", fcStoreOld: "STORE_OLD", fcExtractVal: "EXTRACTVAL", fcInsertVal: "INSERTVAL",
	fcCmp2: "CMP2", fcVSelect: "VSELECT", fcInboundsGEPOld: "INBOUNDS_GEP_OLD", fcIndirectBr: "INDIRECTBR",
	fcDebugLocAgain: "DEBUG_LOC_AGAIN", fcCall: "CALL", fcDebugLoc: "DEBUG_LOC", fcFence: "FENCE",
	fcCmpXchgOld: "CMPXCHG_OLD", fcAtomicRMW: "ATOMICRMW", fcResume: "RESUME", fcLandingPadOld: "LANDINGPAD_OLD",
	fcLoadAtomic: "LOADATOMIC", fcStoreAtomicOld: "STOREATOMIC_OLD", fcGEP: "GEP", fcStore: "STORE",
	fcStoreAtomic: "STOREATOMIC", fcCmpXchg: "CMPXCHG", fcLandingPad: "LANDINGPAD",
}

// producesValue lists the instruction codes that always define a value (CALL and
// INVOKE depend on the callee's return type).
var producesValue = map[uint32]bool{
	fcBinop: true, fcCast: true, fcGEPOld: true, fcSelect: true, fcExtractElt: true, fcInsertElt: true,
	fcShuffleVec: true, fcCmp: true, fcPhi: true, fcAlloca: true, fcLoad: true, fcVAArg: true,
	fcExtractVal: true, fcInsertVal: true, fcCmp2: true, fcVSelect: true, fcInboundsGEPOld: true,
	fcCmpXchgOld: true, fcAtomicRMW: true, fcLoadAtomic: true, fcGEP: true, fcCmpXchg: true,
}

// traceInst, when set by a test, receives one line per decoded instruction.
var traceInst func(string)

type fnCtx struct {
	m    *modCtx
	c    *checker
	name string
	fty  *typ

	declared bool
	nblocks  uint64
	curBB    uint64
	pastEnd  bool // an instruction appeared after the last declared block ended
	inBlock  bool // instructions seen since the last terminator

	insts    int
	fwd      map[uint32]int // forward-referenced value number -> expected type
	fwdOrder []uint32
	fwdWhere map[uint32]string

	where string // current instruction, for messages
	stop  bool
}

type opCur struct {
	ops []uint64
	i   int
}

func (o *opCur) left() int { return len(o.ops) - o.i }

func (o *opCur) next() (uint64, bool) {
	if o.i >= len(o.ops) {
		return 0, false
	}
	v := o.ops[o.i]
	o.i++
	return v, true
}

func (f *fnCtx) bad(format string, args ...any) {
	f.c.find("F3", "%s: %s", f.where, fmt.Sprintf(format, args...))
}

func (f *fnCtx) nextValue() uint32 { return uint32(len(f.m.vals)) }

// absID turns an encoded value operand into a value number the way the 3.7
// reader does: truncated to 32 bits and, with VERSION 1, subtracted from the
// number the next value will get.
func (f *fnCtx) absID(op uint64) uint32 {
	if f.m.relative {
		return f.nextValue() - uint32(op)
	}
	return uint32(op)
}

func (f *fnCtx) noteForward(vn uint32, ty int, role string) {
	if old, ok := f.fwd[vn]; ok {
		if old != noType && ty != noType && !f.m.sameType(old, ty) {
			f.bad("%s: forward reference to value %d as %s, earlier referenced as %s", role, vn, f.m.typeString(ty), f.m.typeString(old))
		}
		if old == noType {
			f.fwd[vn] = ty
		}
		return
	}
	f.fwd[vn] = ty
	f.fwdOrder = append(f.fwdOrder, vn)
	f.fwdWhere[vn] = f.where + " " + role
}

// typeOperand checks a type id operand.
func (f *fnCtx) typeOperand(id uint64, role string) int {
	f.c.fire("F3")
	if !f.m.typeIDOK(id) {
		f.bad("%s: type id %d outside the %d-entry type table", role, id, f.m.numEntry)
		return noType
	}
	return int(id)
}

// valueTypePair is getValueTypePair: a value operand that is followed by a
// type id when (and only when) it is a forward reference.
func (f *fnCtx) valueTypePair(o *opCur, role string) (vn uint32, ty int, ok bool) {
	f.c.fire("F3")
	op, have := o.next()
	if !have {
		f.bad("%s: operand missing", role)
		return 0, noType, false
	}
	vn = f.absID(op)
	if vn < f.nextValue() {
		return vn, f.m.vals[vn].ty, true
	}
	tyOp, have := o.next()
	if !have {
		f.bad("%s: operand %d resolves to value %d, which is not defined yet (next value is %d), and no type id follows", role, op, vn, f.nextValue())
		return vn, noType, false
	}
	ty = f.typeOperand(tyOp, role+" (forward reference type)")
	f.noteForward(vn, ty, role)
	return vn, ty, true
}

// value is getValue/popValue: one operand whose type the record implies.
func (f *fnCtx) value(o *opCur, want int, role string) (vn uint32, ty int, ok bool) {
	op, have := o.next()
	if !have {
		f.c.fire("F3")
		f.bad("%s: operand missing", role)
		return 0, noType, false
	}
	return f.resolve(f.absID(op), want, role)
}

// valueSigned is getValueSigned (PHI incoming values).
func (f *fnCtx) valueSigned(o *opCur, want int, role string) (vn uint32, ty int, ok bool) {
	op, have := o.next()
	if !have {
		f.c.fire("F3")
		f.bad("%s: operand missing", role)
		return 0, noType, false
	}
	if f.m.relative {
		return f.resolve(f.nextValue()-uint32(decodeSignRotated(op)), want, role)
	}
	return f.resolve(uint32(op), want, role)
}

func (f *fnCtx) resolve(vn uint32, want int, role string) (uint32, int, bool) {
	f.c.fire("F3")
	if vn < f.nextValue() {
		have := f.m.vals[vn].ty
		if want != noType && have != noType && !f.m.sameType(want, have) {
			f.bad("%s: value %d has type %s, the instruction needs %s", role, vn, f.m.typeString(have), f.m.typeString(want))
		}
		if want != noType {
			return vn, want, true
		}
		return vn, have, true
	}
	f.noteForward(vn, want, role)
	return vn, want, true
}

func (f *fnCtx) block(id uint64, role string) {
	f.c.fire("F3")
	if id >= f.nblocks {
		f.bad("%s: basic block %d, DECLAREBLOCKS says %d", role, id, f.nblocks)
	}
}

func (f *fnCtx) alignment(v uint64, role string) {
	f.c.fire("F3")
	if v > maxAlignExponentP1 {
		f.bad("%s: alignment field %d (log2+1) > %d", role, v, maxAlignExponentP1)
	}
}

// Atomic orderings: 0 NotAtomic, 1 Unordered, 2 Monotonic, 3 Acquire,
// 4 Release, 5 AcqRel, 6 SeqCst (anything else reads as SeqCst).
func (f *fnCtx) ordering(v uint64, role string, forbidden ...uint64) {
	f.c.fire("F3")
	for _, x := range forbidden {
		if v == x {
			f.bad("%s: atomic ordering %d is not allowed here", role, v)
		}
	}
}

// function reads one FUNCTION_BLOCK for the function record funcs[fi].
func (m *modCtx) function(b *bsBlock, fi int) {
	c := m.c
	info := m.funcs[fi]
	f := &fnCtx{m: m, c: c, name: fmt.Sprintf("function #%d (value %d)", fi, info.valueID),
		fwd: map[uint32]int{}, fwdWhere: map[uint32]string{}}
	f.fty = m.ty(info.fty)
	baseVals, baseMD := len(m.vals), len(m.md)
	defer func() {
		m.vals = m.vals[:baseVals]
		m.md = m.md[:baseMD]
		m.mdNodeRefs, m.mdNamedRefs, m.mdValueRefs = nil, nil, nil
	}()
	if f.fty == nil || f.fty.kind != tkFunc {
		c.unsupported("%s: function type unknown, cannot number its values", f.name)
		return
	}
	for _, p := range f.fty.params {
		m.vals = append(m.vals, gval{ty: p, kind: vkArg})
	}
	var vsts, attaches []*bsBlock
	first := true
	for _, it := range b.items {
		if f.stop {
			break
		}
		if sb := it.blk; sb != nil {
			switch sb.id {
			case blkConstants:
				m.constants(sb, f.name)
			case blkMetadata:
				m.metadata(sb, f)
			case blkValueSymtab:
				vsts = append(vsts, sb)
			case blkMetadataAttach:
				attaches = append(attaches, sb)
			}
			continue
		}
		r := it.rec
		if first {
			first = false
			c.check("F2", r.code == fcDeclareBlocks, "%s: first record has code %d, want DECLAREBLOCKS", f.name, r.code)
		}
		f.record(r)
	}
	if f.stop {
		return
	}

	c.fire("F2")
	switch {
	case !f.declared:
		c.find("F2", "%s: no DECLAREBLOCKS record", f.name)
	case f.curBB < f.nblocks:
		c.find("F2", "%s: DECLAREBLOCKS says %d blocks, only %d were terminated", f.name, f.nblocks, f.curBB)
	case f.inBlock:
		c.find("F2", "%s: instructions follow the terminator of the last declared block", f.name)
	}

	for _, vn := range f.fwdOrder {
		c.fire("F3")
		if vn >= f.nextValue() {
			c.find("F3", "%s: refers to value %d, the function ends with %d values (never defined)", f.fwdWhere[vn], vn, f.nextValue())
		}
	}
	m.resolveMetadata(len(m.md), len(m.vals), f.name)
	for _, vb := range vsts {
		m.valueSymtab(vb, len(m.vals), f.nblocks, true, f.name)
	}
	for _, ab := range attaches {
		f.attachments(ab)
	}
	m.numInsts += f.insts
}

// attachments checks a METADATA_ATTACHMENT block:
// ATTACHMENT [instid?, (kindid, mdnode)*].
func (f *fnCtx) attachments(b *bsBlock) {
	c := f.c
	for _, it := range b.items {
		r := it.rec
		if r == nil || r.code != mdcAttachment {
			continue
		}
		c.fire("M5")
		ops := r.ops
		if len(ops)%2 == 1 {
			if ops[0] >= uint64(f.insts) {
				c.find("M5", "%s: metadata attachment to instruction %d, the function has %d", f.name, ops[0], f.insts)
			}
			ops = ops[1:]
		}
		for i := 0; i+1 < len(ops); i += 2 {
			if !f.m.mdKinds[ops[i]] {
				c.find("M5", "%s: metadata attachment uses kind %d, no METADATA_KIND record defines it", f.name, ops[i])
			}
			if ops[i+1] >= uint64(len(f.m.md)) {
				c.find("M5", "%s: metadata attachment refers to metadata id %d of %d", f.name, ops[i+1], len(f.m.md))
			}
		}
	}
}

func (f *fnCtx) record(r *bsRecord) {
	c, m := f.c, f.m
	name, known := knownFuncCodes[r.code]
	c.fire("F4")
	if !known {
		c.unsupported("%s: function record code %d is not an LLVM 3.7 FUNC_CODE", f.name, r.code)
		f.stop = true
		return
	}
	f.where = fmt.Sprintf("%s inst %d (%s at bit %d, next value %d)", f.name, f.insts, name, r.bit, f.nextValue())
	o := &opCur{ops: r.ops}

	switch r.code {
	case fcDeclareBlocks:
		c.fire("F2")
		switch {
		case f.declared:
			c.find("F2", "%s: second DECLAREBLOCKS record", f.name)
		case len(r.ops) < 1 || r.ops[0] == 0:
			c.find("F2", "%s: DECLAREBLOCKS %v, need a count >= 1", f.name, r.ops)
			f.declared = true
		default:
			f.declared = true
			f.nblocks = r.ops[0]
		}
		return
	case fcDebugLoc:
		c.check("F3", len(r.ops) >= 4 && f.insts > 0, "%s: DEBUG_LOC needs 4 operands and a preceding instruction", f.where)
		return
	case fcDebugLocAgain:
		c.check("F3", f.insts > 0, "%s: DEBUG_LOC_AGAIN without a preceding instruction", f.where)
		return
	case fcLandingPad, fcLandingPadOld:
		c.unsupported("%s: %s is not decoded", f.name, name)
		f.stop = true
		return
	}

	// A real instruction.
	if f.declared && f.curBB >= f.nblocks && !f.pastEnd {
		f.pastEnd = true
		c.fire("F2")
		c.find("F2", "%s: all %d declared blocks are terminated, yet another instruction follows", f.where, f.nblocks)
	}
	if !f.declared && !f.pastEnd {
		f.pastEnd = true
		c.fire("F2")
		c.find("F2", "%s: instruction before DECLAREBLOCKS", f.where)
	}
	f.inBlock = true
	result := noType
	// Numbering must advance even when the record turns out to be malformed.
	produces := producesValue[r.code]
	terminator := false

	switch r.code {
	case fcBinop:
		_, lt, ok := f.valueTypePair(o, "lhs")
		if !ok {
			break
		}
		f.value(o, lt, "rhs")
		opc, have := o.next()
		c.fire("F3")
		switch {
		case !have:
			f.bad("opcode missing")
		case opc > 12:
			f.bad("binary opcode %d > 12", opc)
		case lt != noType:
			isFP, isInt := m.isFPOrFPVec(lt), m.isIntOrIntVec(lt)
			intOnly := opc == 3 || opc == 5 || opc >= 7
			if !isFP && !isInt {
				f.bad("binary operator on %s", m.typeString(lt))
			} else if isFP && intOnly {
				f.bad("binary opcode %d has no floating-point form (operand type %s)", opc, m.typeString(lt))
			}
		}
		result, produces = lt, true

	case fcCast:
		_, st, ok := f.valueTypePair(o, "operand")
		if !ok {
			break
		}
		c.fire("F3")
		if o.left() != 2 {
			f.bad("CAST needs [destty, opcode] after the operand, %d operands left", o.left())
			produces = true
			break
		}
		dt := f.typeOperand(o.ops[o.i], "destination")
		opc := o.ops[o.i+1]
		c.fire("F3")
		if opc > 12 {
			f.bad("cast opcode %d > 12", opc)
		} else if st != noType && dt != noType {
			if why := m.castInvalid(opc, st, dt); why != "" {
				f.bad("invalid cast (opcode %d) from %s to %s: %s", opc, m.typeString(st), m.typeString(dt), why)
			}
		}
		result, produces = dt, true

	case fcGEP, fcGEPOld, fcInboundsGEPOld:
		src := noType
		explicit := false
		if r.code == fcGEP {
			c.fire("F3")
			if o.left() < 2 {
				f.bad("GEP needs [inbounds, type, base...]")
				produces = true
				break
			}
			o.next()
			tyOp, _ := o.next()
			src = f.typeOperand(tyOp, "source element")
			explicit = true
		}
		_, bt, ok := f.valueTypePair(o, "base pointer")
		if !ok {
			produces = true
			break
		}
		if bt != noType {
			c.fire("F3")
			if !m.isPtrOrPtrVec(bt) {
				f.bad("GEP base has type %s, not a pointer", m.typeString(bt))
				bt = noType
			} else {
				pointee := m.types[m.scalar(bt)].elem
				if explicit && src != noType && !m.sameType(src, pointee) {
					f.bad("explicit GEP type %s does not match the pointee type %s of the base pointer", m.typeString(src), m.typeString(pointee))
				}
				if !explicit {
					src = pointee
				}
			}
		}
		var idx []uint32
		var idxTy []int
		okIdx := true
		for o.left() > 0 {
			vn, it, ok := f.valueTypePair(o, fmt.Sprintf("index %d", len(idx)))
			if !ok {
				okIdx = false
				break
			}
			idx = append(idx, vn)
			idxTy = append(idxTy, it)
		}
		if okIdx && bt != noType && src != noType {
			result = f.gepResult(bt, src, idx, idxTy)
		}
		produces = true

	case fcSelect:
		_, tt, ok := f.valueTypePair(o, "true value")
		if !ok {
			break
		}
		f.value(o, tt, "false value")
		f.value(o, m.intType(1), "condition")
		result, produces = tt, true

	case fcVSelect:
		_, tt, ok := f.valueTypePair(o, "true value")
		if !ok {
			break
		}
		f.value(o, tt, "false value")
		_, ct, ok := f.valueTypePair(o, "condition")
		if ok && ct != noType {
			c.fire("F3")
			sc := m.ty(m.scalar(ct))
			if sc == nil || sc.kind != tkInt || sc.bits != 1 {
				f.bad("select condition has type %s, want i1 or a vector of i1", m.typeString(ct))
			}
		}
		result, produces = tt, true

	case fcExtractElt:
		_, vt, ok := f.valueTypePair(o, "vector")
		if !ok {
			break
		}
		f.valueTypePair(o, "index")
		if vt != noType {
			c.fire("F3")
			if m.kindOf(vt) != tkVector {
				f.bad("extractelement from %s", m.typeString(vt))
			} else {
				result = m.types[vt].elem
			}
		}
		produces = true

	case fcInsertElt:
		_, vt, ok := f.valueTypePair(o, "vector")
		if !ok {
			break
		}
		et := noType
		if vt != noType {
			c.fire("F3")
			if m.kindOf(vt) != tkVector {
				f.bad("insertelement into %s", m.typeString(vt))
			} else {
				et = m.types[vt].elem
			}
		}
		f.value(o, et, "element")
		f.valueTypePair(o, "index")
		result, produces = vt, true

	case fcShuffleVec:
		_, vt, ok := f.valueTypePair(o, "vector 1")
		if !ok {
			break
		}
		f.value(o, vt, "vector 2")
		_, mt, ok := f.valueTypePair(o, "mask")
		if ok && vt != noType && mt != noType {
			c.fire("F3")
			if m.kindOf(vt) != tkVector || m.kindOf(mt) != tkVector {
				f.bad("shufflevector operands %s / mask %s are not vectors", m.typeString(vt), m.typeString(mt))
			} else {
				result = m.vectorOf(m.types[mt].n, m.types[vt].elem)
			}
		}
		produces = true

	case fcCmp, fcCmp2:
		_, lt, ok := f.valueTypePair(o, "lhs")
		if !ok {
			break
		}
		f.value(o, lt, "rhs")
		c.fire("F3")
		pred, have := o.next()
		isFP := lt != noType && m.isFPOrFPVec(lt)
		switch {
		case !have:
			f.bad("predicate missing")
		case o.left() > 1 || (o.left() == 1 && lt != noType && !isFP):
			f.bad("%d operands after the predicate", o.left())
		case lt == noType:
			if !(pred <= 15 || pred >= 32 && pred <= 41) {
				f.bad("predicate %d is neither an fcmp (0..15) nor an icmp (32..41) predicate", pred)
			}
		case isFP:
			if pred > 15 {
				f.bad("fcmp predicate %d > 15", pred)
			}
		case m.isIntOrIntVec(lt) || m.isPtrOrPtrVec(lt):
			if pred < 32 || pred > 41 {
				f.bad("icmp predicate %d outside 32..41", pred)
			}
		default:
			f.bad("comparison of %s", m.typeString(lt))
		}
		result, produces = m.cmpResult(lt), true

	case fcRet:
		terminator = true
		if o.left() == 0 {
			c.fire("F3")
			if k := m.kindOf(f.fty.ret); k != tkVoid && k != tkInvalid {
				f.bad("ret void in a function returning %s", m.typeString(f.fty.ret))
			}
			break
		}
		_, rt, ok := f.valueTypePair(o, "return value")
		if !ok {
			break
		}
		c.fire("F3")
		if o.left() != 0 {
			f.bad("RET with %d operands after the value", o.left())
		} else if rt != noType && !m.sameType(rt, f.fty.ret) {
			f.bad("returns %s from a function returning %s", m.typeString(rt), m.typeString(f.fty.ret))
		}

	case fcBr:
		terminator = true
		c.fire("F3")
		if len(r.ops) != 1 && len(r.ops) != 3 {
			f.bad("BR with %d operands, want 1 or 3", len(r.ops))
			break
		}
		f.block(r.ops[0], "true/only destination")
		if len(r.ops) == 3 {
			f.block(r.ops[1], "false destination")
			o.i = 2
			f.value(o, m.intType(1), "condition")
		}

	case fcSwitch:
		terminator = true
		c.fire("F3")
		if len(r.ops) >= 1 && r.ops[0]>>16 == 0x4B5 {
			c.unsupported("%s: SWITCH with the 0x4B5 case-range encoding", f.name)
			f.stop = true
			return
		}
		if len(r.ops) < 3 || len(r.ops)%2 == 0 {
			f.bad("SWITCH with %d operands, want [opty, cond, default, (value, block)*]", len(r.ops))
			break
		}
		ot := f.typeOperand(r.ops[0], "condition")
		o.i = 1
		f.value(o, ot, "condition")
		f.block(r.ops[2], "default destination")
		for i := 3; i+1 < len(r.ops); i += 2 {
			// Case values are absolute value ids of integer constants.
			c.fire("F3")
			id := r.ops[i]
			if id >= uint64(f.nextValue()) {
				f.bad("case value id %d is not defined (next value is %d)", id, f.nextValue())
			} else if v := m.vals[id]; v.kind != vkConst || (v.ty != noType && m.kindOf(v.ty) != tkInt) {
				f.bad("case value id %d is not an integer constant", id)
			} else if ot != noType && v.ty != noType && !m.sameType(ot, v.ty) {
				f.bad("case value id %d has type %s, the switch is on %s", id, m.typeString(v.ty), m.typeString(ot))
			}
			f.block(r.ops[i+1], "case destination")
		}

	case fcIndirectBr:
		terminator = true
		c.fire("F3")
		if len(r.ops) < 2 {
			f.bad("INDIRECTBR with %d operands", len(r.ops))
			break
		}
		ot := f.typeOperand(r.ops[0], "address")
		o.i = 1
		f.value(o, ot, "address")
		for o.left() > 0 {
			id, _ := o.next()
			f.block(id, "destination")
		}

	case fcUnreachable:
		terminator = true

	case fcResume:
		terminator = true
		f.valueTypePair(o, "exception")

	case fcPhi:
		c.fire("F3")
		if len(r.ops) < 1 || (len(r.ops)-1)%2 != 0 {
			f.bad("PHI with %d operands, want [ty, (value, block)*]", len(r.ops))
			produces = true
			break
		}
		pt := f.typeOperand(r.ops[0], "result")
		o.i = 1
		for o.left() >= 2 {
			f.valueSigned(o, pt, fmt.Sprintf("incoming value %d", (o.i-1)/2))
			id, _ := o.next()
			f.block(id, "incoming block")
		}
		result, produces = pt, true

	case fcAlloca:
		produces = true
		c.fire("F3")
		if len(r.ops) != 4 {
			f.bad("ALLOCA with %d operands, want 4", len(r.ops))
			break
		}
		at := f.typeOperand(r.ops[0], "allocated")
		const inAlloca, explicitType = 1 << 5, 1 << 6
		if r.ops[3]&explicitType == 0 && at != noType {
			c.fire("F3")
			if m.kindOf(at) != tkPtr {
				f.bad("ALLOCA without the explicit-type flag needs a pointer type id, got %s", m.typeString(at))
				at = noType
			} else {
				at = m.types[at].elem
			}
		}
		st := f.typeOperand(r.ops[1], "size")
		f.resolve(uint32(r.ops[2]), st, "size (absolute value id)")
		f.alignment(r.ops[3]&^uint64(inAlloca|explicitType), "ALLOCA")
		result = m.ptrTo(at, 0)

	case fcLoad, fcLoadAtomic:
		produces = true
		_, pt, ok := f.valueTypePair(o, "pointer")
		if !ok {
			break
		}
		extra := 2
		if r.code == fcLoadAtomic {
			extra = 4
		}
		c.fire("F3")
		if o.left() != extra && o.left() != extra+1 {
			f.bad("%d operands after the pointer, want %d or %d", o.left(), extra, extra+1)
			break
		}
		lt := noType
		if o.left() == extra+1 {
			tyOp, _ := o.next()
			lt = f.typeOperand(tyOp, "loaded")
		}
		lt = f.loadStoreType(pt, lt, "load")
		al, _ := o.next()
		f.alignment(al, name)
		o.next() // volatile
		if r.code == fcLoadAtomic {
			ord, _ := o.next()
			f.ordering(ord, "load atomic", 0, 4, 5)
			c.fire("F3")
			if al == 0 {
				f.bad("atomic load without alignment")
			}
		}
		result = lt

	case fcStore, fcStoreOld, fcStoreAtomic, fcStoreAtomicOld:
		_, pt, ok := f.valueTypePair(o, "pointer")
		if !ok {
			break
		}
		vt := noType
		if r.code == fcStore || r.code == fcStoreAtomic {
			_, vt, ok = f.valueTypePair(o, "value")
			if !ok {
				break
			}
			f.loadStoreType(pt, vt, "store")
		} else {
			pointee := f.loadStoreType(pt, noType, "store")
			f.value(o, pointee, "value")
		}
		extra := 2
		if r.code == fcStoreAtomic || r.code == fcStoreAtomicOld {
			extra = 4
		}
		c.fire("F3")
		if o.left() != extra {
			f.bad("%d operands after the value, want %d", o.left(), extra)
			break
		}
		al, _ := o.next()
		f.alignment(al, name)
		o.next()
		if extra == 4 {
			ord, _ := o.next()
			f.ordering(ord, "store atomic", 0, 3, 5)
			c.fire("F3")
			if al == 0 {
				f.bad("atomic store without alignment")
			}
		}

	case fcVAArg:
		produces = true
		c.fire("F3")
		if len(r.ops) < 3 {
			f.bad("VAARG with %d operands, want 3", len(r.ops))
			break
		}
		lt := f.typeOperand(r.ops[0], "va_list")
		o.i = 1
		f.value(o, lt, "va_list")
		result = f.typeOperand(r.ops[2], "result")

	case fcExtractVal, fcInsertVal:
		produces = true
		_, at, ok := f.valueTypePair(o, "aggregate")
		if !ok {
			break
		}
		vt := noType
		if r.code == fcInsertVal {
			_, vt, ok = f.valueTypePair(o, "inserted value")
			if !ok {
				break
			}
		}
		c.fire("F3")
		if o.left() == 0 {
			f.bad("no indices")
			break
		}
		cur := at
		for o.left() > 0 && cur != noType {
			ix, _ := o.next()
			t := m.ty(cur)
			c.fire("F3")
			switch {
			case t == nil:
				cur = noType
			case t.kind == tkStruct:
				if ix >= uint64(len(t.fields)) {
					f.bad("struct index %d into %s", ix, m.typeString(cur))
					cur = noType
				} else {
					cur = t.fields[ix]
				}
			case t.kind == tkArray:
				if ix >= t.n {
					f.bad("array index %d into %s", ix, m.typeString(cur))
					cur = noType
				} else {
					cur = t.elem
				}
			default:
				f.bad("index %d into non-aggregate %s", ix, m.typeString(cur))
				cur = noType
			}
		}
		if r.code == fcExtractVal {
			result = cur
		} else {
			c.fire("F3")
			if cur != noType && vt != noType && !m.sameType(cur, vt) {
				f.bad("inserted value has type %s, the indexed member has %s", m.typeString(vt), m.typeString(cur))
			}
			result = at
		}

	case fcCall, fcInvoke:
		result, produces = f.call(r, o)
		terminator = r.code == fcInvoke
		if f.stop {
			return
		}

	case fcFence:
		c.fire("F3")
		if len(r.ops) != 2 {
			f.bad("FENCE with %d operands, want 2", len(r.ops))
			break
		}
		f.ordering(r.ops[0], "fence", 0, 1, 2)

	case fcAtomicRMW:
		produces = true
		_, pt, ok := f.valueTypePair(o, "pointer")
		if !ok {
			break
		}
		vt := f.loadStoreType(pt, noType, "atomicrmw")
		f.value(o, vt, "value")
		c.fire("F3")
		if o.left() != 4 {
			f.bad("%d operands after the value, want [operation, volatile, ordering, synchscope]", o.left())
			break
		}
		op, _ := o.next()
		if op > 10 {
			f.bad("atomicrmw operation %d > 10", op)
		}
		o.next()
		ord, _ := o.next()
		f.ordering(ord, "atomicrmw", 0, 1)
		result = vt

	case fcCmpXchg, fcCmpXchgOld:
		produces = true
		_, pt, ok := f.valueTypePair(o, "pointer")
		if !ok {
			break
		}
		vt := f.loadStoreType(pt, noType, "cmpxchg")
		if r.code == fcCmpXchg {
			var ct int
			_, ct, ok = f.valueTypePair(o, "compare value")
			if !ok {
				break
			}
			if ct != noType {
				if vt != noType {
					c.fire("F3")
					if !m.sameType(ct, vt) {
						f.bad("compare value has type %s, the pointer addresses %s", m.typeString(ct), m.typeString(vt))
					}
				}
				vt = ct
			}
		} else {
			f.value(o, vt, "compare value")
		}
		f.value(o, vt, "new value")
		c.fire("F3")
		if o.left() < 3 || o.left() > 5 {
			f.bad("%d operands after the new value, want 3..5 [volatile, ordering, synchscope, failure ordering?, weak?]", o.left())
			break
		}
		f.ordering(o.ops[o.i+1], "cmpxchg", 0, 1)
		if len(r.ops) < 8 {
			// Old form: the value is the loaded element.
			result = vt
		} else if vt != noType {
			result = m.findOrAdd(typ{kind: tkStruct, fields: []int{vt, m.intType(1)}})
		}
	}

	if traceInst != nil {
		traceInst(fmt.Sprintf("%s ops=%v -> produces=%v type=%s", f.where, r.ops, produces, m.typeString(result)))
	}
	f.insts++
	if produces {
		vn := f.nextValue()
		if want, ok := f.fwd[vn]; ok {
			c.fire("F3")
			if want != noType && result != noType && !m.sameType(want, result) {
				f.bad("defines value %d with type %s, an earlier forward reference (%s) expected %s", vn, m.typeString(result), f.fwdWhere[vn], m.typeString(want))
			}
		}
		m.vals = append(m.vals, gval{ty: result, kind: vkInst})
	}
	if terminator {
		f.curBB++
		f.inBlock = false
	}
}

// loadStoreType is typeCheckLoadStoreInst: ptr must be a pointer whose pointee
// equals val (when given) and is a first-class, non-function type. It returns
// the accessed type.
func (f *fnCtx) loadStoreType(ptr, val int, what string) int {
	m := f.m
	if ptr == noType {
		return val
	}
	f.c.fire("F3")
	if m.kindOf(ptr) != tkPtr {
		f.bad("%s operand has type %s, not a pointer", what, m.typeString(ptr))
		return val
	}
	pointee := m.types[ptr].elem
	if val != noType && !m.sameType(val, pointee) {
		f.bad("%s of %s through a pointer to %s", what, m.typeString(val), m.typeString(pointee))
		return val
	}
	switch m.kindOf(pointee) {
	case tkVoid, tkLabel, tkMetadata, tkFunc, tkOpaque:
		f.bad("cannot %s a value of type %s", what, m.typeString(pointee))
	}
	return pointee
}

// gepResult computes the pointer type a GEP yields.
func (f *fnCtx) gepResult(base, src int, idx []uint32, idxTy []int) int {
	m := f.m
	if m.kindOf(base) != tkPtr {
		return noType // vector of pointers
	}
	for _, t := range idxTy {
		if t != noType && m.kindOf(t) == tkVector {
			return noType
		}
	}
	cur := src
	for k := 1; k < len(idx); k++ {
		t := m.ty(cur)
		if t == nil {
			return noType
		}
		switch t.kind {
		case tkStruct:
			vn := idx[k]
			if vn >= f.nextValue() || !m.vals[vn].isInt {
				return noType
			}
			iv := m.vals[vn].ival
			f.c.fire("F3")
			if iv < 0 || iv >= int64(len(t.fields)) {
				f.bad("GEP struct index %d into %s", iv, m.typeString(cur))
				return noType
			}
			cur = t.fields[iv]
		case tkArray, tkVector:
			cur = t.elem
		default:
			f.c.fire("F3")
			f.bad("GEP index %d steps into non-aggregate type %s", k, m.typeString(cur))
			return noType
		}
	}
	return m.ptrTo(cur, m.types[base].addr)
}

// call decodes CALL [paramattrs, cc, fnty?, fnid, args...] and
// INVOKE [paramattrs, cc, normal bb, unwind bb, fnty?, fnid, args...].
func (f *fnCtx) call(r *bsRecord, o *opCur) (result int, produces bool) {
	c, m := f.c, f.m
	isInvoke := r.code == fcInvoke
	min := 3
	explicitBit := uint(15)
	if isInvoke {
		min = 4
		explicitBit = 13
	}
	c.fire("F3")
	if len(r.ops) < min {
		f.bad("%d operands, need at least %d", len(r.ops), min)
		c.unsupported("%s: truncated call record, result type unknown", f.name)
		f.stop = true
		return noType, false
	}
	attrs, _ := o.next()
	c.check("M3", attrs <= uint64(m.attrEntries), "%s: paramattr index %d but the PARAMATTR block has %d entries", f.where, attrs, m.attrEntries)
	cc, _ := o.next()
	if isInvoke {
		nb, _ := o.next()
		ub, _ := o.next()
		f.block(nb, "normal destination")
		f.block(ub, "unwind destination")
	}
	fty := noType
	explicit := cc>>explicitBit&1 != 0
	if explicit {
		tyOp, have := o.next()
		c.fire("F3")
		if !have {
			f.bad("explicit function type missing")
		} else if !m.typeIDOK(tyOp) || m.kindOf(int(tyOp)) != tkFunc {
			f.bad("explicit call type id %d is not a function type", tyOp)
		} else {
			fty = int(tyOp)
		}
	}
	_, ct, ok := f.valueTypePair(o, "callee")
	if ok && ct != noType {
		c.fire("F3")
		if m.kindOf(ct) != tkPtr {
			f.bad("callee has type %s, not a pointer", m.typeString(ct))
		} else {
			pointee := m.types[ct].elem
			switch {
			case m.kindOf(pointee) != tkFunc:
				f.bad("callee has type %s, not a pointer to a function", m.typeString(ct))
			case fty == noType && !explicit:
				fty = pointee
			case fty != noType && !m.sameType(fty, pointee):
				f.bad("explicit call type %s does not match the callee's function type %s", m.typeString(fty), m.typeString(pointee))
			}
		}
	}
	if fty == noType {
		c.unsupported("%s: call whose function type cannot be determined", f.where)
		f.stop = true
		return noType, false
	}
	ft := m.types[fty]
	c.fire("F3")
	if o.left() < len(ft.params) {
		f.bad("%d argument operands for a callee of type %s", o.left(), m.typeString(fty))
	} else {
		for i, p := range ft.params {
			switch m.kindOf(p) {
			case tkLabel:
				id, _ := o.next()
				f.block(id, fmt.Sprintf("argument %d", i))
			case tkMetadata:
				o.next() // a metadata id, resolved against the function-local table
			default:
				f.value(o, p, fmt.Sprintf("argument %d", i))
			}
		}
		if ft.vararg {
			for o.left() > 0 {
				if _, _, ok := f.valueTypePair(o, "variadic argument"); !ok {
					break
				}
			}
		} else {
			c.fire("F3")
			if o.left() != 0 {
				f.bad("%d operands beyond the %d parameters of %s", o.left(), len(ft.params), m.typeString(fty))
			}
		}
	}
	if m.kindOf(ft.ret) == tkVoid {
		return noType, false
	}
	return ft.ret, true
}

// castInvalid is CastInst::castIsValid; it returns a reason or "".
func (m *modCtx) castInvalid(opc uint64, src, dst int) string {
	sk, dk := m.kindOf(src), m.kindOf(dst)
	firstClass := func(k tyKind) bool { return k != tkVoid && k != tkFunc && k != tkInvalid && k != tkOpaque }
	if !firstClass(sk) || !firstClass(dk) || sk == tkStruct || sk == tkArray || dk == tkStruct || dk == tkArray {
		return "operands must be first-class non-aggregate types"
	}
	sl, dl := m.vecLen(src), m.vecLen(dst)
	ss, ds := m.scalar(src), m.scalar(dst)
	ssk, dsk := m.kindOf(ss), m.kindOf(ds)
	bitsOf := func(id int) uint64 {
		t := m.ty(id)
		switch {
		case t == nil:
			return 0
		case t.kind == tkInt:
			return t.bits
		case isFPKind(t.kind):
			return fpBits(t.kind)
		case t.kind == tkX86MMX:
			return 64
		}
		return 0
	}
	sb, db := bitsOf(ss), bitsOf(ds)
	sameShape := sl == dl
	switch opc {
	case 0: // trunc
		if ssk != tkInt || dsk != tkInt || !sameShape || sb <= db {
			return "trunc needs integer -> narrower integer of the same shape"
		}
	case 1, 2: // zext, sext
		if ssk != tkInt || dsk != tkInt || !sameShape || sb >= db {
			return "zext/sext needs integer -> wider integer of the same shape"
		}
	case 3, 4: // fptoui, fptosi
		if !isFPKind(ssk) || dsk != tkInt || !sameShape {
			return "fptoui/fptosi needs floating point -> integer of the same shape"
		}
	case 5, 6: // uitofp, sitofp
		if ssk != tkInt || !isFPKind(dsk) || !sameShape {
			return "uitofp/sitofp needs integer -> floating point of the same shape"
		}
	case 7: // fptrunc
		if !isFPKind(ssk) || !isFPKind(dsk) || !sameShape || sb <= db {
			return "fptrunc needs floating point -> narrower floating point of the same shape"
		}
	case 8: // fpext
		if !isFPKind(ssk) || !isFPKind(dsk) || !sameShape || sb >= db {
			return "fpext needs floating point -> wider floating point of the same shape"
		}
	case 9: // ptrtoint
		if ssk != tkPtr || dsk != tkInt || !sameShape {
			return "ptrtoint needs pointer -> integer of the same shape"
		}
	case 10: // inttoptr
		if ssk != tkInt || dsk != tkPtr || !sameShape {
			return "inttoptr needs integer -> pointer of the same shape"
		}
	case 11: // bitcast
		if (ssk == tkPtr) != (dsk == tkPtr) {
			return "bitcast between pointer and non-pointer"
		}
		if ssk == tkPtr {
			if m.types[ss].addr != m.types[ds].addr {
				return "bitcast changes the address space"
			}
			if !sameShape {
				return "bitcast between pointer vectors of different length"
			}
			return ""
		}
		if sb == 0 || db == 0 {
			return ""
		}
		total := func(l, b uint64) uint64 {
			if l == 0 {
				return b
			}
			return l * b
		}
		if total(sl, sb) != total(dl, db) {
			return "bitcast between types of different bit width"
		}
	case 12: // addrspacecast
		if ssk != tkPtr || dsk != tkPtr || !sameShape || m.types[ss].addr == m.types[ds].addr {
			return "addrspacecast needs pointers in different address spaces"
		}
	}
	return ""
}
