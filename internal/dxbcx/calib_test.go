package dxbcx

import (
	"fmt"
	"os"
	"path/filepath"
	"sort"
	"strings"
	"testing"

	"github.com/gogpu/naga"
	"github.com/gogpu/naga/dxil"
	"github.com/gogpu/naga/ir"
)

const corpusDir = "/repo/snapshot/testdata/in"

type corpusCase struct {
	shader string
	ep     string
	stage  ir.ShaderStage
	sm     int
	bypass bool
	bin    []byte
}

func stageKind(s ir.ShaderStage) int {
	switch s {
	case ir.StageFragment:
		return 0
	case ir.StageVertex:
		return 1
	case ir.StageCompute:
		return 5
	case ir.StageMesh:
		return 13
	case ir.StageTask:
		return 14
	}
	return -1
}

// lowerCorpus parses and lowers one corpus shader; nil when naga rejects it.
func lowerCorpus(path string) *ir.Module {
	src, err := os.ReadFile(path)
	if err != nil {
		return nil
	}
	ast, err := naga.Parse(string(src))
	if err != nil {
		return nil
	}
	m, err := naga.LowerWithSource(ast, string(src))
	if err != nil || m == nil {
		return nil
	}
	if len(m.Overrides) > 0 {
		mm := ir.CloneModuleForOverrides(m)
		if err := ir.ProcessOverrides(mm, nil); err != nil {
			return nil
		}
		m = mm
	}
	return m
}

// compileEP compiles entry point j by moving it to the front of a shallow copy.
func compileEP(m *ir.Module, j int, opts dxil.Options) (bin []byte, err error) {
	defer func() {
		if r := recover(); r != nil {
			err = fmt.Errorf("panic: %v", r)
		}
	}()
	mm := *m
	eps := make([]ir.EntryPoint, 0, len(m.EntryPoints))
	eps = append(eps, m.EntryPoints[j])
	for k := range m.EntryPoints {
		if k != j {
			eps = append(eps, m.EntryPoints[k])
		}
	}
	mm.EntryPoints = eps
	return dxil.Compile(&mm, opts)
}

// corpusOutputs compiles every corpus shader / entry point with the given
// shader-model minors. Compile errors are not interesting here.
func corpusOutputs(t testing.TB, minors []int, bypassToo bool) []corpusCase {
	files, err := filepath.Glob(filepath.Join(corpusDir, "*.wgsl"))
	if err != nil || len(files) == 0 {
		t.Skipf("corpus not available: %v", err)
	}
	sort.Strings(files)
	var out []corpusCase
	for _, path := range files {
		m := lowerCorpus(path)
		if m == nil {
			continue
		}
		name := strings.TrimSuffix(filepath.Base(path), ".wgsl")
		for j := range m.EntryPoints {
			for _, minor := range minors {
				for _, bypass := range []bool{false, true} {
					if bypass && (!bypassToo || minor != minors[0]) {
						continue
					}
					opts := dxil.DefaultOptions()
					opts.ShaderModel = dxil.ShaderModel{Major: 6, Minor: uint32(minor)}
					opts.UseBypassHash = bypass
					bin, err := compileEP(m, j, opts)
					if err != nil {
						continue
					}
					out = append(out, corpusCase{shader: name, ep: m.EntryPoints[j].Name, stage: m.EntryPoints[j].Stage, sm: minor, bypass: bypass, bin: bin})
				}
			}
		}
	}
	return out
}

func noExpect() Expect { return Expect{ShaderKind: -1, NumInputElems: -1, NumOutputElems: -1} }

// TestCalibrationCorpus runs Check over everything dxil.Compile accepts from
// the corpus, for SM 6.0..6.6. upstream reports most of these pass the real
// IDxcValidator, so a finding here is presumed to be a bug of this package
// until it is justified from the format definition. The justified ones are
// listed in knownNagaFindings.
func TestCalibrationCorpus(t *testing.T) {
	minors := []int{0, 1, 2, 3, 4, 5, 6}
	if testing.Short() {
		minors = []int{0, 6}
	}
	cases := corpusOutputs(t, minors, true)
	if len(cases) == 0 {
		t.Fatal("no corpus shader compiled")
	}
	fired := map[string]int{}
	distinct := map[string][]string{}
	unsupported := map[string]int{}
	stages := map[int]int{}
	insts, findings, unexpected := 0, 0, 0
	dirty := map[string]map[string]bool{}
	for _, cs := range cases {
		exp := noExpect()
		exp.ShaderKind = stageKind(cs.stage)
		exp.AllowZeroHash = cs.bypass
		rep := Check(cs.bin, exp)
		for k, v := range rep.Fired {
			fired[k] += v
		}
		stages[rep.ShaderKind]++
		insts += rep.NumInstructions
		if rep.Unsupported != "" {
			unsupported[rep.Unsupported]++
		}
		if rep.ShaderModel[0] != 6 || rep.ShaderModel[1] < cs.sm {
			t.Errorf("%s/%s sm6.%d: program header says SM %v", cs.shader, cs.ep, cs.sm, rep.ShaderModel)
		}
		for _, f := range rep.Findings {
			findings++
			if !strings.HasPrefix(f.Detail, "STAT: ") {
				k := cs.shader + "/" + cs.ep
				if dirty[k] == nil {
					dirty[k] = map[string]bool{}
				}
				dirty[k][f.Rule] = true
			}
			key := f.Rule + ": " + generalise(f.Detail)
			distinct[key] = append(distinct[key], fmt.Sprintf("%s/%s sm6.%d", cs.shader, cs.ep, cs.sm))
			if !isKnownNagaFinding(cs.shader+"/"+cs.ep, f) {
				t.Errorf("%s/%s sm6.%d: %s: %s", cs.shader, cs.ep, cs.sm, f.Rule, f.Detail)
				unexpected++
			}
		}
	}
	t.Logf("%d containers checked (%d instructions); stages by kind %v", len(cases), insts, stages)
	ids := RuleIDs()
	var sb strings.Builder
	for _, id := range ids {
		fmt.Fprintf(&sb, " %s=%d", id, fired[id])
	}
	t.Logf("Fired totals:%s", sb.String())
	for u, n := range unsupported {
		t.Logf("Unsupported x%d: %s", n, u)
	}
	var dk []string
	for k, rules := range dirty {
		var rs []string
		for r := range rules {
			rs = append(rs, r)
		}
		sort.Strings(rs)
		dk = append(dk, k+" "+strings.Join(rs, ","))
	}
	sort.Strings(dk)
	t.Logf("%d shader/entry-point pairs with findings:\n  %s", len(dk), strings.Join(dk, "\n  "))
	keys := make([]string, 0, len(distinct))
	for k := range distinct {
		keys = append(keys, k)
	}
	sort.Strings(keys)
	for _, k := range keys {
		w := distinct[k]
		t.Logf("finding x%d  %s   e.g. %s", len(w), k, w[0])
	}
	for _, must := range []string{"X1", "X2", "X3", "X4", "X5", "X6", "S1", "P1", "P2", "P3", "D1", "D2", "B1", "B2", "B3", "B6", "M1", "M2", "M3", "M4", "M5", "M6", "F1", "F2", "F3", "F4"} {
		if fired[must] == 0 {
			t.Errorf("rule %s never evaluated on the corpus", must)
		}
	}
	t.Logf("%d findings in total, %d of them not covered by knownNagaFindings", findings, unexpected)
	for k := range knownNagaFindings {
		if dirty[k] == nil {
			t.Logf("note: %s is listed in knownNagaFindings but was clean", k)
		}
	}
}

// generalise strips numbers so that equal causes collapse into one line.
func generalise(s string) string {
	var b strings.Builder
	inNum := false
	for _, ch := range s {
		if ch >= '0' && ch <= '9' {
			if !inNum {
				b.WriteByte('#')
			}
			inNum = true
			continue
		}
		inNum = false
		b.WriteRune(ch)
	}
	return b.String()
}

// knownNagaFindings lists the corpus entry points whose unmodified naga output
// violates a rule, with the rules concerned. Every entry was reviewed against
// the format definition (see the comment) and is believed to be a genuine
// defect of the experimental backend, not of this reader.
var knownNagaFindings = map[string][]string{
	// GEP [inbounds, {i32}, base, 0, 0] whose base operand resolves to the
	// previous GEP's i32* instead of the {i32}* alloca: "Explicit gep type does
	// not match pointee type of pointer operand" in the 3.7 reader.
	"access/foo_compute": {"F3"},
	// PSV0 says SigInputElements=1 and SigOutputElements=1 but only one
	// PSVSignatureElement follows (the barycentric input is also emitted to ISG1
	// as "SV_Unknown16"): the part ends 16 bytes early.
	"barycentrics/fs_main": {"P1"},
	// STORE / LOAD / GEP whose pointer operand resolves to the dx.types.Handle
	// returned by a createHandle call (the alloca it meant is not in the body).
	"bounds-check-restrict/main": {"F3"},
	"bounds-check-zero/main":     {"F3"},
	"hlsl_mat_cx2/main":          {"F3"},
	"hlsl_mat_cx3/main":          {"F3"},
	// PHI float with forward-referenced incoming values that land on GEP results
	// (float*): the writer assumed three values per case block, the blocks
	// define two.
	"debug-symbol-large-source/gen_terrain_fragment": {"F3"},
	"debug-symbol-terrain/gen_terrain_fragment":      {"F3"},
	// half and float (resp. i32 and i64) operands mixed in one BINOP / CMP /
	// call argument, bitcast half -> i32, extractvalue index 2,3 of the
	// two-field CBufRet.i64, and CAST records with a negative relative id
	// (use before definition) that lack the forward-reference type operand.
	"f16/main":   {"F3"},
	"int64/main": {"F3"},
	// Mesh shaders: PSV0 counts 2 primitive-signature elements but carries none
	// (part ends early); PSG1 gives SV_CullPrimitive the D3D_NAME value 24
	// (SHADINGRATE) instead of 25.
	"mesh-shader/ms_main":        {"P1", "S1"},
	"mesh-shader-lines/ms_main":  {"P1"},
	"mesh-shader-points/ms_main": {"P1"},
	// 41 vertex inputs, registers 32..40: beyond the 32 input registers D3D12
	// has; the backend should reject the shader instead.
	"msl-vpt-formats-x1/render_vertex": {"S1"},
	"msl-vpt-formats-x2/render_vertex": {"S1"},
	"msl-vpt-formats-x3/render_vertex": {"S1"},
	"msl-vpt-formats-x4/render_vertex": {"S1"},
}

func isKnownNagaFinding(key string, f Finding) bool {
	for _, r := range knownNagaFindings[key] {
		if f.Rule == r {
			return true
		}
	}
	return false
}
