// Package wlayout computes the WGSL memory layout (AlignOf, SizeOf, member offsets, array strides) of host-shareable
// types straight from the WGSL specification §"Memory Layout". It is the specification side of C07 and the bridge between
// wref's scalar-leaf values and the byte images the interpreters run on. It shares no code with naga.
package wlayout

import (
	"encoding/binary"
	"fmt"

	"verif/internal/wgen"
)

func roundUp(k, n int) int { return (n + k - 1) / k * k }

// AlignOf per WGSL table "Alignment and size for host-shareable types".
func AlignOf(t *wgen.Type) int {
	switch t.Kind {
	case wgen.KI32, wgen.KU32, wgen.KF32:
		return 4
	case wgen.KF16:
		return 2
	case wgen.KAtomic:
		return 4
	case wgen.KVec:
		s := SizeOf(t.Elem)
		switch t.N {
		case 2:
			return 2 * s
		default: // vec3, vec4
			return 4 * s
		}
	case wgen.KMat:
		return AlignOf(colType(t))
	case wgen.KArray:
		return AlignOf(t.Elem)
	case wgen.KStruct:
		a := 1
		for _, m := range t.Members {
			a = max(a, MemberAlign(m))
		}
		return a
	}
	panic("AlignOf: not host-shareable: " + t.String())
}

func colType(t *wgen.Type) *wgen.Type {
	return &wgen.Type{Kind: wgen.KVec, N: t.R, Elem: t.Elem}
}

func MemberAlign(m wgen.Member) int {
	if m.Align != 0 {
		return m.Align
	}
	return AlignOf(m.Type)
}

func MemberSize(m wgen.Member, rtCount int) int {
	if m.Size != 0 {
		return m.Size
	}
	return SizeOfRT(m.Type, rtCount)
}

// SizeOf of a fixed-footprint type.
func SizeOf(t *wgen.Type) int { return SizeOfRT(t, 0) }

// SizeOfRT: size where a runtime-sized array (if any, at the tail) has rtCount elements.
func SizeOfRT(t *wgen.Type, rtCount int) int {
	switch t.Kind {
	case wgen.KI32, wgen.KU32, wgen.KF32, wgen.KAtomic:
		return 4
	case wgen.KF16:
		return 2
	case wgen.KVec:
		return t.N * SizeOf(t.Elem)
	case wgen.KMat:
		// SizeOf(array<vecR, C>)
		c := colType(t)
		return t.N * roundUp(AlignOf(c), SizeOf(c))
	case wgen.KArray:
		n := t.N
		if n == 0 {
			n = rtCount
		}
		return n * Stride(t)
	case wgen.KStruct:
		off := 0
		for i, m := range t.Members {
			off = roundUp(MemberAlign(m), off)
			last := i == len(t.Members)-1
			rc := 0
			if last {
				rc = rtCount
			}
			off += MemberSize(m, rc)
		}
		return roundUp(AlignOf(t), off)
	}
	panic("SizeOf: not host-shareable: " + t.String())
}

// Stride of an array's elements.
func Stride(t *wgen.Type) int { return roundUp(AlignOf(t.Elem), SizeOf(t.Elem)) }

// Offsets returns the byte offset of each member of a struct.
func Offsets(t *wgen.Type) []int {
	offs := make([]int, len(t.Members))
	off := 0
	for i, m := range t.Members {
		off = roundUp(MemberAlign(m), off)
		offs[i] = off
		off += MemberSize(m, 0)
	}
	return offs
}

// Leaf describes one scalar leaf of a type tree laid out in memory.
type Leaf struct {
	Off  int
	Kind wgen.Kind // KI32 | KU32 | KF32 | KF16 (atomics report their element kind)
	Path string
}

// Leaves lists the scalar leaves of t in declaration order (the same order wref flattens values in),
// with their byte offsets. rtCount is the element count of the runtime-sized tail array, if any.
func Leaves(t *wgen.Type, rtCount int) []Leaf {
	var out []Leaf
	walk(t, 0, rtCount, "", &out)
	return out
}

func walk(t *wgen.Type, base, rtCount int, path string, out *[]Leaf) {
	switch t.Kind {
	case wgen.KI32, wgen.KU32, wgen.KF32, wgen.KF16:
		*out = append(*out, Leaf{Off: base, Kind: t.Kind, Path: path})
	case wgen.KAtomic:
		*out = append(*out, Leaf{Off: base, Kind: t.Elem.Kind, Path: path})
	case wgen.KVec:
		s := SizeOf(t.Elem)
		for i := 0; i < t.N; i++ {
			walk(t.Elem, base+i*s, 0, fmt.Sprintf("%s.%c", path, "xyzw"[i]), out)
		}
	case wgen.KMat:
		c := colType(t)
		st := roundUp(AlignOf(c), SizeOf(c))
		for i := 0; i < t.N; i++ {
			walk(c, base+i*st, 0, fmt.Sprintf("%s[%d]", path, i), out)
		}
	case wgen.KArray:
		n := t.N
		if n == 0 {
			n = rtCount
		}
		st := Stride(t)
		for i := 0; i < n; i++ {
			walk(t.Elem, base+i*st, 0, fmt.Sprintf("%s[%d]", path, i), out)
		}
	case wgen.KStruct:
		offs := Offsets(t)
		for i, m := range t.Members {
			rc := 0
			if i == len(t.Members)-1 {
				rc = rtCount
			}
			walk(m.Type, base+offs[i], rc, path+"."+m.Name, out)
		}
	default:
		panic("Leaves: not host-shareable: " + t.String())
	}
}

// Put32 / Get32 helpers on byte images.
func Put32(b []byte, off int, v uint32) { binary.LittleEndian.PutUint32(b[off:], v) }
func Get32(b []byte, off int) uint32     { return binary.LittleEndian.Uint32(b[off:]) }

// UniformOK reports whether t satisfies the extra layout constraints of the uniform address space
// (WGSL §"Address Space Layout Constraints"): array strides multiple of 16, struct members of struct type aligned to 16,
// and a member following a struct member starts at least roundUp(16, sizeof(struct)) after it.
func UniformOK(t *wgen.Type) bool {
	switch t.Kind {
	case wgen.KArray:
		if t.N == 0 || Stride(t)%16 != 0 {
			return false
		}
		return UniformOK(t.Elem)
	case wgen.KStruct:
		offs := Offsets(t)
		for i, m := range t.Members {
			if m.Type.Kind == wgen.KStruct {
				if offs[i]%16 != 0 {
					return false
				}
				if i+1 < len(t.Members) && offs[i+1]-offs[i] < roundUp(16, SizeOf(m.Type)) {
					return false
				}
			}
			if m.Type.Kind == wgen.KArray && offs[i]%16 != 0 {
				return false
			}
			if !UniformOK(m.Type) {
				return false
			}
		}
	}
	return true
}

// TailInfo returns the byte offset and stride of the runtime-sized tail array of t (ok=false if none).
func TailInfo(t *wgen.Type) (off, stride int, ok bool) {
	switch t.Kind {
	case wgen.KArray:
		if t.N == 0 {
			return 0, Stride(t), true
		}
	case wgen.KStruct:
		if n := len(t.Members); n > 0 {
			o, s, ok := TailInfo(t.Members[n-1].Type)
			if ok {
				return Offsets(t)[n-1] + o, s, true
			}
		}
	}
	return 0, 0, false
}

// RuntimeCount is WGSL's arrayLength for a binding of bufSize bytes: floor((bufSize - offset) / stride).
func RuntimeCount(t *wgen.Type, bufSize int) int {
	off, stride, ok := TailInfo(t)
	if !ok || bufSize < off {
		return 0
	}
	return (bufSize - off) / stride
}
