package irstrict

import (
	"fmt"
	"strings"

	"github.com/gogpu/naga/ir"
)

// ty is a resolved expression type: the TypeInner plus, when the type is a
// member of the module's type arena, its handle (else -1).
type ty struct {
	inner  ir.TypeInner
	handle int
}

func (t ty) ok() bool { return t.inner != nil }

var noTy = ty{handle: -1}

func valTy(in ir.TypeInner) ty { return ty{inner: in, handle: -1} }

func (c *checker) handleTy(h ir.TypeHandle) ty {
	if !c.typeOK(h) {
		return noTy
	}
	return ty{inner: c.m.Types[h].Inner, handle: int(h)}
}

// resTy converts a recorded ir.TypeResolution.
func (c *checker) resTy(r ir.TypeResolution) ty {
	if r.Handle != nil {
		return c.handleTy(*r.Handle)
	}
	if r.Value == nil {
		return noTy
	}
	return valTy(r.Value)
}

var (
	scBool = ir.ScalarType{Kind: ir.ScalarBool, Width: 1}
	scU32  = ir.ScalarType{Kind: ir.ScalarUint, Width: 4}
	scI32  = ir.ScalarType{Kind: ir.ScalarSint, Width: 4}
	scF32  = ir.ScalarType{Kind: ir.ScalarFloat, Width: 4}
)

// eqTy is structural equality of two resolved types (structs: same handle, or
// member-wise identical).
func (c *checker) eqTy(a, b ty) bool {
	if !a.ok() || !b.ok() {
		return false
	}
	if a.handle >= 0 && a.handle == b.handle {
		return true
	}
	return c.eqInner(a.inner, b.inner, 0)
}

func (c *checker) eqHandle(a, b ir.TypeHandle, depth int) bool {
	if a == b {
		return true
	}
	if !c.typeOK(a) || !c.typeOK(b) || depth > 32 {
		return false
	}
	return c.eqInner(c.m.Types[a].Inner, c.m.Types[b].Inner, depth+1)
}

func eqU32Ptr(a, b *uint32) bool {
	if a == nil || b == nil {
		return a == nil && b == nil
	}
	return *a == *b
}

func (c *checker) eqInner(a, b ir.TypeInner, depth int) bool {
	switch x := a.(type) {
	case ir.ScalarType:
		y, ok := b.(ir.ScalarType)
		return ok && x == y
	case ir.VectorType:
		y, ok := b.(ir.VectorType)
		return ok && x == y
	case ir.MatrixType:
		y, ok := b.(ir.MatrixType)
		return ok && x == y
	case ir.AtomicType:
		y, ok := b.(ir.AtomicType)
		return ok && x == y
	case ir.SamplerType:
		y, ok := b.(ir.SamplerType)
		return ok && x == y
	case ir.ImageType:
		y, ok := b.(ir.ImageType)
		if !ok {
			return false
		}
		return imageKey(x) == imageKey(y)
	case ir.AccelerationStructureType:
		_, ok := b.(ir.AccelerationStructureType)
		return ok
	case ir.RayQueryType:
		_, ok := b.(ir.RayQueryType)
		return ok
	case ir.PointerType:
		y, ok := b.(ir.PointerType)
		return ok && x.Space == y.Space && c.eqHandle(x.Base, y.Base, depth)
	case ir.ValuePointerType:
		y, ok := b.(ir.ValuePointerType)
		if !ok || x.Scalar != y.Scalar || x.Space != y.Space {
			return false
		}
		if x.Size == nil || y.Size == nil {
			return x.Size == nil && y.Size == nil
		}
		return *x.Size == *y.Size
	case ir.ArrayType:
		y, ok := b.(ir.ArrayType)
		return ok && x.Stride == y.Stride && eqU32Ptr(x.Size.Constant, y.Size.Constant) && c.eqHandle(x.Base, y.Base, depth)
	case ir.BindingArrayType:
		y, ok := b.(ir.BindingArrayType)
		return ok && eqU32Ptr(x.Size, y.Size) && c.eqHandle(x.Base, y.Base, depth)
	case ir.StructType:
		y, ok := b.(ir.StructType)
		if !ok || x.Span != y.Span || len(x.Members) != len(y.Members) {
			return false
		}
		for i := range x.Members {
			if x.Members[i].Name != y.Members[i].Name || x.Members[i].Offset != y.Members[i].Offset ||
				!c.eqHandle(x.Members[i].Type, y.Members[i].Type, depth) {
				return false
			}
		}
		return true
	}
	return false
}

// imageKey returns only the fields of an image type that are meaningful for
// its class (SampledKind is meaningless for depth/storage images, format and
// access are meaningless for non-storage images).
func imageKey(i ir.ImageType) ir.ImageType {
	k := ir.ImageType{Dim: i.Dim, Arrayed: i.Arrayed, Class: i.Class, Multisampled: i.Multisampled}
	switch i.Class {
	case ir.ImageClassSampled:
		k.SampledKind = i.SampledKind
	case ir.ImageClassStorage:
		k.StorageFormat = i.StorageFormat
		k.StorageAccess = i.StorageAccess
	}
	return k
}

// ---------------------------------------------------------------- printing

func scalarStr(s ir.ScalarType) string {
	switch s.Kind {
	case ir.ScalarSint:
		return fmt.Sprintf("i%d", int(s.Width)*8)
	case ir.ScalarUint:
		return fmt.Sprintf("u%d", int(s.Width)*8)
	case ir.ScalarFloat:
		return fmt.Sprintf("f%d", int(s.Width)*8)
	case ir.ScalarBool:
		if s.Width == 1 {
			return "bool"
		}
		return fmt.Sprintf("bool(w%d)", s.Width)
	case ir.ScalarAbstractInt:
		return "abstract-int"
	case ir.ScalarAbstractFloat:
		return "abstract-float"
	}
	return fmt.Sprintf("scalar(kind%d,w%d)", s.Kind, s.Width)
}

var spaceNames = map[ir.AddressSpace]string{
	ir.SpaceFunction: "function", ir.SpacePrivate: "private", ir.SpaceWorkGroup: "workgroup",
	ir.SpaceUniform: "uniform", ir.SpaceStorage: "storage", ir.SpacePushConstant: "push_constant",
	ir.SpaceHandle: "handle", ir.SpaceImmediate: "immediate", ir.SpaceTaskPayload: "task_payload",
}

func spaceStr(s ir.AddressSpace) string {
	if n, ok := spaceNames[s]; ok {
		return n
	}
	return fmt.Sprintf("space%d", s)
}

func (c *checker) tyStr(t ty) string {
	if !t.ok() {
		return "<none>"
	}
	s := c.innerStr(t.inner, 0)
	if t.handle >= 0 {
		return fmt.Sprintf("%s[type %d]", s, t.handle)
	}
	return s
}

func (c *checker) handleStr(h ir.TypeHandle, depth int) string {
	if !c.typeOK(h) {
		return fmt.Sprintf("<bad type %d>", h)
	}
	if depth > 6 {
		return fmt.Sprintf("type%d", h)
	}
	t := c.m.Types[h]
	if _, isStruct := t.Inner.(ir.StructType); isStruct {
		return fmt.Sprintf("struct %s#%d", t.Name, h)
	}
	return c.innerStr(t.Inner, depth+1)
}

func (c *checker) innerStr(in ir.TypeInner, depth int) string {
	switch x := in.(type) {
	case nil:
		return "<nil>"
	case ir.ScalarType:
		return scalarStr(x)
	case ir.VectorType:
		return fmt.Sprintf("vec%d<%s>", x.Size, scalarStr(x.Scalar))
	case ir.MatrixType:
		return fmt.Sprintf("mat%dx%d<%s>", x.Columns, x.Rows, scalarStr(x.Scalar))
	case ir.AtomicType:
		return fmt.Sprintf("atomic<%s>", scalarStr(x.Scalar))
	case ir.PointerType:
		return fmt.Sprintf("ptr<%s,%s>", spaceStr(x.Space), c.handleStr(x.Base, depth))
	case ir.ValuePointerType:
		if x.Size != nil {
			return fmt.Sprintf("valueptr<%s,vec%d<%s>>", spaceStr(x.Space), *x.Size, scalarStr(x.Scalar))
		}
		return fmt.Sprintf("valueptr<%s,%s>", spaceStr(x.Space), scalarStr(x.Scalar))
	case ir.ArrayType:
		if x.Size.Constant != nil {
			return fmt.Sprintf("array<%s,%d,stride %d>", c.handleStr(x.Base, depth), *x.Size.Constant, x.Stride)
		}
		return fmt.Sprintf("array<%s,stride %d>", c.handleStr(x.Base, depth), x.Stride)
	case ir.BindingArrayType:
		if x.Size != nil {
			return fmt.Sprintf("binding_array<%s,%d>", c.handleStr(x.Base, depth), *x.Size)
		}
		return fmt.Sprintf("binding_array<%s>", c.handleStr(x.Base, depth))
	case ir.StructType:
		var sb strings.Builder
		sb.WriteString("struct{")
		for i, m := range x.Members {
			if i > 0 {
				sb.WriteString(",")
			}
			fmt.Fprintf(&sb, "%s:%s@%d", m.Name, c.handleStr(m.Type, depth), m.Offset)
		}
		fmt.Fprintf(&sb, "}span %d", x.Span)
		return sb.String()
	case ir.SamplerType:
		if x.Comparison {
			return "sampler_comparison"
		}
		return "sampler"
	case ir.ImageType:
		return fmt.Sprintf("image{dim%d arrayed=%v class%d ms=%v kind%d fmt%d acc%d}", x.Dim, x.Arrayed, x.Class, x.Multisampled, x.SampledKind, x.StorageFormat, x.StorageAccess)
	case ir.AccelerationStructureType:
		return "acceleration_structure"
	case ir.RayQueryType:
		return "ray_query"
	}
	return fmt.Sprintf("%T", in)
}

// ---------------------------------------------------------------- type info

// Type flags, after upstream valid::TypeFlags.
const (
	tfData uint = 1 << iota
	tfSized
	tfCopy
	tfIOShareable
	tfHostShareable
	tfArgument
	tfConstructible
)

type typeInfo struct {
	valid bool // references in range and backward
	flags uint
	size  uint32 // WGSL SizeOf (own computation); runtime array = one element
	align uint32 // WGSL AlignOf (own computation), >= 1
}

func roundUp(align, n uint32) uint32 {
	if align <= 1 {
		return n
	}
	return (n + align - 1) / align * align
}

func isAbstractKind(k ir.ScalarKind) bool {
	return k == ir.ScalarAbstractInt || k == ir.ScalarAbstractFloat
}

func scalarFlags(s ir.ScalarType) uint {
	f := tfData | tfSized | tfCopy | tfArgument | tfConstructible | tfIOShareable
	if s.Kind != ir.ScalarBool {
		f |= tfHostShareable
	}
	return f
}

// computeTypeInfo computes flags / size / alignment of type h from the infos
// of earlier types (types are processed in arena order; a forward reference
// yields valid=false).
func (c *checker) computeTypeInfo(h int) typeInfo {
	in := c.m.Types[h].Inner
	base := func(b ir.TypeHandle) (typeInfo, bool) {
		if int(b) >= h || int(b) >= len(c.tinfo) {
			return typeInfo{}, false
		}
		return c.tinfo[b], c.tinfo[b].valid
	}
	switch x := in.(type) {
	case ir.ScalarType:
		w := uint32(x.Width)
		if w == 0 {
			w = 1
		}
		return typeInfo{valid: true, flags: scalarFlags(x), size: uint32(x.Width), align: w}
	case ir.VectorType:
		w := uint32(x.Scalar.Width)
		n := uint32(x.Size)
		al := w * 2
		if n >= 3 {
			al = w * 4
		}
		if al == 0 {
			al = 1
		}
		return typeInfo{valid: true, flags: scalarFlags(x.Scalar), size: n * w, align: al}
	case ir.MatrixType:
		w := uint32(x.Scalar.Width)
		colAlign := w * 2
		if x.Rows >= 3 {
			colAlign = w * 4
		}
		if colAlign == 0 {
			colAlign = 1
		}
		return typeInfo{valid: true, flags: tfData | tfSized | tfCopy | tfHostShareable | tfArgument | tfConstructible,
			size: colAlign * uint32(x.Columns), align: colAlign}
	case ir.AtomicType:
		w := uint32(x.Scalar.Width)
		if w == 0 {
			w = 1
		}
		return typeInfo{valid: true, flags: tfData | tfSized | tfHostShareable, size: uint32(x.Scalar.Width), align: w}
	case ir.PointerType:
		_, ok := base(x.Base)
		return typeInfo{valid: ok, flags: tfSized | tfCopy | tfArgument, size: 4, align: 1}
	case ir.ValuePointerType:
		return typeInfo{valid: true, flags: tfSized | tfCopy | tfArgument, size: 4, align: 1}
	case ir.ArrayType:
		b, ok := base(x.Base)
		if !ok {
			return typeInfo{align: 1}
		}
		ti := typeInfo{valid: true, align: b.align}
		if x.Size.Constant != nil {
			ti.flags = b.flags & (tfData | tfSized | tfCopy | tfHostShareable | tfArgument | tfConstructible)
			ti.size = x.Stride * *x.Size.Constant
		} else {
			ti.flags = b.flags & (tfData | tfCopy | tfHostShareable)
			ti.size = x.Stride
		}
		return ti
	case ir.StructType:
		ti := typeInfo{valid: true, align: 1, size: x.Span,
			flags: tfData | tfSized | tfCopy | tfHostShareable | tfIOShareable | tfArgument | tfConstructible}
		for _, m := range x.Members {
			b, ok := base(m.Type)
			if !ok {
				return typeInfo{align: 1, size: x.Span}
			}
			ti.flags &= b.flags
			if b.align > ti.align {
				ti.align = b.align
			}
		}
		return ti
	case ir.BindingArrayType:
		b, ok := base(x.Base)
		if !ok {
			return typeInfo{align: 1}
		}
		mask := tfData | tfHostShareable
		if x.Size != nil {
			mask |= tfSized
		}
		return typeInfo{valid: true, flags: b.flags & mask, align: 1}
	case ir.ImageType, ir.SamplerType, ir.AccelerationStructureType:
		return typeInfo{valid: true, flags: tfArgument, align: 1}
	case ir.RayQueryType:
		return typeInfo{valid: true, flags: tfData | tfConstructible | tfSized, align: 1}
	}
	return typeInfo{align: 1}
}
