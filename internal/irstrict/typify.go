package irstrict

import (
	"fmt"

	"github.com/gogpu/naga/ir"
)

// typifier computes expression types for one expression arena following the
// rules of upstream proc::typifier. It is independent of naga's resolver.
type typifier struct {
	c     *checker
	exprs []ir.Expression
	fn    *ir.Function // nil for the global-expression arena
	types []ty         // result, parallel to exprs; noTy when untypable
	why   []string     // reason when untypable ("" = an operand was untypable / forward)
	skip  []bool       // kind deliberately not typed (counted as skipped)

	wgul map[ir.ExpressionHandle]ir.ExpressionHandle // WorkGroupUniformLoadResult -> pointer
}

func (c *checker) newTypifier(exprs []ir.Expression, fn *ir.Function) *typifier {
	t := &typifier{c: c, exprs: exprs, fn: fn,
		types: make([]ty, len(exprs)), why: make([]string, len(exprs)), skip: make([]bool, len(exprs)),
		wgul: map[ir.ExpressionHandle]ir.ExpressionHandle{}}
	for i := range t.types {
		t.types[i] = noTy
	}
	if fn != nil {
		forEachStmt(fn.Body, func(k ir.StatementKind) {
			if s, ok := k.(ir.StmtWorkGroupUniformLoad); ok {
				if _, dup := t.wgul[s.Result]; !dup {
					t.wgul[s.Result] = s.Pointer
				}
			}
		})
	}
	return t
}

func (t *typifier) run() {
	var deferred []int
	for i := range t.exprs {
		if _, ok := t.exprs[i].Kind.(ir.ExprWorkGroupUniformLoadResult); ok {
			if p, has := t.wgul[ir.ExpressionHandle(i)]; has && int(p) >= i {
				deferred = append(deferred, i)
				continue
			}
		}
		t.types[i], t.why[i] = t.typify(i)
	}
	for _, i := range deferred {
		t.types[i], t.why[i] = t.typify(i)
	}
	if t.c.relaxed() {
		// ExprAlias / ExprPhi may refer forward: iterate to a fixed point.
		for pass := 0; pass < 8; pass++ {
			changed := false
			for i := range t.exprs {
				if !t.types[i].ok() && isDxilOnly(t.exprs[i].Kind) {
					if ty, why := t.typify(i); ty.ok() {
						t.types[i], t.why[i] = ty, why
						changed = true
					}
				}
			}
			for i := range t.exprs {
				if !t.types[i].ok() && t.why[i] == "" && !t.skip[i] {
					if ty, why := t.typify(i); ty.ok() {
						t.types[i], t.why[i] = ty, why
						changed = true
					}
				}
			}
			if !changed {
				break
			}
		}
	}
}

// at returns the already computed type of operand h of expression `of`.
// Forward / out-of-range operands yield noTy (rules R1 / R2 report them).
func (t *typifier) at(h ir.ExpressionHandle, of int) ty {
	if int(h) >= len(t.types) {
		return noTy
	}
	if int(h) >= of && !t.c.relaxed() {
		if _, isWG := t.exprs[of].Kind.(ir.ExprWorkGroupUniformLoadResult); !isWG {
			return noTy
		}
	}
	return t.types[h]
}

func vecOf(n ir.VectorSize, s ir.ScalarType) ty { return valTy(ir.VectorType{Size: n, Scalar: s}) }

func (t *typifier) typify(i int) (ty, string) {
	c := t.c
	m := c.m
	bad := func(format string, a ...any) (ty, string) { return noTy, fmt.Sprintf(format, a...) }
	switch e := t.exprs[i].Kind.(type) {
	case nil:
		return bad("nil expression kind")

	case ir.Literal:
		switch e.Value.(type) {
		case ir.LiteralF64:
			return valTy(ir.ScalarType{Kind: ir.ScalarFloat, Width: 8}), ""
		case ir.LiteralF32:
			return valTy(scF32), ""
		case ir.LiteralF16:
			return valTy(ir.ScalarType{Kind: ir.ScalarFloat, Width: 2}), ""
		case ir.LiteralU32:
			return valTy(scU32), ""
		case ir.LiteralI32:
			return valTy(scI32), ""
		case ir.LiteralU64:
			return valTy(ir.ScalarType{Kind: ir.ScalarUint, Width: 8}), ""
		case ir.LiteralI64:
			return valTy(ir.ScalarType{Kind: ir.ScalarSint, Width: 8}), ""
		case ir.LiteralBool:
			return valTy(scBool), ""
		case ir.LiteralAbstractInt:
			// Rule R3 reports the abstract literal itself; for typing it is
			// given its WGSL default concretisation so that one defect does
			// not cascade into R5 findings on every user.
			return valTy(scI32), ""
		case ir.LiteralAbstractFloat:
			return valTy(scF32), ""
		}
		return bad("unknown literal %T", e.Value)

	case ir.ExprConstant:
		if int(e.Constant) >= len(m.Constants) {
			return noTy, ""
		}
		return c.handleTy(m.Constants[e.Constant].Type), ""

	case ir.ExprOverride:
		if int(e.Override) >= len(m.Overrides) {
			return noTy, ""
		}
		return c.handleTy(m.Overrides[e.Override].Ty), ""

	case ir.ExprZeroValue:
		return c.handleTy(e.Type), ""

	case ir.ExprCompose:
		return c.handleTy(e.Type), ""

	case ir.ExprSplat:
		v := t.at(e.Value, i)
		if !v.ok() {
			return noTy, ""
		}
		s, ok := v.inner.(ir.ScalarType)
		if !ok {
			return bad("Splat of non-scalar %s", c.tyStr(v))
		}
		return vecOf(e.Size, s), ""

	case ir.ExprSwizzle:
		v := t.at(e.Vector, i)
		if !v.ok() {
			return noTy, ""
		}
		vt, ok := v.inner.(ir.VectorType)
		if !ok {
			return bad("Swizzle of non-vector %s", c.tyStr(v))
		}
		return vecOf(e.Size, vt.Scalar), ""

	case ir.ExprAccess:
		b := t.at(e.Base, i)
		if !b.ok() {
			return noTy, ""
		}
		return t.accessType(b, nil)

	case ir.ExprAccessIndex:
		b := t.at(e.Base, i)
		if !b.ok() {
			return noTy, ""
		}
		idx := e.Index
		return t.accessType(b, &idx)

	case ir.ExprFunctionArgument:
		if t.fn == nil {
			return bad("FunctionArgument outside a function")
		}
		if int(e.Index) >= len(t.fn.Arguments) {
			return noTy, ""
		}
		return c.handleTy(t.fn.Arguments[e.Index].Type), ""

	case ir.ExprGlobalVariable:
		if int(e.Variable) >= len(m.GlobalVariables) {
			return noTy, ""
		}
		gv := &m.GlobalVariables[e.Variable]
		if !c.typeOK(gv.Type) {
			return noTy, ""
		}
		if gv.Space == ir.SpaceHandle {
			return c.handleTy(gv.Type), ""
		}
		return valTy(ir.PointerType{Base: gv.Type, Space: gv.Space}), ""

	case ir.ExprLocalVariable:
		if t.fn == nil {
			return bad("LocalVariable outside a function")
		}
		if int(e.Variable) >= len(t.fn.LocalVars) {
			return noTy, ""
		}
		lt := t.fn.LocalVars[e.Variable].Type
		if !c.typeOK(lt) {
			return noTy, ""
		}
		return valTy(ir.PointerType{Base: lt, Space: ir.SpaceFunction}), ""

	case ir.ExprLoad:
		p := t.at(e.Pointer, i)
		if !p.ok() {
			return noTy, ""
		}
		switch pt := p.inner.(type) {
		case ir.PointerType:
			if !c.typeOK(pt.Base) {
				return noTy, ""
			}
			if at, ok := m.Types[pt.Base].Inner.(ir.AtomicType); ok {
				return valTy(at.Scalar), ""
			}
			return c.handleTy(pt.Base), ""
		case ir.ValuePointerType:
			if pt.Size != nil {
				return vecOf(*pt.Size, pt.Scalar), ""
			}
			return valTy(pt.Scalar), ""
		}
		return bad("Load of non-pointer %s", c.tyStr(p))

	case ir.ExprAlias:
		return t.at(e.Source, i), ""

	case ir.ExprPhi:
		if len(e.Incoming) == 0 {
			return bad("Phi without incoming values")
		}
		first := t.at(e.Incoming[0].Value, i)
		if !first.ok() {
			return noTy, ""
		}
		for _, in := range e.Incoming[1:] {
			o := t.at(in.Value, i)
			if o.ok() && !c.eqTy(first, o) {
				return bad("Phi incoming types differ: %s vs %s", c.tyStr(first), c.tyStr(o))
			}
		}
		return first, ""

	case ir.ExprImageSample:
		img := t.at(e.Image, i)
		if !img.ok() {
			return noTy, ""
		}
		it, ok := img.inner.(ir.ImageType)
		if !ok {
			return bad("ImageSample of non-image %s", c.tyStr(img))
		}
		switch it.Class {
		case ir.ImageClassDepth:
			if e.Gather != nil {
				return vecOf(ir.Vec4, scF32), ""
			}
			return valTy(scF32), ""
		case ir.ImageClassSampled:
			return vecOf(ir.Vec4, ir.ScalarType{Kind: it.SampledKind, Width: 4}), ""
		case ir.ImageClassExternal:
			return vecOf(ir.Vec4, scF32), ""
		case ir.ImageClassStorage:
			return vecOf(ir.Vec4, storageFormatScalar(it.StorageFormat)), ""
		}
		return bad("ImageSample: unknown image class %d", it.Class)

	case ir.ExprImageLoad:
		img := t.at(e.Image, i)
		if !img.ok() {
			return noTy, ""
		}
		it, ok := img.inner.(ir.ImageType)
		if !ok {
			return bad("ImageLoad of non-image %s", c.tyStr(img))
		}
		switch it.Class {
		case ir.ImageClassDepth:
			return valTy(scF32), ""
		case ir.ImageClassSampled:
			return vecOf(ir.Vec4, ir.ScalarType{Kind: it.SampledKind, Width: 4}), ""
		case ir.ImageClassExternal:
			return vecOf(ir.Vec4, scF32), ""
		case ir.ImageClassStorage:
			return vecOf(ir.Vec4, storageFormatScalar(it.StorageFormat)), ""
		}
		return bad("ImageLoad: unknown image class %d", it.Class)

	case ir.ExprImageQuery:
		switch e.Query.(type) {
		case ir.ImageQuerySize:
			img := t.at(e.Image, i)
			if !img.ok() {
				return noTy, ""
			}
			it, ok := img.inner.(ir.ImageType)
			if !ok {
				return bad("ImageQuery of non-image %s", c.tyStr(img))
			}
			switch it.Dim {
			case ir.Dim1D:
				return valTy(scU32), ""
			case ir.Dim2D, ir.DimCube:
				return vecOf(ir.Vec2, scU32), ""
			case ir.Dim3D:
				return vecOf(ir.Vec3, scU32), ""
			}
			return bad("ImageQuery: unknown dimension %d", it.Dim)
		case ir.ImageQueryNumLevels, ir.ImageQueryNumLayers, ir.ImageQueryNumSamples:
			return valTy(scU32), ""
		}
		return bad("unknown image query %T", e.Query)

	case ir.ExprUnary:
		return t.at(e.Expr, i), ""

	case ir.ExprBinary:
		return t.binaryType(e, i)

	case ir.ExprSelect:
		return t.at(e.Accept, i), ""

	case ir.ExprDerivative:
		return t.at(e.Expr, i), ""

	case ir.ExprRelational:
		switch e.Fun {
		case ir.RelationalAll, ir.RelationalAny:
			return valTy(scBool), ""
		case ir.RelationalIsNan, ir.RelationalIsInf:
			a := t.at(e.Argument, i)
			if !a.ok() {
				return noTy, ""
			}
			switch at := a.inner.(type) {
			case ir.ScalarType:
				return valTy(scBool), ""
			case ir.VectorType:
				return vecOf(at.Size, scBool), ""
			}
			return bad("Relational isnan/isinf of %s", c.tyStr(a))
		}
		return bad("unknown relational function %d", e.Fun)

	case ir.ExprMath:
		return t.mathType(e, i)

	case ir.ExprAs:
		a := t.at(e.Expr, i)
		if !a.ok() {
			return noTy, ""
		}
		conv := func(s ir.ScalarType) ir.ScalarType {
			w := s.Width
			if e.Convert != nil {
				w = *e.Convert
			}
			return ir.ScalarType{Kind: e.Kind, Width: w}
		}
		switch at := a.inner.(type) {
		case ir.ScalarType:
			return valTy(conv(at)), ""
		case ir.VectorType:
			return vecOf(at.Size, conv(at.Scalar)), ""
		case ir.MatrixType:
			return valTy(ir.MatrixType{Columns: at.Columns, Rows: at.Rows, Scalar: conv(at.Scalar)}), ""
		}
		return bad("As of %s", c.tyStr(a))

	case ir.ExprCallResult:
		if int(e.Function) >= len(m.Functions) {
			return noTy, ""
		}
		r := m.Functions[e.Function].Result
		if r == nil {
			return bad("CallResult of function %d which has no result", e.Function)
		}
		return c.handleTy(r.Type), ""

	case ir.ExprArrayLength:
		return valTy(scU32), ""

	case ir.ExprAtomicResult:
		return c.handleTy(e.Ty), ""

	case ir.ExprWorkGroupUniformLoadResult:
		p, has := t.wgul[ir.ExpressionHandle(i)]
		if !has {
			return noTy, "" // unbound result: rule R8 reports it
		}
		if int(p) >= len(t.types) {
			return noTy, ""
		}
		pt := t.types[p]
		if !pt.ok() {
			return noTy, ""
		}
		if ptr, ok := pt.inner.(ir.PointerType); ok {
			return c.handleTy(ptr.Base), ""
		}
		return bad("WorkGroupUniformLoad through non-pointer %s", c.tyStr(pt))

	case ir.ExprRayQueryProceedResult:
		return valTy(scBool), ""

	case ir.ExprRayQueryGetIntersection:
		if m.SpecialTypes.RayIntersection != nil {
			return c.handleTy(*m.SpecialTypes.RayIntersection), ""
		}
		t.skip[i] = true
		return noTy, ""

	case ir.ExprSubgroupBallotResult:
		return vecOf(ir.Vec4, scU32), ""

	case ir.ExprSubgroupOperationResult:
		return c.handleTy(e.Type), ""
	}
	t.skip[i] = true
	return noTy, ""
}

// storageFormatScalar: my own table (u/s-int formats give integer scalars,
// everything else float; the two 64-bit formats are 8 bytes wide).
func storageFormatScalar(f ir.StorageFormat) ir.ScalarType {
	switch f {
	case ir.StorageFormatR64Uint:
		return ir.ScalarType{Kind: ir.ScalarUint, Width: 8}
	case ir.StorageFormatR64Sint:
		return ir.ScalarType{Kind: ir.ScalarSint, Width: 8}
	case ir.StorageFormatR8Uint, ir.StorageFormatR16Uint, ir.StorageFormatRg8Uint, ir.StorageFormatR32Uint,
		ir.StorageFormatRg16Uint, ir.StorageFormatRgba8Uint, ir.StorageFormatRgb10a2Uint, ir.StorageFormatRg32Uint,
		ir.StorageFormatRgba16Uint, ir.StorageFormatRgba32Uint:
		return scU32
	case ir.StorageFormatR8Sint, ir.StorageFormatR16Sint, ir.StorageFormatRg8Sint, ir.StorageFormatR32Sint,
		ir.StorageFormatRg16Sint, ir.StorageFormatRgba8Sint, ir.StorageFormatRg32Sint, ir.StorageFormatRgba16Sint,
		ir.StorageFormatRgba32Sint:
		return scI32
	}
	return scF32
}

// accessType implements Access (idx == nil) and AccessIndex (idx != nil).
// Out-of-range constant indices on sized bases are reported by rule R13; here
// they only make the expression untypable when no element type exists.
func (t *typifier) accessType(b ty, idx *uint32) (ty, string) {
	c := t.c
	bad := func(format string, a ...any) (ty, string) { return noTy, fmt.Sprintf(format, a...) }
	switch bt := b.inner.(type) {
	case ir.ArrayType:
		return c.handleTy(bt.Base), ""
	case ir.BindingArrayType:
		return c.handleTy(bt.Base), ""
	case ir.VectorType:
		return valTy(bt.Scalar), ""
	case ir.MatrixType:
		return vecOf(bt.Rows, bt.Scalar), ""
	case ir.StructType:
		if idx == nil {
			return bad("dynamic Access into struct %s", c.tyStr(b))
		}
		if int(*idx) >= len(bt.Members) {
			return bad("member index %d out of range of %s", *idx, c.tyStr(b))
		}
		return c.handleTy(bt.Members[*idx].Type), ""
	case ir.ValuePointerType:
		if bt.Size == nil {
			return bad("index into pointer-to-scalar %s", c.tyStr(b))
		}
		return valTy(ir.ValuePointerType{Size: nil, Scalar: bt.Scalar, Space: bt.Space}), ""
	case ir.PointerType:
		if !c.typeOK(bt.Base) {
			return noTy, ""
		}
		switch pt := c.m.Types[bt.Base].Inner.(type) {
		case ir.ArrayType:
			return valTy(ir.PointerType{Base: pt.Base, Space: bt.Space}), ""
		case ir.BindingArrayType:
			return valTy(ir.PointerType{Base: pt.Base, Space: bt.Space}), ""
		case ir.VectorType:
			return valTy(ir.ValuePointerType{Size: nil, Scalar: pt.Scalar, Space: bt.Space}), ""
		case ir.MatrixType:
			rows := pt.Rows
			return valTy(ir.ValuePointerType{Size: &rows, Scalar: pt.Scalar, Space: bt.Space}), ""
		case ir.StructType:
			if idx == nil {
				return bad("dynamic Access into pointer to struct %s", c.tyStr(b))
			}
			if int(*idx) >= len(pt.Members) {
				return bad("member index %d out of range of %s", *idx, c.tyStr(b))
			}
			return valTy(ir.PointerType{Base: pt.Members[*idx].Type, Space: bt.Space}), ""
		}
		return bad("index through %s", c.tyStr(b))
	}
	return bad("index into %s", c.tyStr(b))
}

func (t *typifier) binaryType(e ir.ExprBinary, i int) (ty, string) {
	c := t.c
	l := t.at(e.Left, i)
	switch e.Op {
	case ir.BinaryAdd, ir.BinarySubtract, ir.BinaryDivide, ir.BinaryModulo,
		ir.BinaryAnd, ir.BinaryExclusiveOr, ir.BinaryInclusiveOr,
		ir.BinaryShiftLeft, ir.BinaryShiftRight:
		return l, ""
	case ir.BinaryMultiply:
		r := t.at(e.Right, i)
		if !l.ok() || !r.ok() {
			return noTy, ""
		}
		lm, lIsM := l.inner.(ir.MatrixType)
		rm, rIsM := r.inner.(ir.MatrixType)
		_, lIsV := l.inner.(ir.VectorType)
		_, rIsV := r.inner.(ir.VectorType)
		_, lIsS := l.inner.(ir.ScalarType)
		_, rIsS := r.inner.(ir.ScalarType)
		switch {
		case lIsM && rIsM:
			return valTy(ir.MatrixType{Columns: rm.Columns, Rows: lm.Rows, Scalar: lm.Scalar}), ""
		case lIsM && rIsV:
			return vecOf(lm.Rows, lm.Scalar), ""
		case lIsV && rIsM:
			return vecOf(rm.Columns, rm.Scalar), ""
		case lIsS:
			return r, ""
		case rIsS:
			return l, ""
		case lIsV && rIsV:
			return l, ""
		}
		return noTy, fmt.Sprintf("Multiply of %s and %s", c.tyStr(l), c.tyStr(r))
	case ir.BinaryEqual, ir.BinaryNotEqual, ir.BinaryLess, ir.BinaryLessEqual,
		ir.BinaryGreater, ir.BinaryGreaterEqual, ir.BinaryLogicalAnd, ir.BinaryLogicalOr:
		if !l.ok() {
			return noTy, ""
		}
		switch lt := l.inner.(type) {
		case ir.ScalarType:
			return valTy(scBool), ""
		case ir.VectorType:
			return vecOf(lt.Size, scBool), ""
		}
		return noTy, fmt.Sprintf("comparison / logical operator on %s", c.tyStr(l))
	}
	return noTy, fmt.Sprintf("unknown binary operator %d", e.Op)
}

func (t *typifier) mathType(e ir.ExprMath, i int) (ty, string) {
	c := t.c
	a := t.at(e.Arg, i)
	if !a.ok() {
		return noTy, ""
	}
	bad := func(what string) (ty, string) {
		return noTy, fmt.Sprintf("%s of %s", what, c.tyStr(a))
	}
	switch e.Fun {
	case ir.MathAbs, ir.MathMin, ir.MathMax, ir.MathClamp, ir.MathSaturate,
		ir.MathCos, ir.MathCosh, ir.MathSin, ir.MathSinh, ir.MathTan, ir.MathTanh,
		ir.MathAcos, ir.MathAsin, ir.MathAtan, ir.MathAtan2, ir.MathAsinh, ir.MathAcosh, ir.MathAtanh,
		ir.MathRadians, ir.MathDegrees,
		ir.MathCeil, ir.MathFloor, ir.MathRound, ir.MathFract, ir.MathTrunc, ir.MathLdexp,
		ir.MathExp, ir.MathExp2, ir.MathLog, ir.MathLog2, ir.MathPow,
		ir.MathCross, ir.MathNormalize, ir.MathFaceForward, ir.MathReflect, ir.MathRefract,
		ir.MathSign, ir.MathFma, ir.MathMix, ir.MathStep, ir.MathSmoothStep, ir.MathSqrt, ir.MathInverseSqrt,
		ir.MathInverse, ir.MathQuantizeF16,
		ir.MathCountTrailingZeros, ir.MathCountLeadingZeros, ir.MathCountOneBits, ir.MathReverseBits,
		ir.MathExtractBits, ir.MathInsertBits, ir.MathFirstTrailingBit, ir.MathFirstLeadingBit:
		return a, ""

	case ir.MathModf, ir.MathFrexp:
		// Predeclared result struct {fract: T, whole: T} / {fract: T, exp: I}
		// where I is T with the scalar replaced by i32.
		var second ir.TypeInner
		secondName := "whole"
		switch at := a.inner.(type) {
		case ir.ScalarType:
			second = at
			if e.Fun == ir.MathFrexp {
				second = scI32
			}
		case ir.VectorType:
			second = at
			if e.Fun == ir.MathFrexp {
				second = ir.VectorType{Size: at.Size, Scalar: scI32}
			}
		default:
			return bad("modf/frexp")
		}
		if e.Fun == ir.MathFrexp {
			secondName = "exp"
		}
		for h := range c.m.Types {
			st, ok := c.m.Types[h].Inner.(ir.StructType)
			if !ok || len(st.Members) != 2 || st.Members[0].Name != "fract" || st.Members[1].Name != secondName {
				continue
			}
			m0, m1 := c.handleTy(st.Members[0].Type), c.handleTy(st.Members[1].Type)
			if m0.ok() && m1.ok() && c.eqInner(m0.inner, a.inner, 0) && c.eqInner(m1.inner, second, 0) {
				return c.handleTy(ir.TypeHandle(h)), ""
			}
		}
		return noTy, fmt.Sprintf("no predeclared modf/frexp result struct {fract, %s} for %s in the type arena", secondName, c.tyStr(a))

	case ir.MathDot:
		if v, ok := a.inner.(ir.VectorType); ok {
			return valTy(v.Scalar), ""
		}
		return bad("dot")
	case ir.MathDot4I8Packed:
		return valTy(scI32), ""
	case ir.MathDot4U8Packed:
		return valTy(scU32), ""

	case ir.MathOuter:
		if e.Arg1 == nil {
			return bad("outer without second argument")
		}
		b := t.at(*e.Arg1, i)
		if !b.ok() {
			return noTy, ""
		}
		av, ok1 := a.inner.(ir.VectorType)
		bv, ok2 := b.inner.(ir.VectorType)
		if !ok1 || !ok2 {
			return bad("outer")
		}
		return valTy(ir.MatrixType{Columns: av.Size, Rows: bv.Size, Scalar: av.Scalar}), ""

	case ir.MathDistance, ir.MathLength:
		switch at := a.inner.(type) {
		case ir.ScalarType:
			return valTy(at), ""
		case ir.VectorType:
			return valTy(at.Scalar), ""
		}
		return bad("length/distance")

	case ir.MathTranspose:
		if mt, ok := a.inner.(ir.MatrixType); ok {
			return valTy(ir.MatrixType{Columns: mt.Rows, Rows: mt.Columns, Scalar: mt.Scalar}), ""
		}
		return bad("transpose")
	case ir.MathDeterminant:
		if mt, ok := a.inner.(ir.MatrixType); ok {
			return valTy(mt.Scalar), ""
		}
		return bad("determinant")

	case ir.MathPack4x8snorm, ir.MathPack4x8unorm, ir.MathPack2x16snorm, ir.MathPack2x16unorm, ir.MathPack2x16float,
		ir.MathPack4xI8, ir.MathPack4xU8, ir.MathPack4xI8Clamp, ir.MathPack4xU8Clamp:
		return valTy(scU32), ""
	case ir.MathUnpack4x8snorm, ir.MathUnpack4x8unorm:
		return vecOf(ir.Vec4, scF32), ""
	case ir.MathUnpack2x16snorm, ir.MathUnpack2x16unorm, ir.MathUnpack2x16float:
		return vecOf(ir.Vec2, scF32), ""
	case ir.MathUnpack4xI8:
		return vecOf(ir.Vec4, scI32), ""
	case ir.MathUnpack4xU8:
		return vecOf(ir.Vec4, scU32), ""
	}
	return noTy, fmt.Sprintf("unknown math function %d", e.Fun)
}
