package irstrict

import (
	"fmt"

	"github.com/gogpu/naga/ir"
)

// ---------------------------------------------------------------- types: R1 R2 R3 R4 R17

func (c *checker) checkTypes() {
	m := c.m
	c.tinfo = make([]typeInfo, len(m.Types))
	seen := map[string]int{}
	hostShared := c.hostSharedTypes()
	for h := range m.Types {
		where := fmt.Sprintf("type %d", h)
		if n := m.Types[h].Name; n != "" {
			where += " (" + n + ")"
		}
		in := m.Types[h].Inner
		if in == nil {
			c.add("R1", where, "nil TypeInner")
			c.tinfo[h] = typeInfo{align: 1}
			continue
		}
		// R1 / R2: referenced type handles in range and earlier.
		ref := func(what string, b ir.TypeHandle) {
			c.tick("R1")
			if !c.typeOK(b) {
				c.add("R1", where, "%s type handle %d out of range (%d types)", what, b, len(m.Types))
				return
			}
			c.tick("R2")
			if int(b) >= h {
				c.add("R2", where, "%s refers to type %d which is not earlier in the arena", what, b)
			}
		}
		// R3: no abstract scalar kinds.
		abs := func(what string, s ir.ScalarType) {
			c.tick("R3")
			if isAbstractKind(s.Kind) {
				c.add("R3", where, "%s has abstract scalar kind %s", what, scalarStr(s))
			}
		}
		switch x := in.(type) {
		case ir.ScalarType:
			abs("scalar", x)
		case ir.VectorType:
			abs("vector", x.Scalar)
		case ir.MatrixType:
			abs("matrix", x.Scalar)
		case ir.AtomicType:
			abs("atomic", x.Scalar)
		case ir.ValuePointerType:
			abs("value pointer", x.Scalar)
		case ir.ImageType:
			if x.Class == ir.ImageClassSampled {
				abs("image sampled kind", ir.ScalarType{Kind: x.SampledKind, Width: 4})
			}
		case ir.PointerType:
			ref("pointer base", x.Base)
		case ir.ArrayType:
			ref("array base", x.Base)
		case ir.BindingArrayType:
			ref("binding array base", x.Base)
		case ir.StructType:
			for i, mem := range x.Members {
				ref(fmt.Sprintf("member %d (%s)", i, mem.Name), mem.Type)
			}
		}
		c.tinfo[h] = c.computeTypeInfo(h)

		// R4: anonymous non-struct types are structurally unique.
		if _, isStruct := in.(ir.StructType); !isStruct && m.Types[h].Name == "" {
			c.tick("R4")
			key := innerKey(in)
			if prev, dup := seen[key]; dup {
				c.add("R4", where, "anonymous type %s duplicates type %d", c.innerStr(in, 0), prev)
			} else {
				seen[key] = h
			}
		}

		// R17: layout.
		if c.tinfo[h].valid {
			c.checkLayout(h, where, hostShared[h])
		}
	}

	st := m.SpecialTypes
	for _, p := range []struct {
		n string
		h *ir.TypeHandle
	}{{"ExternalTextureParams", st.ExternalTextureParams}, {"ExternalTextureTransferFunction", st.ExternalTextureTransferFunction}, {"RayIntersection", st.RayIntersection}} {
		if p.h != nil {
			c.tick("R1")
			if !c.typeOK(*p.h) {
				c.add("R1", "special type "+p.n, "type handle %d out of range", *p.h)
			}
		}
	}
}

// innerKey is an exact structural key (handles compared by value).
func innerKey(in ir.TypeInner) string {
	switch x := in.(type) {
	case ir.ArrayType:
		if x.Size.Constant != nil {
			return fmt.Sprintf("array|%d|%d|%d", x.Base, *x.Size.Constant, x.Stride)
		}
		return fmt.Sprintf("array|%d|dyn|%d", x.Base, x.Stride)
	case ir.BindingArrayType:
		if x.Size != nil {
			return fmt.Sprintf("barray|%d|%d", x.Base, *x.Size)
		}
		return fmt.Sprintf("barray|%d|dyn", x.Base)
	case ir.ValuePointerType:
		if x.Size != nil {
			return fmt.Sprintf("vptr|%d|%v|%d", *x.Size, x.Scalar, x.Space)
		}
		return fmt.Sprintf("vptr|-|%v|%d", x.Scalar, x.Space)
	}
	return fmt.Sprintf("%T|%+v", in, in)
}

// hostSharedTypes marks every type reachable from the type of a uniform /
// storage / push-constant global: only for those does upstream enforce member
// and span alignment (its own predeclared RayIntersection struct has a
// vec2<f32> at offset 28).
func (c *checker) hostSharedTypes() []bool {
	m := c.m
	out := make([]bool, len(m.Types))
	var mark func(h ir.TypeHandle, depth int)
	mark = func(h ir.TypeHandle, depth int) {
		if !c.typeOK(h) || out[h] || depth > 64 {
			return
		}
		out[h] = true
		switch x := m.Types[h].Inner.(type) {
		case ir.ArrayType:
			mark(x.Base, depth+1)
		case ir.BindingArrayType:
			mark(x.Base, depth+1)
		case ir.StructType:
			for _, mem := range x.Members {
				mark(mem.Type, depth+1)
			}
		}
	}
	for i := range m.GlobalVariables {
		switch m.GlobalVariables[i].Space {
		case ir.SpaceUniform, ir.SpaceStorage, ir.SpacePushConstant, ir.SpaceImmediate:
			mark(m.GlobalVariables[i].Type, 0)
		}
	}
	return out
}

// checkLayout is rule R17 for one struct / array type. Overlap, bounds and the
// array stride are checked for every type; member-offset and span alignment
// only for host-shared types.
func (c *checker) checkLayout(h int, where string, hostShared bool) {
	switch x := c.m.Types[h].Inner.(type) {
	case ir.ArrayType:
		b := c.tinfo[x.Base]
		if b.flags&tfSized == 0 {
			return
		}
		c.tick("R17")
		want := roundUp(b.align, b.size)
		if x.Stride != want {
			c.add("R17", where, "array stride %d != roundUp(align %d, size %d) = %d of element %s",
				x.Stride, b.align, b.size, want, c.handleStr(x.Base, 0))
		}
	case ir.StructType:
		ti := c.tinfo[h]
		var end uint32
		for i, mem := range x.Members {
			b := c.tinfo[mem.Type]
			c.tick("R17")
			if mem.Offset < end {
				c.add("R17", where, "member %d (%s) offset %d overlaps or precedes the end %d of the previous member", i, mem.Name, mem.Offset, end)
			}
			if hostShared && b.align > 1 && mem.Offset%b.align != 0 {
				c.add("R17", where, "member %d (%s) offset %d is not a multiple of its alignment %d (%s)", i, mem.Name, mem.Offset, b.align, c.handleStr(mem.Type, 0))
			}
			if b.flags&tfSized == 0 && i != len(x.Members)-1 {
				c.add("R17", where, "member %d (%s) is unsized but not the last member", i, mem.Name)
			}
			end = mem.Offset + b.size
			if end > x.Span {
				c.add("R17", where, "member %d (%s) ends at %d beyond the struct span %d", i, mem.Name, end, x.Span)
			}
		}
		c.tick("R17")
		if hostShared && ti.align > 1 && x.Span%ti.align != 0 {
			c.add("R17", where, "struct span %d is not a multiple of the struct alignment %d", x.Span, ti.align)
		}
	}
}

// ---------------------------------------------------------------- constants, overrides, global expressions

func (c *checker) checkConstantsAndGlobalExprs() {
	m := c.m
	ng := len(m.GlobalExpressions)

	// Global expression arena: R1 R2 R3 R15 and typing.
	for i := range m.GlobalExpressions {
		where := fmt.Sprintf("global expr %d", i)
		c.checkExprHandles(where, i, m.GlobalExpressions, nil, true)
	}
	tf := c.newTypifier(m.GlobalExpressions, nil)
	tf.run()
	c.gexpr = tf.types
	for i := range m.GlobalExpressions {
		if !tf.types[i].ok() && tf.why[i] != "" {
			c.add("R5", fmt.Sprintf("global expr %d", i), "untypable %s: %s", kindName(m.GlobalExpressions[i].Kind), tf.why[i])
		}
	}

	for i := range m.Constants {
		k := &m.Constants[i]
		where := fmt.Sprintf("const %d (%s)", i, k.Name)
		c.tick("R1")
		if !c.typeOK(k.Type) {
			c.add("R1", where, "type handle %d out of range", k.Type)
		}
		if ng > 0 {
			c.tick("R1")
			if int(k.Init) >= ng {
				c.add("R1", where, "init global expression %d out of range (%d global expressions)", k.Init, ng)
			} else if c.typeOK(k.Type) && c.gexpr[k.Init].ok() {
				c.tick("R5")
				c.rep.TypesCompared["const-init"]++
				if !c.eqTy(c.gexpr[k.Init], c.handleTy(k.Type)) {
					c.add("R5", where, "constant type %s != type of its init global expression %d: %s",
						c.tyStr(c.handleTy(k.Type)), k.Init, c.tyStr(c.gexpr[k.Init]))
				}
			}
		}
		switch v := k.Value.(type) {
		case ir.ScalarValue:
			c.tick("R3")
			if isAbstractKind(v.Kind) {
				c.add("R3", where, "constant value has abstract scalar kind %d", v.Kind)
			}
		case ir.CompositeValue:
			for j, comp := range v.Components {
				c.tick("R1")
				if int(comp) >= len(m.Constants) {
					c.add("R1", where, "component %d constant handle %d out of range", j, comp)
				}
			}
		}
	}

	for i := range m.Overrides {
		o := &m.Overrides[i]
		where := fmt.Sprintf("override %d (%s)", i, o.Name)
		c.tick("R1")
		if !c.typeOK(o.Ty) {
			c.add("R1", where, "type handle %d out of range", o.Ty)
		}
		if o.Init != nil {
			c.tick("R1")
			if int(*o.Init) >= ng {
				c.add("R1", where, "init global expression %d out of range", *o.Init)
			}
		}
	}
}

// ---------------------------------------------------------------- globals: R1 R16

func isResourceSpace(s ir.AddressSpace) bool {
	return s == ir.SpaceStorage || s == ir.SpaceUniform || s == ir.SpaceHandle
}

func (c *checker) checkGlobals() {
	m := c.m
	for i := range m.GlobalVariables {
		g := &m.GlobalVariables[i]
		where := fmt.Sprintf("global %d (%s)", i, g.Name)
		c.tick("R1")
		if !c.typeOK(g.Type) {
			c.add("R1", where, "type handle %d out of range", g.Type)
			continue
		}
		if g.Init != nil {
			c.tick("R1")
			if int(*g.Init) >= len(m.Constants) {
				c.add("R1", where, "init constant handle %d out of range", *g.Init)
			}
		}
		if g.InitExpr != nil {
			c.tick("R1")
			if int(*g.InitExpr) >= len(m.GlobalExpressions) {
				c.add("R1", where, "init global expression %d out of range", *g.InitExpr)
			}
		}

		// R16
		c.tick("R16")
		ti := c.tinfo[g.Type]
		if !ti.valid {
			continue // the type itself is already reported
		}
		need := func(flags uint, what string) {
			if ti.flags&flags != flags {
				c.add("R16", where, "type %s is not allowed in address space %s: %s", c.handleStr(g.Type, 0), spaceStr(g.Space), what)
			}
		}
		switch g.Space {
		case ir.SpaceFunction:
			c.add("R16", where, "global variable in the function address space")
		case ir.SpaceStorage:
			need(tfData|tfHostShareable, "must be host-shareable data")
		case ir.SpaceUniform:
			need(tfData|tfCopy|tfSized|tfHostShareable, "must be sized, copyable, host-shareable data")
		case ir.SpaceHandle:
			in := m.Types[g.Type].Inner
			if ba, ok := in.(ir.BindingArrayType); ok && c.typeOK(ba.Base) {
				in = m.Types[ba.Base].Inner
			}
			switch in.(type) {
			case ir.ImageType, ir.SamplerType, ir.AccelerationStructureType:
			default:
				c.add("R16", where, "handle address space requires an image, sampler, acceleration structure or a binding array of those, got %s", c.handleStr(g.Type, 0))
			}
		case ir.SpacePrivate:
			need(tfConstructible, "must be constructible")
		case ir.SpaceWorkGroup:
			need(tfData|tfSized, "must be sized data")
		case ir.SpacePushConstant, ir.SpaceImmediate:
			need(tfData|tfCopy|tfSized|tfHostShareable, "must be sized, copyable, host-shareable data")
		}
		if isResourceSpace(g.Space) != (g.Binding != nil) {
			if g.Binding == nil {
				c.add("R16", where, "resource variable in space %s has no @group/@binding", spaceStr(g.Space))
			} else {
				c.add("R16", where, "non-resource variable in space %s has a resource binding", spaceStr(g.Space))
			}
		}
		if g.Init != nil || g.InitExpr != nil {
			if g.Space != ir.SpacePrivate {
				c.add("R16", where, "initializer not allowed in address space %s", spaceStr(g.Space))
			}
			if g.InitExpr != nil && int(*g.InitExpr) < len(c.gexpr) && c.gexpr[*g.InitExpr].ok() {
				c.tick("R16")
				if !c.eqTy(c.gexpr[*g.InitExpr], c.handleTy(g.Type)) {
					c.add("R16", where, "initializer type %s != variable type %s", c.tyStr(c.gexpr[*g.InitExpr]), c.tyStr(c.handleTy(g.Type)))
				}
			}
		}
	}
}
