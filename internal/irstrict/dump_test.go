package irstrict

import (
	"os"
	"path/filepath"
	"strings"
	"testing"

	"github.com/gogpu/naga/ir"
)

func TestDumpStableAcrossLowerings(t *testing.T) {
	a, b := baseModule(t), baseModule(t)
	if Dump(a, false) != Dump(b, false) {
		t.Fatal("Dump differs between two lowerings of the same source")
	}
	if Dump(a, true) != Dump(b, true) {
		t.Fatal("normalised Dump differs between two lowerings of the same source")
	}
	if Hash(a) != Hash(b) {
		t.Fatal("Hash differs between two lowerings of the same source")
	}
	d := Dump(a, false)
	for _, want := range []string{"ir.Module{", "GlobalExpressions:", "NamedExpressions:map{", `Name:"helper"`, "(ir.LiteralF32)", "(ir.StmtIf)", "TypeUseOrder:"} {
		if !strings.Contains(d, want) {
			t.Errorf("dump lacks %q", want)
		}
	}
	if strings.Contains(Dump(a, true), `Name:"helper"`) {
		t.Error("normalised dump still contains a name")
	}
	// whole corpus: two lowerings agree
	files := corpusFiles(t)
	for i, f := range files {
		if i%6 != 0 {
			continue
		}
		src, err := os.ReadFile(f)
		if err != nil {
			t.Fatal(err)
		}
		m1, m2 := lowerSrc(t, string(src)), lowerSrc(t, string(src))
		if Hash(m1) != Hash(m2) {
			t.Errorf("%s: Hash differs between two lowerings", filepath.Base(f))
		}
	}
}

func TestDumpSensitivity(t *testing.T) {
	ref := baseModule(t)
	refPlain, refNorm := Dump(ref, false), Dump(ref, true)

	type tc struct {
		name       string
		mut        func(m *ir.Module)
		normEqual  bool // normalised dump must stay equal to the reference
		plainEqual bool
	}
	cases := []tc{
		{"mutate a literal", func(m *ir.Module) {
			fn := findFn(t, m, "helper")
			i := firstExpr(fn, func(k ir.ExpressionKind) bool {
				l, ok := k.(ir.Literal)
				if !ok {
					return false
				}
				_, isF := l.Value.(ir.LiteralF32)
				return isF
			})
			fn.Expressions[i].Kind = ir.Literal{Value: ir.LiteralF32(1.0000001)}
		}, false, false},
		{"literal kind only (same number)", func(m *ir.Module) {
			fn := findFn(t, m, "cs")
			i := firstExpr(fn, func(k ir.ExpressionKind) bool {
				l, ok := k.(ir.Literal)
				if !ok {
					return false
				}
				_, isU := l.Value.(ir.LiteralU32)
				return isU
			})
			v := fn.Expressions[i].Kind.(ir.Literal).Value.(ir.LiteralU32)
			fn.Expressions[i].Kind = ir.Literal{Value: ir.LiteralI32(v)}
		}, false, false},
		{"function name", func(m *ir.Module) { findFn(t, m, "helper").Name = "helper2" }, true, false},
		{"struct member name", func(m *ir.Module) {
			for i := range m.Types {
				if st, ok := m.Types[i].Inner.(ir.StructType); ok {
					mem := append([]ir.StructMember{}, st.Members...)
					mem[0].Name += "_x"
					st.Members = mem
					m.Types[i].Inner = st
					return
				}
			}
		}, true, false},
		{"nested statement in an If arm", func(m *ir.Module) {
			fn := findFn(t, m, "helper")
			b, i := firstStmt(&fn.Body, func(k ir.StatementKind) bool { _, ok := k.(ir.StmtIf); return ok })
			s := (*b)[i].Kind.(ir.StmtIf)
			s.Accept = append(append(ir.Block{}, s.Accept...), ir.Statement{Kind: ir.StmtKill{}})
			(*b)[i].Kind = s
		}, false, false},
		{"nested statement operand in a switch case", func(m *ir.Module) {
			fn := findFn(t, m, "cs")
			b, i := firstStmt(&fn.Body, func(k ir.StatementKind) bool { _, ok := k.(ir.StmtSwitch); return ok })
			s := (*b)[i].Kind.(ir.StmtSwitch)
			cs := append([]ir.SwitchCase{}, s.Cases...)
			cs[0].FallThrough = !cs[0].FallThrough
			s.Cases = cs
			(*b)[i].Kind = s
		}, false, false},
		{"map entry value (a name)", func(m *ir.Module) {
			fn := findFn(t, m, "cs")
			for k := range fn.NamedExpressions {
				fn.NamedExpressions[k] += "_renamed"
				return
			}
			t.Fatal("no named expressions")
		}, true, false},
		{"map entry added", func(m *ir.Module) {
			fn := findFn(t, m, "cs")
			for h := ir.ExpressionHandle(0); ; h++ {
				if _, has := fn.NamedExpressions[h]; !has {
					fn.NamedExpressions[h] = "extra"
					return
				}
			}
		}, false, false},
		{"pointer field set", func(m *ir.Module) {
			for i := range m.GlobalVariables {
				if m.GlobalVariables[i].Binding != nil {
					b := *m.GlobalVariables[i].Binding
					b.Binding += 10
					m.GlobalVariables[i].Binding = &b
					return
				}
			}
		}, false, false},
		{"pointer field cleared", func(m *ir.Module) { m.EntryPoints[0].Function.Arguments[0].Binding = nil }, false, false},
		{"entry point stage", func(m *ir.Module) { m.EntryPoints[0].Stage = ir.StageTask }, false, false},
		{"expression type entry", func(m *ir.Module) {
			fn := findFn(t, m, "helper")
			fn.ExpressionTypes[0] = ir.TypeResolution{Value: ir.ScalarType{Kind: ir.ScalarUint, Width: 4}}
		}, false, false},
		{"nil slice vs empty slice", func(m *ir.Module) {
			if len(m.Overrides) != 0 {
				t.Fatal("base module has overrides")
			}
			if m.Overrides == nil {
				m.Overrides = []ir.Override{}
			} else {
				m.Overrides = nil
			}
		}, true, true},
	}
	for _, c := range cases {
		m := baseModule(t)
		c.mut(m)
		plain, norm := Dump(m, false), Dump(m, true)
		if (plain == refPlain) != c.plainEqual {
			t.Errorf("%s: plain dump equal=%v, want %v", c.name, plain == refPlain, c.plainEqual)
		}
		if (norm == refNorm) != c.normEqual {
			t.Errorf("%s: normalised dump equal=%v, want %v", c.name, norm == refNorm, c.normEqual)
		}
		if (Hash(m) == Hash(ref)) != c.plainEqual {
			t.Errorf("%s: hash equality mismatch", c.name)
		}
	}

	// nil map == empty map
	m1, m2 := baseModule(t), baseModule(t)
	m1.Functions[0].NamedExpressions = nil
	m2.Functions[0].NamedExpressions = map[ir.ExpressionHandle]string{}
	if Dump(m1, false) != Dump(m2, false) {
		t.Error("nil map and empty map dump differently")
	}
}

func TestDumpMapOrderAndFloats(t *testing.T) {
	m := &ir.Module{Functions: []ir.Function{{
		NamedExpressions: map[ir.ExpressionHandle]string{10: "j", 2: "b", 33: "z", 1: "a"},
		Expressions: []ir.Expression{
			{Kind: ir.Literal{Value: ir.LiteralF32(0)}},
			{Kind: ir.Literal{Value: ir.LiteralF64(1.5)}},
		},
	}}}
	d := Dump(m, false)
	if !strings.Contains(d, `map{1:"a",2:"b",10:"j",33:"z"}`) {
		t.Errorf("map not in numeric key order: %s", d)
	}
	for i := 0; i < 20; i++ {
		if Dump(m, false) != d {
			t.Fatal("dump not deterministic")
		}
	}
	// +0 and -0 are different literals
	m2 := &ir.Module{Functions: []ir.Function{{Expressions: []ir.Expression{{Kind: ir.Literal{Value: ir.LiteralF32(0)}}}}}}
	m3 := &ir.Module{Functions: []ir.Function{{Expressions: []ir.Expression{{Kind: ir.Literal{Value: ir.LiteralF32(float32(negZero()))}}}}}}
	if Dump(m2, false) == Dump(m3, false) {
		t.Error("+0 and -0 dump identically")
	}
	if Dump(nil, false) != "nil" {
		t.Error("nil module")
	}
}

func negZero() float64 {
	z := 0.0
	return -z
}
