package irstrict

import (
	"fmt"
	"strings"

	"github.com/gogpu/naga/ir"
)

// kindName returns the short name of an expression / statement kind
// ("Binary", "Load", "Literal", "Store", ...).
func kindName(k any) string {
	if k == nil {
		return "nil"
	}
	s := fmt.Sprintf("%T", k)
	s = strings.TrimPrefix(s, "ir.")
	s = strings.TrimPrefix(s, "Expr")
	s = strings.TrimPrefix(s, "Stmt")
	return s
}

func optH(p *ir.ExpressionHandle, out []ir.ExpressionHandle) []ir.ExpressionHandle {
	if p != nil {
		out = append(out, *p)
	}
	return out
}

// operands lists every expression handle an expression refers to.
func operands(k ir.ExpressionKind) []ir.ExpressionHandle {
	var o []ir.ExpressionHandle
	switch e := k.(type) {
	case ir.ExprCompose:
		o = append(o, e.Components...)
	case ir.ExprAccess:
		o = append(o, e.Base, e.Index)
	case ir.ExprAccessIndex:
		o = append(o, e.Base)
	case ir.ExprSplat:
		o = append(o, e.Value)
	case ir.ExprSwizzle:
		o = append(o, e.Vector)
	case ir.ExprLoad:
		o = append(o, e.Pointer)
	case ir.ExprAlias:
		o = append(o, e.Source)
	case ir.ExprPhi:
		for _, in := range e.Incoming {
			o = append(o, in.Value)
		}
	case ir.ExprImageSample:
		o = append(o, e.Image, e.Sampler, e.Coordinate)
		o = optH(e.ArrayIndex, o)
		o = optH(e.Offset, o)
		switch l := e.Level.(type) {
		case ir.SampleLevelExact:
			o = append(o, l.Level)
		case ir.SampleLevelBias:
			o = append(o, l.Bias)
		case ir.SampleLevelGradient:
			o = append(o, l.X, l.Y)
		}
		o = optH(e.DepthRef, o)
	case ir.ExprImageLoad:
		o = append(o, e.Image, e.Coordinate)
		o = optH(e.ArrayIndex, o)
		o = optH(e.Sample, o)
		o = optH(e.Level, o)
	case ir.ExprImageQuery:
		o = append(o, e.Image)
		if q, ok := e.Query.(ir.ImageQuerySize); ok {
			o = optH(q.Level, o)
		}
	case ir.ExprUnary:
		o = append(o, e.Expr)
	case ir.ExprBinary:
		o = append(o, e.Left, e.Right)
	case ir.ExprSelect:
		o = append(o, e.Condition, e.Accept, e.Reject)
	case ir.ExprDerivative:
		o = append(o, e.Expr)
	case ir.ExprRelational:
		o = append(o, e.Argument)
	case ir.ExprMath:
		o = append(o, e.Arg)
		o = optH(e.Arg1, o)
		o = optH(e.Arg2, o)
		o = optH(e.Arg3, o)
	case ir.ExprAs:
		o = append(o, e.Expr)
	case ir.ExprArrayLength:
		o = append(o, e.Array)
	case ir.ExprRayQueryGetIntersection:
		o = append(o, e.Query)
	}
	return o
}

// isPreEmit mirrors upstream Expression::needs_pre_emit.
func isPreEmit(k ir.ExpressionKind) bool {
	switch k.(type) {
	case ir.Literal, ir.ExprConstant, ir.ExprOverride, ir.ExprZeroValue,
		ir.ExprFunctionArgument, ir.ExprGlobalVariable, ir.ExprLocalVariable:
		return true
	}
	return false
}

// isResult: expressions that are bound by a statement rather than emitted.
func isResult(k ir.ExpressionKind) bool {
	switch k.(type) {
	case ir.ExprCallResult, ir.ExprAtomicResult, ir.ExprWorkGroupUniformLoadResult,
		ir.ExprRayQueryProceedResult, ir.ExprSubgroupBallotResult, ir.ExprSubgroupOperationResult:
		return true
	}
	return false
}

func isDxilOnly(k ir.ExpressionKind) bool {
	switch k.(type) {
	case ir.ExprAlias, ir.ExprPhi:
		return true
	}
	return false
}

// stmtRefs lists the expressions a statement reads (uses) and the result
// expressions it binds. Nested blocks are not visited.
func stmtRefs(k ir.StatementKind) (uses, results []ir.ExpressionHandle) {
	switch s := k.(type) {
	case ir.StmtIf:
		uses = append(uses, s.Condition)
	case ir.StmtSwitch:
		uses = append(uses, s.Selector)
	case ir.StmtLoop:
		// BreakIf is handled by the walkers (it is evaluated in the scope of
		// the continuing block).
	case ir.StmtReturn:
		uses = optH(s.Value, uses)
	case ir.StmtStore:
		uses = append(uses, s.Pointer, s.Value)
	case ir.StmtImageStore:
		uses = append(uses, s.Image, s.Coordinate)
		uses = optH(s.ArrayIndex, uses)
		uses = append(uses, s.Value)
	case ir.StmtAtomic:
		uses = append(uses, s.Pointer)
		if _, isLoad := s.Fun.(ir.AtomicLoad); !isLoad {
			uses = append(uses, s.Value)
		}
		if x, ok := s.Fun.(ir.AtomicExchange); ok {
			uses = optH(x.Compare, uses)
		}
		results = optH(s.Result, results)
	case ir.StmtImageAtomic:
		uses = append(uses, s.Image, s.Coordinate)
		uses = optH(s.ArrayIndex, uses)
		uses = append(uses, s.Value)
		if x, ok := s.Fun.(ir.AtomicExchange); ok {
			uses = optH(x.Compare, uses)
		}
	case ir.StmtWorkGroupUniformLoad:
		uses = append(uses, s.Pointer)
		results = append(results, s.Result)
	case ir.StmtCall:
		uses = append(uses, s.Arguments...)
		results = optH(s.Result, results)
	case ir.StmtRayQuery:
		uses = append(uses, s.Query)
		switch f := s.Fun.(type) {
		case ir.RayQueryInitialize:
			uses = append(uses, f.AccelerationStructure, f.Descriptor)
		case ir.RayQueryProceed:
			results = append(results, f.Result)
		case ir.RayQueryGenerateIntersection:
			uses = append(uses, f.HitT)
		}
	case ir.StmtSubgroupBallot:
		uses = optH(s.Predicate, uses)
		results = append(results, s.Result)
	case ir.StmtSubgroupCollectiveOperation:
		uses = append(uses, s.Argument)
		results = append(results, s.Result)
	case ir.StmtSubgroupGather:
		uses = append(uses, s.Argument)
		switch g := s.Mode.(type) {
		case ir.GatherBroadcast:
			uses = append(uses, g.Index)
		case ir.GatherShuffle:
			uses = append(uses, g.Index)
		case ir.GatherShuffleDown:
			uses = append(uses, g.Delta)
		case ir.GatherShuffleUp:
			uses = append(uses, g.Delta)
		case ir.GatherShuffleXor:
			uses = append(uses, g.Mask)
		case ir.GatherQuadBroadcast:
			uses = append(uses, g.Index)
		}
		results = append(results, s.Result)
	}
	return uses, results
}

// subBlocks returns the nested blocks of a statement.
func subBlocks(k ir.StatementKind) []ir.Block {
	switch s := k.(type) {
	case ir.StmtBlock:
		return []ir.Block{s.Block}
	case ir.StmtIf:
		return []ir.Block{s.Accept, s.Reject}
	case ir.StmtLoop:
		return []ir.Block{s.Body, s.Continuing}
	case ir.StmtSwitch:
		bs := make([]ir.Block, len(s.Cases))
		for i := range s.Cases {
			bs[i] = s.Cases[i].Body
		}
		return bs
	}
	return nil
}

// forEachStmt visits every statement of a block tree in textual order.
func forEachStmt(b ir.Block, f func(ir.StatementKind)) {
	for i := range b {
		k := b[i].Kind
		f(k)
		for _, sb := range subBlocks(k) {
			forEachStmt(sb, f)
		}
	}
}
