package irstrict

import (
	"fmt"
	"sort"

	"github.com/gogpu/naga/ir"
)

// fnUsage is what a function statically uses (for rule R14).
type fnUsage struct {
	globals map[ir.GlobalVariableHandle]bool // referenced by a used GlobalVariable expression
	callees map[ir.FunctionHandle]bool
}

func (c *checker) checkFunctions() {
	c.fnUse = make([]fnUsage, len(c.m.Functions))
	for i := range c.m.Functions {
		fn := &c.m.Functions[i]
		where := "fn " + fn.Name
		if fn.Name == "" {
			where = fmt.Sprintf("fn #%d", i)
		}
		c.fnUse[i] = c.checkFunction(where, fn, i)
	}
}

// checkExprHandles applies R1 / R2 / R3 / R15 to expression i of an arena.
// fn is nil for the global-expression arena.
func (c *checker) checkExprHandles(where string, i int, exprs []ir.Expression, fn *ir.Function, global bool) {
	m := c.m
	k := exprs[i].Kind
	if k == nil {
		c.add("R1", where, "nil expression kind")
		return
	}
	c.tick("R15")
	if isDxilOnly(k) && !c.relaxed() {
		c.add("R15", where, "DXIL-only expression kind %s in a module that has not been through mem2reg", kindName(k))
	}
	typeRef := func(what string, h ir.TypeHandle) {
		c.tick("R1")
		if !c.typeOK(h) {
			c.add("R1", where, "%s: type handle %d out of range (%d types)", what, h, len(m.Types))
		}
	}
	switch e := k.(type) {
	case ir.Literal:
		c.tick("R3")
		switch e.Value.(type) {
		case ir.LiteralAbstractInt, ir.LiteralAbstractFloat:
			c.add("R3", where, "abstract literal %T(%v)", e.Value, e.Value)
		case nil:
			c.add("R1", where, "literal without value")
		}
	case ir.ExprConstant:
		c.tick("R1")
		if int(e.Constant) >= len(m.Constants) {
			c.add("R1", where, "constant handle %d out of range (%d constants)", e.Constant, len(m.Constants))
		} else if global {
			c.tick("R2")
			if init := m.Constants[e.Constant].Init; int(init) >= i {
				c.add("R2", where, "refers to constant %d whose init global expression %d is not earlier", e.Constant, init)
			}
		}
	case ir.ExprOverride:
		c.tick("R1")
		if int(e.Override) >= len(m.Overrides) {
			c.add("R1", where, "override handle %d out of range (%d overrides)", e.Override, len(m.Overrides))
		}
	case ir.ExprZeroValue:
		typeRef("ZeroValue", e.Type)
	case ir.ExprCompose:
		typeRef("Compose", e.Type)
	case ir.ExprAtomicResult:
		typeRef("AtomicResult", e.Ty)
	case ir.ExprSubgroupOperationResult:
		typeRef("SubgroupOperationResult", e.Type)
	case ir.ExprFunctionArgument:
		c.tick("R1")
		if fn == nil || int(e.Index) >= len(fn.Arguments) {
			c.add("R1", where, "argument index %d out of range", e.Index)
		}
	case ir.ExprLocalVariable:
		c.tick("R1")
		if fn == nil || int(e.Variable) >= len(fn.LocalVars) {
			c.add("R1", where, "local variable index %d out of range", e.Variable)
		}
	case ir.ExprGlobalVariable:
		c.tick("R1")
		if int(e.Variable) >= len(m.GlobalVariables) {
			c.add("R1", where, "global variable handle %d out of range (%d globals)", e.Variable, len(m.GlobalVariables))
		}
	case ir.ExprCallResult:
		c.tick("R1")
		if int(e.Function) >= len(m.Functions) {
			c.add("R1", where, "function handle %d out of range (%d functions)", e.Function, len(m.Functions))
		}
	}
	for _, o := range operands(k) {
		c.tick("R1")
		if int(o) >= len(exprs) {
			c.add("R1", where, "%s operand expression %d out of range (%d expressions)", kindName(k), o, len(exprs))
			continue
		}
		if c.relaxed() && !global {
			// sroa / mem2reg rewrite expressions in place and append their
			// operands at the end of the arena: handle order is not an
			// invariant after those passes (acyclicity is, see checkAcyclic).
			continue
		}
		c.tick("R2")
		if int(o) >= i {
			c.add("R2", where, "%s operand expression %d is not an earlier handle", kindName(k), o)
		}
	}
}

func (c *checker) checkFunction(where string, fn *ir.Function, self int) fnUsage {
	use := fnUsage{globals: map[ir.GlobalVariableHandle]bool{}, callees: map[ir.FunctionHandle]bool{}}
	n := len(fn.Expressions)

	for i, a := range fn.Arguments {
		c.tick("R1")
		if !c.typeOK(a.Type) {
			c.add("R1", where, "argument %d (%s) type handle %d out of range", i, a.Name, a.Type)
		}
	}
	if fn.Result != nil {
		c.tick("R1")
		if !c.typeOK(fn.Result.Type) {
			c.add("R1", where, "result type handle %d out of range", fn.Result.Type)
		}
	}
	for i, lv := range fn.LocalVars {
		c.tick("R1")
		if !c.typeOK(lv.Type) {
			c.add("R1", where, "local %d (%s) type handle %d out of range", i, lv.Name, lv.Type)
		}
		if lv.Init != nil {
			c.tick("R1")
			if int(*lv.Init) >= n {
				c.add("R1", where, "local %d (%s) init expression %d out of range", i, lv.Name, *lv.Init)
			}
		}
	}
	for h := range fn.NamedExpressions {
		c.tick("R1")
		if int(h) >= n {
			c.add("R1", where, "named expression handle %d out of range", h)
		}
	}
	for i := range fn.Expressions {
		c.checkExprHandles(fmt.Sprintf("%s expr %d", where, i), i, fn.Expressions, fn, false)
	}

	if c.relaxed() {
		c.checkAcyclic(where, fn)
	}

	// R5: independent typifier vs recorded ExpressionTypes.
	tf := c.newTypifier(fn.Expressions, fn)
	tf.run()
	c.tick("R5")
	if len(fn.ExpressionTypes) != n {
		c.add("R5", where, "len(ExpressionTypes)=%d != len(Expressions)=%d", len(fn.ExpressionTypes), n)
	}
	for i := 0; i < n; i++ {
		kn := kindName(fn.Expressions[i].Kind)
		ew := fmt.Sprintf("%s expr %d", where, i)
		if tf.skip[i] {
			c.rep.TypesCompared["skipped:"+kn]++
			continue
		}
		if !tf.types[i].ok() {
			if tf.why[i] != "" {
				c.tick("R5")
				c.add("R5", ew, "untypable %s: %s", kn, tf.why[i])
			} else {
				c.rep.TypesCompared["unresolved:"+kn]++
			}
			continue
		}
		if i >= len(fn.ExpressionTypes) {
			continue
		}
		rec := fn.ExpressionTypes[i]
		if rec.Handle != nil {
			c.tick("R1")
			if !c.typeOK(*rec.Handle) {
				c.add("R1", ew, "ExpressionTypes entry has type handle %d out of range", *rec.Handle)
				continue
			}
		}
		c.tick("R5")
		rt := c.resTy(rec)
		if !rt.ok() {
			c.add("R5", ew, "ExpressionTypes entry for %s is empty; typifier computes %s", kn, c.tyStr(tf.types[i]))
			continue
		}
		c.rep.TypesCompared[kn]++
		if !c.eqTy(rt, tf.types[i]) {
			c.add("R5", ew, "%s: recorded type %s != typifier type %s", kn, c.tyStr(rt), c.tyStr(tf.types[i]))
		}
	}

	// R13: access typing.
	for i := range fn.Expressions {
		c.checkAccess(fmt.Sprintf("%s expr %d", where, i), fn, tf, i)
	}

	w := &fwalk{c: c, fn: fn, where: where, tf: tf, n: n, self: self, use: &use}
	w.run()
	return use
}

// checkAcyclic is the PostMem2Reg form of R2: ignoring phi incomings, no
// expression may (transitively) depend on itself.
func (c *checker) checkAcyclic(where string, fn *ir.Function) {
	n := len(fn.Expressions)
	state := make([]uint8, n) // 0 unvisited, 1 on stack, 2 done
	type frame struct {
		h   int
		ops []ir.ExpressionHandle
		pos int
	}
	opsOf := func(h int) []ir.ExpressionHandle {
		k := fn.Expressions[h].Kind
		if _, isPhi := k.(ir.ExprPhi); isPhi || k == nil {
			return nil
		}
		return operands(k)
	}
	for root := 0; root < n; root++ {
		if state[root] != 0 {
			continue
		}
		stack := []frame{{h: root, ops: opsOf(root)}}
		state[root] = 1
		for len(stack) > 0 {
			f := &stack[len(stack)-1]
			if f.pos == len(f.ops) {
				state[f.h] = 2
				stack = stack[:len(stack)-1]
				continue
			}
			o := int(f.ops[f.pos])
			f.pos++
			if o >= n {
				continue
			}
			c.tick("R2")
			switch state[o] {
			case 0:
				state[o] = 1
				stack = append(stack, frame{h: o, ops: opsOf(o)})
			case 1:
				c.add("R2", fmt.Sprintf("%s expr %d", where, f.h), "%s operand expression %d closes a dependency cycle", kindName(fn.Expressions[f.h].Kind), o)
			}
		}
	}
}

// checkAccess is rule R13.
func (c *checker) checkAccess(where string, fn *ir.Function, tf *typifier, i int) {
	typeAt := func(h ir.ExpressionHandle) ty {
		if int(h) >= len(tf.types) || (int(h) >= i && !c.relaxed()) {
			return noTy
		}
		return tf.types[h]
	}
	switch e := fn.Expressions[i].Kind.(type) {
	case ir.ExprAccess:
		b := typeAt(e.Base)
		if b.ok() {
			c.tick("R13")
			okBase := false
			switch bt := b.inner.(type) {
			case ir.ArrayType, ir.VectorType, ir.MatrixType, ir.BindingArrayType:
				okBase = true
			case ir.ValuePointerType:
				okBase = bt.Size != nil
			case ir.PointerType:
				if c.typeOK(bt.Base) {
					switch c.m.Types[bt.Base].Inner.(type) {
					case ir.ArrayType, ir.VectorType, ir.MatrixType, ir.BindingArrayType:
						okBase = true
					}
				}
			}
			if !okBase {
				c.add("R13", where, "Access base %d has type %s which cannot be dynamically indexed", e.Base, c.tyStr(b))
			}
		}
		ix := typeAt(e.Index)
		if ix.ok() {
			c.tick("R13")
			s, isScalar := ix.inner.(ir.ScalarType)
			if !isScalar || (s.Kind != ir.ScalarSint && s.Kind != ir.ScalarUint) {
				c.add("R13", where, "Access index %d has type %s, want a scalar integer", e.Index, c.tyStr(ix))
			}
		}
	case ir.ExprAccessIndex:
		b := typeAt(e.Base)
		if !b.ok() {
			return
		}
		c.tick("R13")
		limit, ok := c.indexLimit(b.inner, true)
		if !ok {
			c.add("R13", where, "AccessIndex base %d has type %s which cannot be indexed", e.Base, c.tyStr(b))
			return
		}
		if uint64(e.Index) >= limit {
			c.add("R13", where, "AccessIndex %d out of bounds for base %d of type %s (limit %d)", e.Index, e.Base, c.tyStr(b), limit)
		}
	}
}

// indexLimit mirrors upstream resolve_index_limit.
func (c *checker) indexLimit(in ir.TypeInner, top bool) (uint64, bool) {
	const unbounded = 1 << 32
	switch x := in.(type) {
	case ir.VectorType:
		return uint64(x.Size), true
	case ir.ValuePointerType:
		if x.Size != nil {
			return uint64(*x.Size), true
		}
		return 0, false
	case ir.MatrixType:
		return uint64(x.Columns), true
	case ir.ArrayType:
		if x.Size.Constant != nil {
			return uint64(*x.Size.Constant), true
		}
		return unbounded, true
	case ir.BindingArrayType:
		return unbounded, true
	case ir.StructType:
		return uint64(len(x.Members)), true
	case ir.PointerType:
		if top && c.typeOK(x.Base) {
			return c.indexLimit(c.m.Types[x.Base].Inner, false)
		}
	}
	return 0, false
}

// ---------------------------------------------------------------- body walk

type ctl struct {
	canBreak, canContinue, canReturn, inContinuing bool
}

type fwalk struct {
	c     *checker
	fn    *ir.Function
	where string
	tf    *typifier
	n     int
	self  int // index in Module.Functions, -1 for entry points
	use   *fnUsage

	covered   []int  // number of Emit ranges covering each expression
	stmtUsed  []bool // referenced directly by a statement
	used      []bool // closure of stmtUsed / local inits over operands
	inScope   []bool
	scopeList []ir.ExpressionHandle
	bound     []int // times bound as a statement result
}

func (w *fwalk) add(rule, sub, format string, a ...any) {
	where := w.where
	if sub != "" {
		where += " " + sub
	}
	w.c.add(rule, where, format, a...)
}

func (w *fwalk) valid(h ir.ExpressionHandle) bool { return int(h) < w.n }

func (w *fwalk) typeOf(h ir.ExpressionHandle) ty {
	if !w.valid(h) {
		return noTy
	}
	return w.tf.types[h]
}

func (w *fwalk) run() {
	c := w.c
	fn := w.fn
	w.covered = make([]int, w.n)
	w.stmtUsed = make([]bool, w.n)
	w.used = make([]bool, w.n)
	w.inScope = make([]bool, w.n)
	w.bound = make([]int, w.n)

	// Pass 1: emit ranges (R6 well-formedness) and direct statement uses (R1).
	forEachStmt(fn.Body, func(k ir.StatementKind) {
		if k == nil {
			w.add("R1", "", "nil statement kind")
			return
		}
		if e, ok := k.(ir.StmtEmit); ok {
			c.tick("R6")
			if e.Range.Start > e.Range.End || int(e.Range.End) > w.n {
				w.add("R6", "", "malformed Emit range [%d,%d) with %d expressions", e.Range.Start, e.Range.End, w.n)
				return
			}
			needs := e.Range.Start == e.Range.End
			for h := e.Range.Start; h < e.Range.End; h++ {
				w.covered[h]++
				if k := fn.Expressions[h].Kind; k != nil && !isPreEmit(k) && !isResult(k) {
					needs = true
				}
			}
			if !needs {
				// a range that evaluates nothing at all: the clean-up of folded statements (DeduplicateEmits) removes these
				w.add("R6", "", "Emit range covers only pre-emitted expressions (nothing to evaluate)")
			}
			return
		}
		uses, results := stmtRefs(k)
		if l, ok := k.(ir.StmtLoop); ok {
			uses = optH(l.BreakIf, uses)
		}
		for _, h := range append(uses, results...) {
			c.tick("R1")
			if !w.valid(h) {
				w.add("R1", "stmt "+kindName(k), "expression handle %d out of range (%d expressions)", h, w.n)
				continue
			}
			w.stmtUsed[h] = true
		}
		if call, ok := k.(ir.StmtCall); ok {
			c.tick("R1")
			if int(call.Function) >= len(c.m.Functions) {
				w.add("R1", "stmt Call", "function handle %d out of range (%d functions)", call.Function, len(c.m.Functions))
			} else {
				w.use.callees[call.Function] = true
			}
		}
	})

	// Used closure. Roots: statement operands and local variable initialisers.
	copy(w.used, w.stmtUsed)
	for _, lv := range fn.LocalVars {
		if lv.Init != nil && w.valid(*lv.Init) {
			w.used[*lv.Init] = true
		}
	}
	for i := w.n - 1; i >= 0; i-- {
		if !w.used[i] {
			continue
		}
		for _, o := range operands(fn.Expressions[i].Kind) {
			if int(o) < i || (int(o) < w.n && isDxilOnly(fn.Expressions[i].Kind)) {
				w.used[o] = true
			}
		}
	}
	if c.relaxed() {
		// forward alias / phi references: iterate until stable
		for changed := true; changed; {
			changed = false
			for i := 0; i < w.n; i++ {
				if w.used[i] {
					for _, o := range operands(fn.Expressions[i].Kind) {
						if int(o) < w.n && !w.used[o] {
							w.used[o] = true
							changed = true
						}
					}
				}
			}
		}
	}
	for i := 0; i < w.n; i++ {
		if g, ok := fn.Expressions[i].Kind.(ir.ExprGlobalVariable); ok && w.used[i] && int(g.Variable) < len(c.m.GlobalVariables) {
			w.use.globals[g.Variable] = true
		}
	}

	// R6: coverage.
	for i := 0; i < w.n; i++ {
		k := fn.Expressions[i].Kind
		if k == nil {
			continue
		}
		sub := fmt.Sprintf("expr %d", i)
		c.tick("R6")
		switch {
		case isPreEmit(k) || isResult(k):
			if w.covered[i] > 0 {
				w.add("R6", sub, "%s expression is inside an Emit range (it is pre-emitted / bound by a statement)", kindName(k))
			}
		case w.covered[i] > 1:
			w.add("R6", sub, "%s expression is covered by %d Emit ranges", kindName(k), w.covered[i])
		case w.covered[i] == 0 && w.used[i] && !c.relaxed():
			if w.constLike(ir.ExpressionHandle(i)) && !w.stmtUsed[i] {
				c.rep.Fired["note:R6-unemitted-const-subexpr"]++
				break // constant sub-expression folded into its user, see constLike
			}
			w.add("R6", sub, "%s expression is used but not covered by any Emit range", kindName(k))
		}
	}

	// Local variable initialisers must be constant expressions (they are
	// evaluated at function entry, before any Emit).
	for i, lv := range fn.LocalVars {
		if lv.Init == nil || !w.valid(*lv.Init) {
			continue
		}
		c.tick("R7")
		if !w.constLike(*lv.Init) && !c.relaxed() {
			w.add("R7", fmt.Sprintf("local %d (%s)", i, lv.Name), "initialiser expression %d (%s) is not a constant expression", *lv.Init, kindName(fn.Expressions[*lv.Init].Kind))
		}
		if c.typeOK(lv.Type) {
			it := w.typeOf(*lv.Init)
			if it.ok() {
				c.tick("R7")
				if !c.eqTy(it, c.handleTy(lv.Type)) {
					w.add("R7", fmt.Sprintf("local %d (%s)", i, lv.Name), "initialiser type %s != variable type %s", c.tyStr(it), c.tyStr(c.handleTy(lv.Type)))
				}
			}
		}
	}

	// Pass 2: scoped walk.
	for i := 0; i < w.n; i++ {
		if k := fn.Expressions[i].Kind; k != nil && isPreEmit(k) {
			w.inScope[i] = true
		}
	}
	w.stmts(fn.Body, ctl{canReturn: true})

	// R8: every result expression is bound exactly once.
	for i := 0; i < w.n; i++ {
		k := fn.Expressions[i].Kind
		if k == nil || !isResult(k) {
			continue
		}
		c.tick("R8")
		if w.bound[i] == 0 && c.relaxed() && !w.used[i] {
			continue // dce removed the (pure) statement; the dangling result is never read
		}
		if w.bound[i] != 1 {
			w.add("R8", fmt.Sprintf("expr %d", i), "%s expression is the result of %d statements, want exactly 1", kindName(k), w.bound[i])
		}
	}

	// R9: a function with a result returns on every path.
	if fn.Result != nil {
		c.tick("R9")
		if !blockReturns(fn.Body) {
			w.add("R9", "", "function has a result but its body can fall off the end without Return")
		}
	}
}

// constLike reports whether h is built only from literals, constants,
// overrides, zero values and pure operators on those (no loads, arguments,
// variables, calls or image operations).
func (w *fwalk) constLike(h ir.ExpressionHandle) bool {
	memo := map[ir.ExpressionHandle]bool{}
	var rec func(h ir.ExpressionHandle, depth int) bool
	rec = func(h ir.ExpressionHandle, depth int) bool {
		if !w.valid(h) || depth > 64 {
			return false
		}
		if v, ok := memo[h]; ok {
			return v
		}
		memo[h] = false
		k := w.fn.Expressions[h].Kind
		switch k.(type) {
		case ir.Literal, ir.ExprConstant, ir.ExprOverride, ir.ExprZeroValue:
			memo[h] = true
			return true
		case ir.ExprCompose, ir.ExprSplat, ir.ExprSwizzle, ir.ExprAccess, ir.ExprAccessIndex,
			ir.ExprUnary, ir.ExprBinary, ir.ExprSelect, ir.ExprRelational, ir.ExprMath, ir.ExprAs:
			for _, o := range operands(k) {
				if o >= h || !rec(o, depth+1) {
					return false
				}
			}
			memo[h] = true
			return true
		}
		return false
	}
	return rec(h, 0)
}

// Control-flow outcome of a statement sequence.
const (
	flowFalls      = iota // control reaches the end of the sequence
	flowTerminated        // return / kill / continue / loop: never reaches the end
	flowBrokeOut          // a Break left the nearest enclosing Switch
)

// seqFlow decides (leniently) whether control can reach the end of a block.
// A Loop is never descended into and counts as not falling through, so a
// Break met during the descent always belongs to a Switch.
func seqFlow(b ir.Block) int {
	for i := range b {
		if r := stmtFlow(b[i].Kind); r != flowFalls {
			return r
		}
	}
	return flowFalls
}

func stmtFlow(k ir.StatementKind) int {
	switch s := k.(type) {
	case ir.StmtReturn, ir.StmtKill, ir.StmtContinue, ir.StmtLoop:
		return flowTerminated
	case ir.StmtBreak:
		return flowBrokeOut
	case ir.StmtBlock:
		return seqFlow(s.Block)
	case ir.StmtIf:
		a, r := seqFlow(s.Accept), seqFlow(s.Reject)
		switch {
		case a == flowFalls || r == flowFalls:
			return flowFalls
		case a == flowBrokeOut || r == flowBrokeOut:
			return flowBrokeOut
		}
		return flowTerminated
	case ir.StmtSwitch:
		for _, cs := range s.Cases {
			r := seqFlow(cs.Body)
			if r == flowFalls && cs.FallThrough {
				continue // runs on into the next case
			}
			if r != flowTerminated {
				return flowFalls // control continues after the switch
			}
		}
		return flowTerminated
	}
	return flowFalls
}

// blockReturns: control cannot fall off the end of the function body.
func blockReturns(b ir.Block) bool { return seqFlow(b) != flowFalls }

func (w *fwalk) pop(base int) {
	for _, h := range w.scopeList[base:] {
		w.inScope[h] = false
	}
	w.scopeList = w.scopeList[:base]
}

func (w *fwalk) enter(h ir.ExpressionHandle) {
	if w.valid(h) && !w.inScope[h] {
		w.inScope[h] = true
		w.scopeList = append(w.scopeList, h)
	}
}

// block walks a nested block in its own scope.
func (w *fwalk) block(b ir.Block, x ctl) {
	base := len(w.scopeList)
	w.stmts(b, x)
	w.pop(base)
}

// need checks (R7) that expression h may be referenced here.
func (w *fwalk) need(h ir.ExpressionHandle, by string) {
	if !w.valid(h) {
		return
	}
	w.c.tick("R7")
	if w.inScope[h] {
		return
	}
	k := w.fn.Expressions[h].Kind
	if k == nil {
		return
	}
	if w.covered[h] == 0 && !isResult(k) {
		// Never emitted anywhere: rule R6 decides whether that is legal
		// (un-emitted constant expression) or reports it.
		return
	}
	w.add("R7", by, "%s expression %d is not in scope here (not emitted / bound on every path leading to this point)", kindName(k), h)
}

func (w *fwalk) stmts(b ir.Block, x ctl) {
	c := w.c
	for si := range b {
		k := b[si].Kind
		if k == nil {
			continue
		}
		sub := "stmt " + kindName(k)

		if e, ok := k.(ir.StmtEmit); ok {
			if e.Range.Start > e.Range.End || int(e.Range.End) > w.n {
				continue
			}
			for h := e.Range.Start; h < e.Range.End; h++ {
				ek := w.fn.Expressions[h].Kind
				if ek == nil {
					continue
				}
				if _, isPhi := ek.(ir.ExprPhi); !isPhi {
					for _, o := range operands(ek) {
						w.need(o, fmt.Sprintf("expr %d (operand of emitted %s)", h, kindName(ek)))
					}
				}
				if !isPreEmit(ek) && !isResult(ek) {
					w.enter(h)
				}
			}
			continue
		}

		uses, results := stmtRefs(k)
		for _, h := range uses {
			w.need(h, sub)
		}

		switch s := k.(type) {
		case ir.StmtBlock:
			w.block(s.Block, x)

		case ir.StmtIf:
			c.tick("R12")
			if t := w.typeOf(s.Condition); t.ok() && !isBoolScalar(t.inner) {
				w.add("R12", sub, "condition %d has type %s, want bool", s.Condition, c.tyStr(t))
			}
			w.block(s.Accept, x)
			w.block(s.Reject, x)

		case ir.StmtSwitch:
			w.checkSwitch(s, sub)
			y := x
			y.canBreak = true
			for i := range s.Cases {
				w.block(s.Cases[i].Body, y)
			}

		case ir.StmtLoop:
			base := len(w.scopeList)
			y := x
			y.canBreak, y.canContinue, y.inContinuing = true, true, false
			w.stmts(s.Body, y)
			z := ctl{inContinuing: true}
			w.stmts(s.Continuing, z)
			if s.BreakIf != nil {
				w.need(*s.BreakIf, "stmt Loop break_if")
				c.tick("R12")
				if t := w.typeOf(*s.BreakIf); t.ok() && !isBoolScalar(t.inner) {
					w.add("R12", "stmt Loop break_if", "break_if %d has type %s, want bool", *s.BreakIf, c.tyStr(t))
				}
			}
			w.pop(base)

		case ir.StmtBreak:
			c.tick("R12")
			if !x.canBreak {
				if x.inContinuing {
					w.add("R12", sub, "Break inside a continuing block")
				} else {
					w.add("R12", sub, "Break outside of Loop / Switch")
				}
			}
		case ir.StmtContinue:
			c.tick("R12")
			if !x.canContinue {
				if x.inContinuing {
					w.add("R12", sub, "Continue inside a continuing block")
				} else {
					w.add("R12", sub, "Continue outside of Loop")
				}
			}
		case ir.StmtKill:
			c.tick("R12")
			if x.inContinuing {
				w.add("R12", sub, "Kill inside a continuing block")
			}
		case ir.StmtReturn:
			c.tick("R12")
			if !x.canReturn {
				w.add("R12", sub, "Return inside a continuing block")
			}
			w.checkReturn(s, sub)

		case ir.StmtStore:
			w.checkStore(s, sub)

		case ir.StmtCall:
			w.checkCall(s, sub)

		case ir.StmtAtomic:
			w.checkAtomic(s, sub)
		}

		// R8: bind results.
		for _, r := range results {
			if !w.valid(r) {
				continue
			}
			c.tick("R8")
			rk := w.fn.Expressions[r].Kind
			if !resultKindMatches(k, rk) {
				w.add("R8", sub, "result expression %d is %s, which is not the result kind of this statement", r, kindName(rk))
			}
			w.bound[r]++
			w.enter(r)
		}
	}
}

func isBoolScalar(in ir.TypeInner) bool {
	s, ok := in.(ir.ScalarType)
	return ok && s.Kind == ir.ScalarBool
}

func resultKindMatches(stmt ir.StatementKind, expr ir.ExpressionKind) bool {
	switch s := stmt.(type) {
	case ir.StmtCall:
		r, ok := expr.(ir.ExprCallResult)
		return ok && r.Function == s.Function
	case ir.StmtAtomic:
		_, ok := expr.(ir.ExprAtomicResult)
		return ok
	case ir.StmtWorkGroupUniformLoad:
		_, ok := expr.(ir.ExprWorkGroupUniformLoadResult)
		return ok
	case ir.StmtRayQuery:
		_, ok := expr.(ir.ExprRayQueryProceedResult)
		return ok
	case ir.StmtSubgroupBallot:
		_, ok := expr.(ir.ExprSubgroupBallotResult)
		return ok
	case ir.StmtSubgroupCollectiveOperation, ir.StmtSubgroupGather:
		_, ok := expr.(ir.ExprSubgroupOperationResult)
		return ok
	}
	return false
}

// checkSwitch is the Switch part of R12.
func (w *fwalk) checkSwitch(s ir.StmtSwitch, sub string) {
	c := w.c
	c.tick("R12")
	t := w.typeOf(s.Selector)
	known := false
	unsigned := false
	if t.ok() {
		sc, ok := t.inner.(ir.ScalarType)
		switch {
		case ok && sc.Kind == ir.ScalarUint && sc.Width == 4:
			known, unsigned = true, true
		case ok && sc.Kind == ir.ScalarSint && sc.Width == 4:
			known = true
		default:
			w.add("R12", sub, "selector %d has type %s, want i32 or u32", s.Selector, c.tyStr(t))
		}
	}
	defaults := 0
	seen := map[int64]bool{}
	for i, cs := range s.Cases {
		switch v := cs.Value.(type) {
		case ir.SwitchValueDefault:
			defaults++
		case ir.SwitchValueI32:
			if known && unsigned {
				w.add("R12", sub, "case %d value i32(%d) does not match the u32 selector", i, v)
			}
			if seen[int64(v)] {
				w.add("R12", sub, "duplicate case value %d", v)
			}
			seen[int64(v)] = true
		case ir.SwitchValueU32:
			if known && !unsigned {
				w.add("R12", sub, "case %d value u32(%d) does not match the i32 selector", i, v)
			}
			key := int64(v) | 1<<40
			if seen[key] {
				w.add("R12", sub, "duplicate case value %du", v)
			}
			seen[key] = true
		default:
			w.add("R12", sub, "case %d has no value", i)
		}
	}
	if defaults != 1 {
		w.add("R12", sub, "switch has %d default cases, want exactly 1", defaults)
	}
	if n := len(s.Cases); n > 0 && s.Cases[n-1].FallThrough {
		w.add("R12", sub, "last switch case falls through")
	}
}

// checkReturn is the per-statement part of R9.
func (w *fwalk) checkReturn(s ir.StmtReturn, sub string) {
	c := w.c
	c.tick("R9")
	res := w.fn.Result
	switch {
	case s.Value == nil && res != nil:
		w.add("R9", sub, "Return without value in a function whose result type is %s", c.handleStr(res.Type, 0))
	case s.Value != nil && res == nil:
		w.add("R9", sub, "Return with value %d in a function without result", *s.Value)
	case s.Value != nil:
		vt := w.typeOf(*s.Value)
		if vt.ok() && c.typeOK(res.Type) && !c.eqTy(vt, c.handleTy(res.Type)) {
			w.add("R9", sub, "Return value %d has type %s, function result type is %s", *s.Value, c.tyStr(vt), c.tyStr(c.handleTy(res.Type)))
		}
	}
}

// pointerRoot follows Access / AccessIndex bases down to the originating
// variable expression.
func (w *fwalk) pointerRoot(h ir.ExpressionHandle) (ir.ExpressionKind, bool) {
	for depth := 0; depth < 1024 && w.valid(h); depth++ {
		switch e := w.fn.Expressions[h].Kind.(type) {
		case ir.ExprAccess:
			h = e.Base
		case ir.ExprAccessIndex:
			h = e.Base
		case ir.ExprLocalVariable, ir.ExprGlobalVariable, ir.ExprFunctionArgument:
			return e, true
		default:
			return e, false
		}
	}
	return nil, false
}

// checkStore is rule R10.
func (w *fwalk) checkStore(s ir.StmtStore, sub string) {
	c := w.c
	c.tick("R10")
	root, rootOK := w.pointerRoot(s.Pointer)
	if !rootOK && !c.relaxed() {
		w.add("R10", sub, "store pointer %d is not an access chain rooted in a variable or pointer argument (root is %s)", s.Pointer, kindName(root))
	}
	pt := w.typeOf(s.Pointer)
	vt := w.typeOf(s.Value)
	if !pt.ok() {
		return
	}
	var pointee ty
	var space ir.AddressSpace
	switch p := pt.inner.(type) {
	case ir.PointerType:
		space = p.Space
		pointee = c.handleTy(p.Base)
		if at, ok := pointee.inner.(ir.AtomicType); ok {
			pointee = valTy(at.Scalar) // atomicStore is lowered to a plain Store of the scalar
		}
	case ir.ValuePointerType:
		space = p.Space
		if p.Size != nil {
			pointee = vecOf(*p.Size, p.Scalar)
		} else {
			pointee = valTy(p.Scalar)
		}
	default:
		w.add("R10", sub, "store pointer %d has non-pointer type %s", s.Pointer, c.tyStr(pt))
		return
	}
	if vt.ok() && pointee.ok() && !c.eqTy(vt, pointee) {
		w.add("R10", sub, "store value %d has type %s but pointer %d points to %s", s.Value, c.tyStr(vt), s.Pointer, c.tyStr(pointee))
	}
	if vt.ok() {
		switch vt.inner.(type) {
		case ir.ImageType, ir.SamplerType:
			w.add("R10", sub, "store of an image / sampler value")
		}
	}
	switch space {
	case ir.SpaceFunction, ir.SpacePrivate, ir.SpaceWorkGroup, ir.SpaceTaskPayload:
	case ir.SpaceStorage:
		if g, ok := root.(ir.ExprGlobalVariable); ok && rootOK && int(g.Variable) < len(c.m.GlobalVariables) {
			if c.m.GlobalVariables[g.Variable].Access == ir.StorageRead {
				w.add("R10", sub, "store through pointer %d into read-only storage variable %q", s.Pointer, c.m.GlobalVariables[g.Variable].Name)
			}
		}
	default:
		w.add("R10", sub, "store through pointer %d into non-writable address space %s", s.Pointer, spaceStr(space))
	}
}

// checkCall is rule R11 (and the call half of R8).
func (w *fwalk) checkCall(s ir.StmtCall, sub string) {
	c := w.c
	if int(s.Function) >= len(c.m.Functions) {
		return
	}
	callee := &c.m.Functions[s.Function]
	sub = fmt.Sprintf("%s %s", sub, callee.Name)
	c.tick("R11")
	if w.self >= 0 && int(s.Function) >= w.self {
		w.add("R11", sub, "callee function %d is not declared before the caller %d (functions must be in dependency order)", s.Function, w.self)
	}
	if len(s.Arguments) != len(callee.Arguments) {
		w.add("R11", sub, "call passes %d arguments, callee takes %d", len(s.Arguments), len(callee.Arguments))
	}
	for i := 0; i < len(s.Arguments) && i < len(callee.Arguments); i++ {
		at := w.typeOf(s.Arguments[i])
		pt := c.handleTy(callee.Arguments[i].Type)
		if at.ok() && pt.ok() {
			c.tick("R11")
			if !c.eqTy(at, pt) {
				w.add("R11", sub, "argument %d (expression %d) has type %s, parameter type is %s", i, s.Arguments[i], c.tyStr(at), c.tyStr(pt))
			}
		}
	}
	c.tick("R8")
	if (s.Result != nil) != (callee.Result != nil) {
		if s.Result == nil {
			w.add("R8", sub, "callee has a result but the Call has no CallResult expression")
		} else {
			w.add("R8", sub, "Call has result expression %d but the callee has no result", *s.Result)
		}
	}
}

// checkAtomic: the result of an atomic statement has the atomic's scalar type
// (or the compare-exchange result struct).
func (w *fwalk) checkAtomic(s ir.StmtAtomic, sub string) {
	c := w.c
	pt := w.typeOf(s.Pointer)
	if !pt.ok() {
		return
	}
	c.tick("R8")
	p, ok := pt.inner.(ir.PointerType)
	if !ok || !c.typeOK(p.Base) {
		w.add("R8", sub, "atomic pointer %d has type %s, want pointer to atomic", s.Pointer, c.tyStr(pt))
		return
	}
	at, ok := c.m.Types[p.Base].Inner.(ir.AtomicType)
	if !ok {
		w.add("R8", sub, "atomic pointer %d has type %s, want pointer to atomic", s.Pointer, c.tyStr(pt))
		return
	}
	if s.Result == nil || !w.valid(*s.Result) {
		return
	}
	r, ok := w.fn.Expressions[*s.Result].Kind.(ir.ExprAtomicResult)
	if !ok || !c.typeOK(r.Ty) {
		return
	}
	x, isExchange := s.Fun.(ir.AtomicExchange)
	cmp := isExchange && x.Compare != nil
	c.tick("R8")
	if r.Comparison != cmp {
		w.add("R8", sub, "AtomicResult %d has Comparison=%v but the statement compare-exchange=%v", *s.Result, r.Comparison, cmp)
		return
	}
	rt := c.m.Types[r.Ty].Inner
	if !cmp {
		if sc, isScalar := rt.(ir.ScalarType); !isScalar || sc != at.Scalar {
			w.add("R8", sub, "AtomicResult %d has type %s, the atomic holds %s", *s.Result, c.handleStr(r.Ty, 0), scalarStr(at.Scalar))
		}
		return
	}
	st, isStruct := rt.(ir.StructType)
	good := isStruct && len(st.Members) == 2 && c.typeOK(st.Members[0].Type) && c.typeOK(st.Members[1].Type)
	if good {
		m0, ok0 := c.m.Types[st.Members[0].Type].Inner.(ir.ScalarType)
		good = ok0 && m0 == at.Scalar && isBoolScalar(c.m.Types[st.Members[1].Type].Inner)
	}
	if !good {
		w.add("R8", sub, "compare-exchange AtomicResult %d has type %s, want struct{old_value: %s, exchanged: bool}", *s.Result, c.handleStr(r.Ty, 0), scalarStr(at.Scalar))
	}
}

// sortedGlobals is a helper for deterministic reports.
func sortedGlobals(s map[ir.GlobalVariableHandle]bool) []ir.GlobalVariableHandle {
	out := make([]ir.GlobalVariableHandle, 0, len(s))
	for g := range s {
		out = append(out, g)
	}
	sort.Slice(out, func(i, j int) bool { return out[i] < out[j] })
	return out
}
