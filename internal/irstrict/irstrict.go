// Package irstrict is a strict, independent validator for naga IR modules
// (github.com/gogpu/naga/ir) produced by lowering WGSL. The rules are modelled
// on upstream Rust naga's valid:: module and proc::typifier; the expression
// typifier in this package is written from those rules and does not call any
// naga analysis (rule R18 alone calls ir.Validate). The package also provides
// a canonical reflection-based dump of a whole module for equality / hashing.
//
// Fired counters: Report.Fired[ruleID] is the number of findings of that rule;
// Report.Fired["checked:"+ruleID] is the number of times the rule's predicate
// was evaluated (so a silent rule can be told apart from a vacuous one);
// Report.Fired["note:..."] counts deliberate exemptions that were taken.
//
// Rules (see RuleIDs):
//
//	R1  every handle / index is in range
//	R2  references point backwards (types, global expressions, function expressions)
//	R3  no abstract-numeric scalar kind in a type, literal or constant value
//	R4  anonymous non-struct types are unique in the type arena
//	R5  ExpressionTypes is parallel to Expressions and equals the independent
//	    typifier (also: constant type == type of its init global expression)
//	R6  Emit ranges well-formed, disjoint, never covering pre-emit / result
//	    expressions; every used non-constant expression is covered
//	R7  emit-before-use in structured (dominance) order; local initialisers
//	    are constant expressions of the variable's type
//	R8  result expressions bound by exactly one statement of the right kind;
//	    Call has a result iff the callee has; atomic result types
//	R9  Return value type == function result; control cannot fall off the end
//	    of a function that has a result
//	R10 Store: pointer rooted in a variable, writable space, value == pointee
//	    (a Store through pointer-to-atomic takes the scalar: atomicStore)
//	R11 Call: callee declared earlier, argument count and types
//	R12 If / break_if bool, Switch selector i32|u32, case values unique and of
//	    the selector's signedness, exactly one default, last case does not
//	    fall through, Break / Continue / Return / Kill placement
//	R13 Access index integer, indexable base; AccessIndex within bounds
//	R14 entry points: bindings complete, no duplicate locations / built-ins per
//	    direction, built-in legal for stage and direction, compute workgroup
//	    size >= 1, distinct (group,binding) among the resources one entry
//	    point statically uses
//	R15 no ExprAlias / ExprPhi unless the profile is PostMem2Reg
//	R16 global variables: type legal for the address space, binding iff
//	    resource, initialiser only in private space and of the variable's type
//	R17 struct members ascending, non-overlapping, inside the span; unsized
//	    member only last; array stride == roundUp(align, size); for types
//	    reachable from uniform / storage / push-constant variables also member
//	    offset and span alignment
//	R18 ir.Validate reports nothing
//
// Profile PostMem2Reg differs from Lowered / PostPass as follows (the dxil
// sroa / mem2reg / dce passes rewrite expressions in place and append operands
// at the end of the arena): R15 is off; inside function arenas R2 only demands
// that the dependency graph (ignoring phi incomings) is acyclic; ExprAlias has
// the type of its source and ExprPhi the common type of its incomings; R6 does
// not require used expressions to be covered (never-emitted expressions are
// evaluated lazily by the DXIL emitter) and R7 ignores never-emitted
// expressions and phi operands; a result expression bound by no statement is
// tolerated when nothing uses it (dce removes pure calls); R10 does not insist
// on the access-chain shape of the store pointer; local initialisers need not
// be constant expressions.
package irstrict

import (
	"fmt"
	"sort"

	"github.com/gogpu/naga/ir"
)

// Profile selects the pipeline stage the module is in.
type Profile int

const (
	Lowered     Profile = iota // straight out of LowerWithSource
	PostPass                   // after Compact*/Inline/ProcessOverrides: same rules
	PostMem2Reg                // after dxil sroa/mem2reg/dce: ExprAlias/ExprPhi allowed; emit-coverage rules relaxed
)

// Finding is one rule violation.
type Finding struct{ Rule, Where, Detail string }

func (f Finding) String() string { return f.Rule + " @ " + f.Where + ": " + f.Detail }

// Report is the result of Check.
type Report struct {
	Findings      []Finding
	Fired         map[string]int
	TypesCompared map[string]int // by expression kind
}

var ruleIDs = []string{
	"R1", "R2", "R3", "R4", "R5", "R6", "R7", "R8", "R9", "R10", "R11", "R12",
	"R13", "R14", "R15", "R16", "R17", "R18",
}

// RuleIDs lists the rule identifiers (excluding the pseudo-rule "INTERNAL").
func RuleIDs() []string { return append([]string(nil), ruleIDs...) }

// Check validates m under profile p. It never panics: an internal failure is
// reported as Finding{Rule:"INTERNAL"}.
func Check(m *ir.Module, p Profile) (rep Report) {
	rep = Report{Fired: map[string]int{}, TypesCompared: map[string]int{}}
	c := &checker{m: m, p: p, rep: &rep}
	defer func() {
		if r := recover(); r != nil {
			c.add("INTERNAL", c.stage, "panic: %v", r)
		}
	}()
	if m == nil {
		c.add("INTERNAL", "module", "nil module")
		return rep
	}
	c.guard("types", c.checkTypes)
	c.guard("constants", c.checkConstantsAndGlobalExprs)
	c.guard("globals", c.checkGlobals)
	c.guard("functions", c.checkFunctions)
	c.guard("entry points", c.checkEntryPoints)
	c.guard("ir.Validate", c.checkNagaValidate)
	sort.SliceStable(rep.Findings, func(i, j int) bool {
		return ruleOrder(rep.Findings[i].Rule) < ruleOrder(rep.Findings[j].Rule)
	})
	return rep
}

func ruleOrder(r string) int {
	for i, id := range ruleIDs {
		if id == r {
			return i
		}
	}
	return len(ruleIDs)
}

type checker struct {
	m     *ir.Module
	p     Profile
	rep   *Report
	stage string

	tinfo []typeInfo // parallel to m.Types (filled by checkTypes)
	gexpr []ty       // types of global expressions
	fnUse []fnUsage  // per Functions[] entry: globals used + callees (filled by checkFunctions)
}

// guard runs one phase; a panic inside it becomes an INTERNAL finding and the
// remaining phases still run.
func (c *checker) guard(stage string, f func()) {
	c.stage = stage
	defer func() {
		if r := recover(); r != nil {
			c.add("INTERNAL", stage, "panic: %v", r)
		}
	}()
	f()
}

func (c *checker) add(rule, where, format string, args ...any) {
	c.rep.Findings = append(c.rep.Findings, Finding{Rule: rule, Where: where, Detail: fmt.Sprintf(format, args...)})
	c.rep.Fired[rule]++
}

// tick records one evaluation of a rule's predicate.
func (c *checker) tick(rule string) { c.rep.Fired["checked:"+rule]++ }

func (c *checker) relaxed() bool { return c.p == PostMem2Reg }

func (c *checker) typeOK(h ir.TypeHandle) bool { return int(h) < len(c.m.Types) }

// checkNagaValidate is rule R18.
func (c *checker) checkNagaValidate() {
	c.tick("R18")
	errs, err := ir.Validate(c.m)
	if err != nil {
		c.add("R18", "module", "ir.Validate error: %v", err)
	}
	for _, e := range errs {
		c.add("R18", "module", "ir.Validate: %s", e.Error())
	}
}
