package irstrict

import (
	"fmt"

	"github.com/gogpu/naga/ir"
)

var builtinNames = map[ir.BuiltinValue]string{
	ir.BuiltinPosition: "position", ir.BuiltinVertexIndex: "vertex_index", ir.BuiltinInstanceIndex: "instance_index",
	ir.BuiltinFrontFacing: "front_facing", ir.BuiltinFragDepth: "frag_depth", ir.BuiltinSampleIndex: "sample_index",
	ir.BuiltinSampleMask: "sample_mask", ir.BuiltinLocalInvocationID: "local_invocation_id",
	ir.BuiltinLocalInvocationIndex: "local_invocation_index", ir.BuiltinGlobalInvocationID: "global_invocation_id",
	ir.BuiltinWorkGroupID: "workgroup_id", ir.BuiltinNumWorkGroups: "num_workgroups", ir.BuiltinNumSubgroups: "num_subgroups",
	ir.BuiltinSubgroupID: "subgroup_id", ir.BuiltinSubgroupSize: "subgroup_size",
	ir.BuiltinSubgroupInvocationID: "subgroup_invocation_id", ir.BuiltinBarycentric: "barycentric",
	ir.BuiltinViewIndex: "view_index", ir.BuiltinPrimitiveIndex: "primitive_index", ir.BuiltinPointSize: "point_size",
	ir.BuiltinClipDistance: "clip_distances",
}

func builtinStr(b ir.BuiltinValue) string {
	if n, ok := builtinNames[b]; ok {
		return n
	}
	return fmt.Sprintf("builtin%d", b)
}

type stageDir struct {
	stage  ir.ShaderStage
	output bool
}

// builtinLegal is the WGSL (plus naga extensions) table of which built-in may
// appear for which stage and direction. Built-ins missing from the table
// (mesh-shader ones) and the task / mesh stages are not judged.
var builtinLegal = map[ir.BuiltinValue][]stageDir{
	ir.BuiltinPosition:             {{ir.StageVertex, true}, {ir.StageFragment, false}},
	ir.BuiltinVertexIndex:          {{ir.StageVertex, false}},
	ir.BuiltinInstanceIndex:        {{ir.StageVertex, false}},
	ir.BuiltinPointSize:            {{ir.StageVertex, true}},
	ir.BuiltinClipDistance:         {{ir.StageVertex, true}},
	ir.BuiltinViewIndex:            {{ir.StageVertex, false}, {ir.StageFragment, false}},
	ir.BuiltinFrontFacing:          {{ir.StageFragment, false}},
	ir.BuiltinFragDepth:            {{ir.StageFragment, true}},
	ir.BuiltinSampleIndex:          {{ir.StageFragment, false}},
	ir.BuiltinSampleMask:           {{ir.StageFragment, false}, {ir.StageFragment, true}},
	ir.BuiltinPrimitiveIndex:       {{ir.StageFragment, false}},
	ir.BuiltinBarycentric:          {{ir.StageFragment, false}},
	ir.BuiltinLocalInvocationID:    {{ir.StageCompute, false}},
	ir.BuiltinLocalInvocationIndex: {{ir.StageCompute, false}},
	ir.BuiltinGlobalInvocationID:   {{ir.StageCompute, false}},
	ir.BuiltinWorkGroupID:          {{ir.StageCompute, false}},
	ir.BuiltinNumWorkGroups:        {{ir.StageCompute, false}},
	ir.BuiltinNumSubgroups:         {{ir.StageCompute, false}},
	ir.BuiltinSubgroupID:           {{ir.StageCompute, false}},
	ir.BuiltinSubgroupSize:         {{ir.StageCompute, false}, {ir.StageFragment, false}},
	ir.BuiltinSubgroupInvocationID: {{ir.StageCompute, false}, {ir.StageFragment, false}},
}

var stageNames = map[ir.ShaderStage]string{
	ir.StageVertex: "vertex", ir.StageTask: "task", ir.StageMesh: "mesh", ir.StageFragment: "fragment", ir.StageCompute: "compute",
}

type varyings struct {
	c        *checker
	where    string
	stage    ir.ShaderStage
	output   bool
	builtins map[ir.BuiltinValue]bool
	locs     map[[2]int64]bool
}

func (v *varyings) dir() string {
	if v.output {
		return "output"
	}
	return "input"
}

func (v *varyings) leaf(what string, b ir.Binding) {
	c := v.c
	c.tick("R14")
	switch x := b.(type) {
	case ir.BuiltinBinding:
		if v.builtins[x.Builtin] {
			c.add("R14", v.where, "%s: duplicate %s built-in %s", what, v.dir(), builtinStr(x.Builtin))
		}
		v.builtins[x.Builtin] = true
		legal, known := builtinLegal[x.Builtin]
		if known && (v.stage == ir.StageVertex || v.stage == ir.StageFragment || v.stage == ir.StageCompute) {
			ok := false
			for _, sd := range legal {
				if sd.stage == v.stage && sd.output == v.output {
					ok = true
				}
			}
			if !ok {
				c.add("R14", v.where, "%s: built-in %s is not legal as %s %s", what, builtinStr(x.Builtin), stageNames[v.stage], v.dir())
			}
		}
	case ir.LocationBinding:
		if v.stage == ir.StageCompute {
			c.add("R14", v.where, "%s: @location(%d) on a compute entry point %s", what, x.Location, v.dir())
		}
		key := [2]int64{int64(x.Location), -1}
		if x.BlendSrc != nil {
			key[1] = int64(*x.BlendSrc)
		}
		if v.locs[key] {
			c.add("R14", v.where, "%s: duplicate %s @location(%d)", what, v.dir(), x.Location)
		}
		v.locs[key] = true
	default:
		c.add("R14", v.where, "%s: unknown binding %T", what, b)
	}
}

// value handles one argument / the result: either it carries a binding, or it
// is a struct all of whose members carry one.
func (v *varyings) value(what string, t ir.TypeHandle, b *ir.Binding) {
	c := v.c
	if b != nil && *b != nil {
		v.leaf(what, *b)
		return
	}
	c.tick("R14")
	if !c.typeOK(t) {
		return
	}
	st, ok := c.m.Types[t].Inner.(ir.StructType)
	if !ok {
		c.add("R14", v.where, "%s of type %s has no binding", what, c.handleStr(t, 0))
		return
	}
	for i, mem := range st.Members {
		mw := fmt.Sprintf("%s member %d (%s)", what, i, mem.Name)
		if mem.Binding == nil || *mem.Binding == nil {
			c.tick("R14")
			c.add("R14", v.where, "%s has no binding", mw)
			continue
		}
		v.leaf(mw, *mem.Binding)
	}
}

func (c *checker) checkEntryPoints() {
	m := c.m
	for i := range m.EntryPoints {
		ep := &m.EntryPoints[i]
		where := "ep " + ep.Name
		if ep.Name == "" {
			where = fmt.Sprintf("ep #%d", i)
		}
		use := c.checkFunction(where, &ep.Function, -1)

		in := &varyings{c: c, where: where, stage: ep.Stage, builtins: map[ir.BuiltinValue]bool{}, locs: map[[2]int64]bool{}}
		for ai := range ep.Function.Arguments {
			a := &ep.Function.Arguments[ai]
			in.value(fmt.Sprintf("argument %d (%s)", ai, a.Name), a.Type, a.Binding)
		}
		if r := ep.Function.Result; r != nil {
			out := &varyings{c: c, where: where, stage: ep.Stage, output: true, builtins: map[ir.BuiltinValue]bool{}, locs: map[[2]int64]bool{}}
			out.value("result", r.Type, r.Binding)
		}

		if ep.Stage == ir.StageCompute {
			c.tick("R14")
			for d, n := range ep.Workgroup {
				if n < 1 {
					c.add("R14", where, "compute workgroup size component %d is %d, want >= 1", d, n)
				}
			}
		}
		if ep.TaskPayload != nil {
			c.tick("R1")
			if int(*ep.TaskPayload) >= len(m.GlobalVariables) {
				c.add("R1", where, "task payload global handle %d out of range", *ep.TaskPayload)
			}
		}
		if mi := ep.MeshInfo; mi != nil {
			c.tick("R1")
			if !c.typeOK(mi.VertexOutputType) || !c.typeOK(mi.PrimitiveOutputType) {
				c.add("R1", where, "mesh info output type handle out of range")
			}
			if int(mi.OutputVariable) >= len(m.GlobalVariables) {
				c.add("R1", where, "mesh info output variable handle %d out of range", mi.OutputVariable)
			}
		}

		// Resources statically used by this entry point (directly or through
		// callees) must have distinct (group, binding).
		globals := map[ir.GlobalVariableHandle]bool{}
		for g := range use.globals {
			globals[g] = true
		}
		visited := map[ir.FunctionHandle]bool{}
		var visit func(f ir.FunctionHandle)
		visit = func(f ir.FunctionHandle) {
			if visited[f] || int(f) >= len(c.fnUse) {
				return
			}
			visited[f] = true
			for g := range c.fnUse[f].globals {
				globals[g] = true
			}
			for cal := range c.fnUse[f].callees {
				visit(cal)
			}
		}
		for cal := range use.callees {
			visit(cal)
		}
		c.tick("R14")
		slot := map[ir.ResourceBinding]ir.GlobalVariableHandle{}
		for _, g := range sortedGlobals(globals) {
			gv := &m.GlobalVariables[g]
			if gv.Binding == nil {
				continue
			}
			if prev, dup := slot[*gv.Binding]; dup {
				c.add("R14", where, "resource globals %d (%s) and %d (%s) are both used by this entry point and share @group(%d) @binding(%d)",
					prev, m.GlobalVariables[prev].Name, g, gv.Name, gv.Binding.Group, gv.Binding.Binding)
			} else {
				slot[*gv.Binding] = g
			}
		}
	}
}
