package irstrict

import (
	"fmt"
	"go/ast"
	"go/parser"
	"go/token"
	"os"
	"path/filepath"
	"sort"
	"strconv"
	"strings"
	"testing"

	"github.com/gogpu/naga"
)

// TestSnippets is an opt-in calibration aid (IRSTRICT_SNIPPETS=1): it pulls
// every string literal that looks like WGSL out of naga's own *_test.go files,
// lowers those that compile and prints the distinct findings by rule.
func TestSnippets(t *testing.T) {
	if os.Getenv("IRSTRICT_SNIPPETS") == "" {
		t.Skip("set IRSTRICT_SNIPPETS=1 to run")
	}
	var files []string
	_ = filepath.Walk("/repo", func(p string, info os.FileInfo, err error) error {
		if err == nil && !info.IsDir() && strings.HasSuffix(p, "_test.go") {
			files = append(files, p)
		}
		return nil
	})
	seen := map[string]bool{}
	var srcs []string
	fset := token.NewFileSet()
	for _, f := range files {
		af, err := parser.ParseFile(fset, f, nil, 0)
		if err != nil {
			continue
		}
		ast.Inspect(af, func(n ast.Node) bool {
			bl, ok := n.(*ast.BasicLit)
			if !ok || bl.Kind != token.STRING {
				return true
			}
			s, err := strconv.Unquote(bl.Value)
			if err != nil || !strings.Contains(s, "fn ") || len(s) < 20 || seen[s] {
				return true
			}
			seen[s] = true
			srcs = append(srcs, s)
			return true
		})
	}
	lowered := 0
	byRule := map[string]map[string]int{}
	example := map[string]string{}
	for _, s := range srcs {
		a, err := naga.Parse(s)
		if err != nil {
			continue
		}
		m, err := naga.LowerWithSource(a, s)
		if err != nil || m == nil {
			continue
		}
		lowered++
		rep := Check(m, Lowered)
		for _, fd := range rep.Findings {
			if fd.Rule == "R18" {
				continue
			}
			key := fd.Detail
			if len(key) > 60 {
				key = key[:60]
			}
			if byRule[fd.Rule] == nil {
				byRule[fd.Rule] = map[string]int{}
			}
			byRule[fd.Rule][key]++
			k2 := fd.Rule + "|" + key
			if _, ok := example[k2]; !ok || len(s) < len(example[k2]) {
				example[k2] = fmt.Sprintf("%s: %s\n%s", fd.Where, fd.Detail, s)
			}
		}
	}
	t.Logf("%d candidate strings, %d lowered", len(srcs), lowered)
	for _, r := range sortedKeys(byRule) {
		var ks []string
		for k := range byRule[r] {
			ks = append(ks, k)
		}
		sort.Strings(ks)
		for _, k := range ks {
			t.Logf("%s x%d  %s\n---- smallest example:\n%s\n----", r, byRule[r][k], k, example[r+"|"+k])
		}
	}
}

// TestExtraDir is an opt-in calibration aid: IRSTRICT_EXTRA=<dir> checks every
// *.wgsl in that directory and prints all findings.
func TestExtraDir(t *testing.T) {
	dir := os.Getenv("IRSTRICT_EXTRA")
	if dir == "" {
		t.Skip("set IRSTRICT_EXTRA=<dir> to run")
	}
	files, _ := filepath.Glob(filepath.Join(dir, "*.wgsl"))
	sort.Strings(files)
	for _, f := range files {
		src, err := os.ReadFile(f)
		if err != nil {
			t.Fatal(err)
		}
		a, err := naga.Parse(string(src))
		if err != nil {
			t.Logf("%s: PARSE ERROR %v", filepath.Base(f), err)
			continue
		}
		m, err := naga.LowerWithSource(a, string(src))
		if err != nil {
			t.Logf("%s: LOWER ERROR %v", filepath.Base(f), err)
			continue
		}
		rep := Check(m, Lowered)
		t.Logf("%s: %d findings", filepath.Base(f), len(rep.Findings))
		for _, fd := range rep.Findings {
			t.Logf("    %s", fd)
		}
	}
}
