package irstrict

import (
	"crypto/sha256"
	"fmt"
	"math"
	"reflect"
	"sort"
	"strconv"
	"strings"

	"github.com/gogpu/naga/ir"
)

// Dump returns a canonical, deterministic serialisation of the whole module:
// every field (exported or not) reachable from *m is printed through
// reflection, pointers are followed, interface values are printed with their
// dynamic type, maps are printed in sorted key order, and a nil slice / map is
// printed like an empty one. With normalizeNames every string field called
// "Name" is printed as "", and so are the strings of Function.NamedExpressions
// and Module.TypeAliasNames (their keys / count are kept).
func Dump(m *ir.Module, normalizeNames bool) (out string) {
	defer func() {
		if r := recover(); r != nil {
			out = fmt.Sprintf("<<dump panic: %v>>", r)
		}
	}()
	if m == nil {
		return "nil"
	}
	d := &dumper{norm: normalizeNames}
	d.value(reflect.ValueOf(m).Elem(), false, 0)
	return d.sb.String()
}

// Hash is the SHA-256 of Dump(m, false).
func Hash(m *ir.Module) [32]byte { return sha256.Sum256([]byte(Dump(m, false))) }

type dumper struct {
	sb   strings.Builder
	norm bool
}

const maxDumpDepth = 10000

// value prints v. blank => strings below this point are names to normalise.
func (d *dumper) value(v reflect.Value, blank bool, depth int) {
	if depth > maxDumpDepth {
		d.sb.WriteString("<<too deep>>")
		return
	}
	switch v.Kind() {
	case reflect.Invalid:
		d.sb.WriteString("nil")
	case reflect.Bool:
		d.sb.WriteString(strconv.FormatBool(v.Bool()))
	case reflect.Int, reflect.Int8, reflect.Int16, reflect.Int32, reflect.Int64:
		d.sb.WriteString(strconv.FormatInt(v.Int(), 10))
	case reflect.Uint, reflect.Uint8, reflect.Uint16, reflect.Uint32, reflect.Uint64, reflect.Uintptr:
		d.sb.WriteString(strconv.FormatUint(v.Uint(), 10))
	case reflect.Float32:
		f := v.Float()
		fmt.Fprintf(&d.sb, "%s/0x%08x", strconv.FormatFloat(f, 'g', -1, 32), math.Float32bits(float32(f)))
	case reflect.Float64:
		f := v.Float()
		fmt.Fprintf(&d.sb, "%s/0x%016x", strconv.FormatFloat(f, 'g', -1, 64), math.Float64bits(f))
	case reflect.Complex64, reflect.Complex128:
		fmt.Fprintf(&d.sb, "%v", v.Complex())
	case reflect.String:
		if blank {
			d.sb.WriteString(`""`)
		} else {
			d.sb.WriteString(strconv.Quote(v.String()))
		}
	case reflect.Pointer:
		if v.IsNil() {
			d.sb.WriteString("nil")
			return
		}
		d.sb.WriteString("&")
		d.value(v.Elem(), blank, depth+1)
	case reflect.Interface:
		if v.IsNil() {
			d.sb.WriteString("nil")
			return
		}
		e := v.Elem()
		d.sb.WriteString("(")
		d.sb.WriteString(e.Type().String())
		d.sb.WriteString(")")
		d.value(e, blank, depth+1)
	case reflect.Slice, reflect.Array:
		d.sb.WriteString("[")
		for i := 0; i < v.Len(); i++ {
			if i > 0 {
				d.sb.WriteString(",")
			}
			d.value(v.Index(i), blank, depth+1)
		}
		d.sb.WriteString("]")
	case reflect.Map:
		type kv struct {
			k string
			n int64
			u uint64
			v reflect.Value
		}
		var items []kv
		iter := v.MapRange()
		for iter.Next() {
			kd := &dumper{norm: d.norm}
			kd.value(iter.Key(), false, depth+1)
			it := kv{k: kd.sb.String(), v: iter.Value()}
			switch iter.Key().Kind() {
			case reflect.Int, reflect.Int8, reflect.Int16, reflect.Int32, reflect.Int64:
				it.n = iter.Key().Int()
			case reflect.Uint, reflect.Uint8, reflect.Uint16, reflect.Uint32, reflect.Uint64:
				it.u = iter.Key().Uint()
			}
			items = append(items, it)
		}
		sort.Slice(items, func(i, j int) bool {
			a, b := items[i], items[j]
			if a.n != b.n {
				return a.n < b.n
			}
			if a.u != b.u {
				return a.u < b.u
			}
			return a.k < b.k
		})
		d.sb.WriteString("map{")
		for i, it := range items {
			if i > 0 {
				d.sb.WriteString(",")
			}
			d.sb.WriteString(it.k)
			d.sb.WriteString(":")
			d.value(it.v, blank, depth+1)
		}
		d.sb.WriteString("}")
	case reflect.Struct:
		t := v.Type()
		d.sb.WriteString(t.String())
		d.sb.WriteString("{")
		for i := 0; i < v.NumField(); i++ {
			if i > 0 {
				d.sb.WriteString(",")
			}
			name := t.Field(i).Name
			d.sb.WriteString(name)
			d.sb.WriteString(":")
			b := blank
			if d.norm {
				switch {
				case name == "Name" && t.Field(i).Type.Kind() == reflect.String:
					b = true
				case name == "NamedExpressions" || name == "TypeAliasNames":
					b = true
				}
			}
			d.value(v.Field(i), b, depth+1)
			_ = b
		}
		d.sb.WriteString("}")
	case reflect.Func, reflect.Chan, reflect.UnsafePointer:
		if v.IsNil() {
			d.sb.WriteString("nil")
		} else {
			d.sb.WriteString("<" + v.Kind().String() + ">")
		}
	default:
		fmt.Fprintf(&d.sb, "<%s>", v.Kind())
	}
}
