package irstrict

import (
	"fmt"
	"os"
	"path/filepath"
	"regexp"
	"sort"
	"strings"
	"testing"

	"github.com/gogpu/naga"
	"github.com/gogpu/naga/ir"
)

const corpusDir = "/repo/snapshot/testdata/in"

func lowerSrc(t testing.TB, src string) *ir.Module {
	t.Helper()
	ast, err := naga.Parse(src)
	if err != nil {
		t.Fatalf("parse: %v", err)
	}
	m, err := naga.LowerWithSource(ast, src)
	if err != nil {
		t.Fatalf("lower: %v", err)
	}
	return m
}

func corpusFiles(t testing.TB) []string {
	files, _ := filepath.Glob(filepath.Join(corpusDir, "*.wgsl"))
	sort.Strings(files)
	if len(files) == 0 {
		t.Skip("corpus not available")
	}
	return files
}

// TestCorpus lowers every corpus shader, runs Check(Lowered) and prints the
// Fired / TypesCompared totals plus every remaining finding grouped by rule.
// The remaining findings are the calibrated, investigated ones listed in
// knownCorpusFindings; anything else fails the test.
func TestCorpus(t *testing.T) {
	files := corpusFiles(t)
	fired := map[string]int{}
	compared := map[string]int{}
	byRule := map[string][]string{}
	lowered := 0
	for _, f := range files {
		src, err := os.ReadFile(f)
		if err != nil {
			t.Fatal(err)
		}
		ast, err := naga.Parse(string(src))
		if err != nil {
			t.Logf("%s: parse error (skipped): %v", filepath.Base(f), err)
			continue
		}
		m, err := naga.LowerWithSource(ast, string(src))
		if err != nil {
			t.Logf("%s: lower error (skipped): %v", filepath.Base(f), err)
			continue
		}
		lowered++
		rep := Check(m, Lowered)
		for k, v := range rep.Fired {
			fired[k] += v
		}
		for k, v := range rep.TypesCompared {
			compared[k] += v
		}
		for _, fd := range rep.Findings {
			byRule[fd.Rule] = append(byRule[fd.Rule], fmt.Sprintf("%s: %s: %s", filepath.Base(f), fd.Where, fd.Detail))
		}
	}
	t.Logf("corpus: %d files, %d lowered", len(files), lowered)

	var sb strings.Builder
	sb.WriteString("rule evaluations / findings:\n")
	for _, r := range append(RuleIDs(), "INTERNAL") {
		fmt.Fprintf(&sb, "  %-8s checked=%-7d findings=%d\n", r, fired["checked:"+r], fired[r])
	}
	for _, k := range sortedKeys(fired) {
		if strings.HasPrefix(k, "note:") {
			fmt.Fprintf(&sb, "  %-40s %d\n", k, fired[k])
		}
	}
	sb.WriteString("types compared by expression kind:\n")
	total := 0
	for _, k := range sortedKeys(compared) {
		fmt.Fprintf(&sb, "  %-40s %d\n", k, compared[k])
		if !strings.Contains(k, ":") {
			total += compared[k]
		}
	}
	fmt.Fprintf(&sb, "  total compared: %d\n", total)
	t.Log(sb.String())

	unexpected := 0
	for _, r := range sortedKeys(byRule) {
		t.Logf("--- %s: %d findings", r, len(byRule[r]))
		for _, l := range byRule[r] {
			known := isKnownCorpusFinding(r, l)
			tag := "KNOWN"
			if !known {
				tag = "NEW"
				unexpected++
			}
			t.Logf("  [%s] %s", tag, l)
		}
	}
	if unexpected > 0 {
		t.Errorf("%d corpus findings are not in the investigated known list", unexpected)
	}
	if total < 5000 {
		t.Errorf("only %d expression types compared; typifier coverage collapsed", total)
	}
}

func sortedKeys[V any](m map[string]V) []string {
	ks := make([]string, 0, len(m))
	for k := range m {
		ks = append(ks, k)
	}
	sort.Strings(ks)
	return ks
}

// knownCorpusFindings: substrings (rule, file prefix, detail fragment) of the
// corpus findings that were investigated and judged genuine naga deviations
// from the upstream IR contract (see the package report).
var knownCorpusFindings = []struct{ rule, file, frag string }{
	// ir.Validate rejects `break` inside a switch that is not inside a loop, and
	// rejects two globals sharing @group/@binding module-wide (legal WGSL when
	// they are used by different entry points).
	{"R18", "", "break outside of loop"},
	{"R18", "", "duplicate binding"},
	// The lowerer's Emit ranges cover the Literal operands of constant Compose
	// expressions (upstream emits only the Compose, e.g. Emit(4..5) for
	// swizzle_of_compose where naga emits 0..5).
	{"R6", "", "Literal expression is inside an Emit range"},
	// ExpressionTypes is left empty for Splat expressions created by constant
	// vector constructors such as vec2<f32>(0.5).
	{"R5", "", "ExpressionTypes entry for Splat is empty"},
	// Literals / Compose / Splat concretised in place after their type was
	// recorded: ExpressionTypes keeps the stale type.
	{"R5", "abstract-types-var.wgsl", "recorded type"},
	// `m2 * 2.0` (matrix * abstract float literal) keeps a LiteralAbstractFloat.
	{"R3", "matrices.wgsl", "abstract literal ir.LiteralAbstractFloat(2)"},
	// `positions[0]` on a const array<vec4<f32>,3> is folded to its first
	// scalar: Store of an f32 through a pointer to vec4<f32> (upstream stores
	// the vec4 Compose).
	{"R10", "mesh-shader.wgsl", "store value"},
}

func isKnownCorpusFinding(rule, line string) bool {
	for _, k := range knownCorpusFindings {
		if k.rule == rule && strings.HasPrefix(line, k.file) && strings.Contains(line, k.frag) {
			return true
		}
	}
	return false
}

// TestCorpusPostPass runs the exported IR passes over every corpus module and
// checks the result under the PostPass profile. Findings that the Lowered
// module does not already have are printed (grouped); they are reported, not
// asserted, because pass defects are what the callers of this package hunt
// for. Only INTERNAL findings fail the test.
func TestCorpusPostPass(t *testing.T) {
	files := corpusFiles(t)
	type pass struct {
		name string
		run  func(m *ir.Module) error
	}
	passes := []pass{
		{"CompactUnused", func(m *ir.Module) error { ir.CompactUnused(m); return nil }},
		{"CompactExpressions+Types", func(m *ir.Module) error {
			ir.CompactExpressions(m)
			ir.CompactTypes(m)
			return nil
		}},
		{"InlineUserFunctions", func(m *ir.Module) error { return ir.InlineUserFunctions(m, nil) }},
		{"ProcessOverrides", func(m *ir.Module) error {
			pc := ir.PipelineConstants{}
			for _, o := range m.Overrides {
				if o.Init == nil {
					if o.ID != nil {
						pc[fmt.Sprint(*o.ID)] = 1
					} else {
						pc[o.Name] = 1
					}
				}
			}
			return ir.ProcessOverrides(m, pc)
		}},
	}
	digits := regexp.MustCompile(`[0-9]+`)
	key := func(f Finding) string {
		d := digits.ReplaceAllString(f.Detail, "N")
		if len(d) > 90 {
			d = d[:90]
		}
		return f.Rule + " " + d
	}
	for _, p := range passes {
		newFindings := map[string]int{}
		example := map[string]string{}
		failed := 0
		for _, f := range files {
			src, err := os.ReadFile(f)
			if err != nil {
				t.Fatal(err)
			}
			base := map[string]int{}
			for _, fd := range Check(lowerSrc(t, string(src)), Lowered).Findings {
				base[fd.Rule+"|"+fd.Detail]++
			}
			m := lowerSrc(t, string(src))
			if p.name == "ProcessOverrides" && len(m.Overrides) == 0 {
				continue
			}
			var perr error
			func() {
				defer func() {
					if r := recover(); r != nil {
						perr = fmt.Errorf("pass panicked: %v", r)
					}
				}()
				perr = p.run(m)
			}()
			if perr != nil {
				failed++
				t.Logf("%s: %s: %v", p.name, filepath.Base(f), perr)
				continue
			}
			for _, fd := range Check(m, PostPass).Findings {
				if fd.Rule == "INTERNAL" {
					t.Errorf("%s: %s: %s", p.name, filepath.Base(f), fd)
				}
				if base[fd.Rule+"|"+fd.Detail] > 0 {
					base[fd.Rule+"|"+fd.Detail]--
					continue
				}
				k := key(fd)
				newFindings[k]++
				if _, ok := example[k]; !ok {
					example[k] = filepath.Base(f) + ": " + fd.Where + ": " + fd.Detail
				}
			}
		}
		t.Logf("=== pass %s: %d distinct new finding classes (%d pass errors)", p.name, len(newFindings), failed)
		for _, k := range sortedKeys(newFindings) {
			t.Logf("  x%-4d %s\n        e.g. %s", newFindings[k], k, example[k])
		}
	}
}
