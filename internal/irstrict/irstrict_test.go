package irstrict

import (
	"strings"
	"testing"

	"github.com/gogpu/naga/ir"
)

// A small shader exercising most statement / expression kinds; it lowers to a
// module on which Check(Lowered) is silent (asserted by TestCleanBase).
const baseSrc = `
struct Params { scale: f32, count: u32, dir: vec3<f32> }
struct VOut { @builtin(position) pos: vec4<f32>, @location(0) uv: vec2<f32>, @location(1) @interpolate(flat) id: u32 }

@group(0) @binding(0) var<uniform> params: Params;
@group(0) @binding(1) var<storage, read_write> data: array<f32>;
@group(0) @binding(2) var<storage, read_write> counter: atomic<u32>;
@group(1) @binding(0) var tex: texture_2d<f32>;
@group(1) @binding(1) var samp: sampler;
var<private> acc: f32;
var<workgroup> tile: array<u32, 64>;

fn helper(a: f32, b: vec3<f32>) -> f32 {
    if a > 1.0 {
        return a * b.x;
    }
    return dot(b, b) + a;
}

fn bump(p: ptr<function, f32>) {
    *p = *p + 1.0;
}

@compute @workgroup_size(64)
fn cs(@builtin(global_invocation_id) gid: vec3<u32>, @builtin(local_invocation_index) li: u32) {
    var sum = 0.0;
    var i = 0u;
    loop {
        if i >= params.count { break; }
        sum = sum + data[i] * params.scale;
        continuing { i = i + 1u; }
    }
    bump(&sum);
    tile[li] = gid.x;
    workgroupBarrier();
    let old = atomicAdd(&counter, tile[li]);
    switch old {
        case 0u: { acc = 1.0; }
        case 1u, 2u: { acc = 2.0; }
        default: { acc = helper(sum, params.dir); }
    }
    data[gid.x] = acc + sum;
}

@vertex
fn vs(@builtin(vertex_index) vi: u32, @location(0) p: vec2<f32>) -> VOut {
    var o: VOut;
    o.pos = vec4<f32>(p, 0.0, 1.0);
    o.uv = p * 0.5 + vec2<f32>(0.5);
    o.id = vi;
    return o;
}

@fragment
fn fs(v: VOut) -> @location(0) vec4<f32> {
    let c = textureSample(tex, samp, v.uv);
    return c * params.scale;
}
`

func baseModule(t testing.TB) *ir.Module { return lowerSrc(t, baseSrc) }

func findFn(t testing.TB, m *ir.Module, name string) *ir.Function {
	t.Helper()
	for i := range m.Functions {
		if m.Functions[i].Name == name {
			return &m.Functions[i]
		}
	}
	for i := range m.EntryPoints {
		if m.EntryPoints[i].Name == name {
			return &m.EntryPoints[i].Function
		}
	}
	t.Fatalf("function %q not found", name)
	return nil
}

func rulesOf(rep Report) map[string]int {
	out := map[string]int{}
	for _, f := range rep.Findings {
		out[f.Rule]++
	}
	return out
}

func TestCleanBase(t *testing.T) {
	m := baseModule(t)
	for _, p := range []Profile{Lowered, PostPass, PostMem2Reg} {
		rep := Check(m, p)
		for _, f := range rep.Findings {
			t.Errorf("profile %d: unexpected finding %s", p, f)
		}
		for _, r := range RuleIDs() {
			if rep.Fired["checked:"+r] == 0 {
				t.Errorf("profile %d: rule %s was never evaluated on the base module", p, r)
			}
		}
		if rep.TypesCompared["Load"] == 0 || rep.TypesCompared["Binary"] == 0 {
			t.Errorf("TypesCompared not populated: %v", rep.TypesCompared)
		}
	}
	if got := len(RuleIDs()); got != 18 {
		t.Errorf("RuleIDs: %d", got)
	}
}

func TestNeverPanics(t *testing.T) {
	rep := Check(nil, Lowered)
	if len(rep.Findings) != 1 || rep.Findings[0].Rule != "INTERNAL" {
		t.Errorf("nil module: %v", rep.Findings)
	}
	// A thoroughly broken module: nil kinds, wild handles, nil inner types.
	m := &ir.Module{
		Types:             []ir.Type{{Inner: nil}, {Inner: ir.ArrayType{Base: 7}}, {Inner: ir.StructType{Members: []ir.StructMember{{Type: 99}}}}},
		Constants:         []ir.Constant{{Type: 55, Init: 9}},
		GlobalVariables:   []ir.GlobalVariable{{Type: 42}},
		GlobalExpressions: []ir.Expression{{}, {Kind: ir.ExprCompose{Type: 9, Components: []ir.ExpressionHandle{5}}}},
		Functions: []ir.Function{{
			Name:        "f",
			Arguments:   []ir.FunctionArgument{{Type: 77}},
			Result:      &ir.FunctionResult{Type: 88},
			LocalVars:   []ir.LocalVariable{{Type: 66}},
			Expressions: []ir.Expression{{}, {Kind: ir.ExprLoad{Pointer: 40}}, {Kind: ir.ExprBinary{Left: 2, Right: 3}}, {Kind: ir.ExprCallResult{Function: 9}}},
			Body: ir.Block{
				{}, {Kind: ir.StmtEmit{Range: ir.Range{Start: 5, End: 2}}},
				{Kind: ir.StmtStore{Pointer: 100, Value: 200}},
				{Kind: ir.StmtCall{Function: 12, Arguments: []ir.ExpressionHandle{50}}},
				{Kind: ir.StmtSwitch{Selector: 33, Cases: []ir.SwitchCase{{}}}},
				{Kind: ir.StmtLoop{Body: ir.Block{{Kind: ir.StmtIf{Condition: 1}}}}},
			},
		}},
		EntryPoints: []ir.EntryPoint{{Name: "e", Stage: ir.StageCompute}},
	}
	rep = Check(m, Lowered)
	for _, f := range rep.Findings {
		if f.Rule == "INTERNAL" {
			t.Errorf("internal failure: %s", f)
		}
	}
	if rep.Fired["R1"] == 0 {
		t.Errorf("broken module produced no R1 findings: %v", rep.Findings)
	}
	_ = Dump(m, true)
	_ = Hash(m)
}

// ---------------------------------------------------------------- negative tests

type mutation struct {
	name string
	rule string
	mut  func(t *testing.T, m *ir.Module)
}

func firstExpr(fn *ir.Function, pred func(ir.ExpressionKind) bool) int {
	for i := range fn.Expressions {
		if pred(fn.Expressions[i].Kind) {
			return i
		}
	}
	return -1
}

func firstStmt(b *[]ir.Statement, pred func(ir.StatementKind) bool) (*[]ir.Statement, int) {
	for i := range *b {
		if pred((*b)[i].Kind) {
			return b, i
		}
	}
	for i := range *b {
		switch s := (*b)[i].Kind.(type) {
		case ir.StmtBlock:
			if bb, j := firstStmt((*[]ir.Statement)(&s.Block), pred); bb != nil {
				// blocks are slices: mutate through the copy's backing array
				return bb, j
			}
		case ir.StmtIf:
			if bb, j := firstStmt((*[]ir.Statement)(&s.Accept), pred); bb != nil {
				return bb, j
			}
			if bb, j := firstStmt((*[]ir.Statement)(&s.Reject), pred); bb != nil {
				return bb, j
			}
		case ir.StmtLoop:
			if bb, j := firstStmt((*[]ir.Statement)(&s.Body), pred); bb != nil {
				return bb, j
			}
			if bb, j := firstStmt((*[]ir.Statement)(&s.Continuing), pred); bb != nil {
				return bb, j
			}
		case ir.StmtSwitch:
			for ci := range s.Cases {
				if bb, j := firstStmt((*[]ir.Statement)(&s.Cases[ci].Body), pred); bb != nil {
					return bb, j
				}
			}
		}
	}
	return nil, -1
}

func must(t *testing.T, ok bool, what string) {
	t.Helper()
	if !ok {
		t.Fatalf("mutation setup failed: %s", what)
	}
}

var mutations = []mutation{
	{"type handle out of range", "R1", func(t *testing.T, m *ir.Module) {
		fn := findFn(t, m, "vs")
		fn.LocalVars[0].Type = ir.TypeHandle(len(m.Types) + 3)
	}},
	{"expression operand out of range", "R1", func(t *testing.T, m *ir.Module) {
		fn := findFn(t, m, "helper")
		i := firstExpr(fn, func(k ir.ExpressionKind) bool { _, ok := k.(ir.ExprBinary); return ok })
		must(t, i >= 0, "binary")
		b := fn.Expressions[i].Kind.(ir.ExprBinary)
		b.Right = ir.ExpressionHandle(len(fn.Expressions) + 5)
		fn.Expressions[i].Kind = b
	}},
	{"swap handle forward", "R2", func(t *testing.T, m *ir.Module) {
		fn := findFn(t, m, "helper")
		i := firstExpr(fn, func(k ir.ExpressionKind) bool { _, ok := k.(ir.ExprBinary); return ok })
		must(t, i >= 0 && i+1 < len(fn.Expressions), "binary")
		b := fn.Expressions[i].Kind.(ir.ExprBinary)
		b.Left = ir.ExpressionHandle(i + 1)
		fn.Expressions[i].Kind = b
	}},
	{"type refers forward", "R2", func(t *testing.T, m *ir.Module) {
		for i := range m.Types {
			if a, ok := m.Types[i].Inner.(ir.ArrayType); ok {
				a.Base = ir.TypeHandle(len(m.Types) - 1)
				if int(a.Base) <= i {
					continue
				}
				m.Types[i].Inner = a
				return
			}
		}
		t.Fatal("no array type to mutate")
	}},
	{"abstract literal", "R3", func(t *testing.T, m *ir.Module) {
		fn := findFn(t, m, "helper")
		i := firstExpr(fn, func(k ir.ExpressionKind) bool { _, ok := k.(ir.Literal); return ok })
		must(t, i >= 0, "literal")
		fn.Expressions[i].Kind = ir.Literal{Value: ir.LiteralAbstractFloat(1)}
	}},
	{"abstract scalar type", "R3", func(t *testing.T, m *ir.Module) {
		m.Types = append(m.Types, ir.Type{Inner: ir.VectorType{Size: 2, Scalar: ir.ScalarType{Kind: ir.ScalarAbstractInt, Width: 8}}})
	}},
	{"duplicate anonymous type", "R4", func(t *testing.T, m *ir.Module) {
		for i := range m.Types {
			if _, ok := m.Types[i].Inner.(ir.VectorType); ok && m.Types[i].Name == "" {
				m.Types = append(m.Types, ir.Type{Inner: m.Types[i].Inner})
				return
			}
		}
		t.Fatal("no vector type")
	}},
	{"wrong ExpressionTypes entry", "R5", func(t *testing.T, m *ir.Module) {
		fn := findFn(t, m, "helper")
		i := firstExpr(fn, func(k ir.ExpressionKind) bool { _, ok := k.(ir.ExprBinary); return ok })
		must(t, i >= 0, "binary")
		fn.ExpressionTypes[i] = ir.TypeResolution{Value: ir.VectorType{Size: 3, Scalar: ir.ScalarType{Kind: ir.ScalarUint, Width: 4}}}
	}},
	{"ExpressionTypes too short", "R5", func(t *testing.T, m *ir.Module) {
		fn := findFn(t, m, "helper")
		fn.ExpressionTypes = fn.ExpressionTypes[:len(fn.ExpressionTypes)-1]
	}},
	{"math result type (dot recorded as vector)", "R5", func(t *testing.T, m *ir.Module) {
		fn := findFn(t, m, "helper")
		i := firstExpr(fn, func(k ir.ExpressionKind) bool { e, ok := k.(ir.ExprMath); return ok && e.Fun == ir.MathDot })
		must(t, i >= 0, "dot")
		arg := fn.Expressions[i].Kind.(ir.ExprMath).Arg
		fn.ExpressionTypes[i] = fn.ExpressionTypes[arg]
	}},
	{"drop an emit", "R6", func(t *testing.T, m *ir.Module) {
		fn := findFn(t, m, "helper")
		b, i := firstStmt(&fn.Body, func(k ir.StatementKind) bool { _, ok := k.(ir.StmtEmit); return ok })
		must(t, b != nil, "emit")
		*b = append((*b)[:i:i], (*b)[i+1:]...)
	}},
	{"pre-emit expression inside emit", "R6", func(t *testing.T, m *ir.Module) {
		fn := findFn(t, m, "helper")
		b, i := firstStmt(&fn.Body, func(k ir.StatementKind) bool { _, ok := k.(ir.StmtEmit); return ok })
		must(t, b != nil, "emit")
		(*b)[i].Kind = ir.StmtEmit{Range: ir.Range{Start: 0, End: (*b)[i].Kind.(ir.StmtEmit).Range.End}}
	}},
	{"overlapping emits", "R6", func(t *testing.T, m *ir.Module) {
		fn := findFn(t, m, "helper")
		b, i := firstStmt(&fn.Body, func(k ir.StatementKind) bool { _, ok := k.(ir.StmtEmit); return ok })
		must(t, b != nil, "emit")
		nb := append([]ir.Statement{}, (*b)[:i+1]...)
		nb = append(nb, (*b)[i])
		nb = append(nb, (*b)[i+1:]...)
		*b = nb
	}},
	{"malformed emit range", "R6", func(t *testing.T, m *ir.Module) {
		fn := findFn(t, m, "helper")
		fn.Body = append([]ir.Statement{{Kind: ir.StmtEmit{Range: ir.Range{Start: 3, End: ir.ExpressionHandle(len(fn.Expressions) + 4)}}}}, fn.Body...)
	}},
	{"emit moved into a sibling branch", "R7", func(t *testing.T, m *ir.Module) {
		// helper: `if a > 1.0 {...}`: move the Emit of the condition into the accept block.
		fn := findFn(t, m, "helper")
		b, i := firstStmt(&fn.Body, func(k ir.StatementKind) bool { _, ok := k.(ir.StmtIf); return ok })
		must(t, b != nil && i > 0, "if")
		em, ok := (*b)[i-1].Kind.(ir.StmtEmit)
		must(t, ok, "emit before if")
		ifs := (*b)[i].Kind.(ir.StmtIf)
		ifs.Accept = append(ir.Block{{Kind: em}}, ifs.Accept...)
		nb := append([]ir.Statement{}, (*b)[:i-1]...)
		nb = append(nb, ir.Statement{Kind: ifs})
		nb = append(nb, (*b)[i+1:]...)
		*b = nb
	}},
	{"use before emit", "R7", func(t *testing.T, m *ir.Module) {
		// swap Store and the Emit that precedes it
		fn := findFn(t, m, "bump")
		b, i := firstStmt(&fn.Body, func(k ir.StatementKind) bool { _, ok := k.(ir.StmtStore); return ok })
		must(t, b != nil && i > 0, "store")
		_, ok := (*b)[i-1].Kind.(ir.StmtEmit)
		must(t, ok, "emit before store")
		(*b)[i-1], (*b)[i] = (*b)[i], (*b)[i-1]
	}},
	{"call result bound twice", "R8", func(t *testing.T, m *ir.Module) {
		fn := findFn(t, m, "cs")
		b, i := firstStmt(&fn.Body, func(k ir.StatementKind) bool { c, ok := k.(ir.StmtCall); return ok && c.Result != nil })
		must(t, b != nil, "call with result")
		fn.Body = append(append([]ir.Statement{}, fn.Body...), (*b)[i])
	}},
	{"call result dropped", "R8", func(t *testing.T, m *ir.Module) {
		fn := findFn(t, m, "cs")
		b, i := firstStmt(&fn.Body, func(k ir.StatementKind) bool { c, ok := k.(ir.StmtCall); return ok && c.Result != nil })
		must(t, b != nil, "call with result")
		c := (*b)[i].Kind.(ir.StmtCall)
		c.Result = nil
		(*b)[i].Kind = c
	}},
	{"atomic result of wrong type", "R8", func(t *testing.T, m *ir.Module) {
		fn := findFn(t, m, "cs")
		i := firstExpr(fn, func(k ir.ExpressionKind) bool { _, ok := k.(ir.ExprAtomicResult); return ok })
		must(t, i >= 0, "atomic result")
		var f32h = -1
		for h := range m.Types {
			if s, ok := m.Types[h].Inner.(ir.ScalarType); ok && s.Kind == ir.ScalarFloat {
				f32h = h
			}
		}
		must(t, f32h >= 0, "f32 type")
		fn.Expressions[i].Kind = ir.ExprAtomicResult{Ty: ir.TypeHandle(f32h)}
	}},
	{"missing return", "R9", func(t *testing.T, m *ir.Module) {
		fn := findFn(t, m, "helper")
		must(t, len(fn.Body) > 0, "body")
		_, ok := fn.Body[len(fn.Body)-1].Kind.(ir.StmtReturn)
		must(t, ok, "tail return")
		fn.Body = fn.Body[:len(fn.Body)-1]
	}},
	{"return without value", "R9", func(t *testing.T, m *ir.Module) {
		fn := findFn(t, m, "helper")
		fn.Body[len(fn.Body)-1].Kind = ir.StmtReturn{}
	}},
	{"return of wrong type", "R9", func(t *testing.T, m *ir.Module) {
		fn := findFn(t, m, "helper")
		i := firstExpr(fn, func(k ir.ExpressionKind) bool { a, ok := k.(ir.ExprFunctionArgument); return ok && a.Index == 1 })
		must(t, i >= 0, "vec3 argument")
		h := ir.ExpressionHandle(i)
		fn.Body[len(fn.Body)-1].Kind = ir.StmtReturn{Value: &h}
	}},
	{"store type mismatch", "R10", func(t *testing.T, m *ir.Module) {
		fn := findFn(t, m, "vs")
		b, i := firstStmt(&fn.Body, func(k ir.StatementKind) bool { _, ok := k.(ir.StmtStore); return ok })
		must(t, b != nil, "store")
		s := (*b)[i].Kind.(ir.StmtStore)
		arg := firstExpr(fn, func(k ir.ExpressionKind) bool { a, ok := k.(ir.ExprFunctionArgument); return ok && a.Index == 0 })
		must(t, arg >= 0, "u32 arg")
		s.Value = ir.ExpressionHandle(arg)
		(*b)[i].Kind = s
	}},
	{"store into uniform", "R10", func(t *testing.T, m *ir.Module) {
		for i := range m.GlobalVariables {
			if m.GlobalVariables[i].Name == "data" {
				m.GlobalVariables[i].Access = ir.StorageRead
				return
			}
		}
		t.Fatal("no data global")
	}},
	{"call argument count", "R11", func(t *testing.T, m *ir.Module) {
		fn := findFn(t, m, "cs")
		b, i := firstStmt(&fn.Body, func(k ir.StatementKind) bool { c, ok := k.(ir.StmtCall); return ok && len(c.Arguments) == 2 })
		must(t, b != nil, "call")
		c := (*b)[i].Kind.(ir.StmtCall)
		c.Arguments = c.Arguments[:1]
		(*b)[i].Kind = c
	}},
	{"call argument type", "R11", func(t *testing.T, m *ir.Module) {
		fn := findFn(t, m, "cs")
		b, i := firstStmt(&fn.Body, func(k ir.StatementKind) bool { c, ok := k.(ir.StmtCall); return ok && len(c.Arguments) == 2 })
		must(t, b != nil, "call")
		c := (*b)[i].Kind.(ir.StmtCall)
		c.Arguments = []ir.ExpressionHandle{c.Arguments[1], c.Arguments[0]}
		(*b)[i].Kind = c
	}},
	{"if condition not bool", "R12", func(t *testing.T, m *ir.Module) {
		fn := findFn(t, m, "helper")
		b, i := firstStmt(&fn.Body, func(k ir.StatementKind) bool { _, ok := k.(ir.StmtIf); return ok })
		must(t, b != nil, "if")
		s := (*b)[i].Kind.(ir.StmtIf)
		arg := firstExpr(fn, func(k ir.ExpressionKind) bool { _, ok := k.(ir.ExprFunctionArgument); return ok })
		s.Condition = ir.ExpressionHandle(arg)
		(*b)[i].Kind = s
	}},
	{"duplicate switch case", "R12", func(t *testing.T, m *ir.Module) {
		fn := findFn(t, m, "cs")
		b, i := firstStmt(&fn.Body, func(k ir.StatementKind) bool { _, ok := k.(ir.StmtSwitch); return ok })
		must(t, b != nil, "switch")
		s := (*b)[i].Kind.(ir.StmtSwitch)
		s.Cases = append([]ir.SwitchCase{{Value: ir.SwitchValueU32(0), Body: ir.Block{}}}, s.Cases...)
		(*b)[i].Kind = s
	}},
	{"switch without default", "R12", func(t *testing.T, m *ir.Module) {
		fn := findFn(t, m, "cs")
		b, i := firstStmt(&fn.Body, func(k ir.StatementKind) bool { _, ok := k.(ir.StmtSwitch); return ok })
		must(t, b != nil, "switch")
		s := (*b)[i].Kind.(ir.StmtSwitch)
		var cs []ir.SwitchCase
		for _, c := range s.Cases {
			if _, isDef := c.Value.(ir.SwitchValueDefault); !isDef {
				cs = append(cs, c)
			}
		}
		s.Cases = cs
		(*b)[i].Kind = s
	}},
	{"switch case signedness", "R12", func(t *testing.T, m *ir.Module) {
		fn := findFn(t, m, "cs")
		b, i := firstStmt(&fn.Body, func(k ir.StatementKind) bool { _, ok := k.(ir.StmtSwitch); return ok })
		must(t, b != nil, "switch")
		s := (*b)[i].Kind.(ir.StmtSwitch)
		s.Cases = append([]ir.SwitchCase{{Value: ir.SwitchValueI32(77), Body: ir.Block{}}}, s.Cases...)
		(*b)[i].Kind = s
	}},
	{"break outside loop", "R12", func(t *testing.T, m *ir.Module) {
		fn := findFn(t, m, "bump")
		fn.Body = append([]ir.Statement{{Kind: ir.StmtBreak{}}}, fn.Body...)
	}},
	{"continue in continuing", "R12", func(t *testing.T, m *ir.Module) {
		fn := findFn(t, m, "cs")
		b, i := firstStmt(&fn.Body, func(k ir.StatementKind) bool { _, ok := k.(ir.StmtLoop); return ok })
		must(t, b != nil, "loop")
		l := (*b)[i].Kind.(ir.StmtLoop)
		l.Continuing = append(append(ir.Block{}, l.Continuing...), ir.Statement{Kind: ir.StmtContinue{}})
		(*b)[i].Kind = l
	}},
	{"return in continuing", "R12", func(t *testing.T, m *ir.Module) {
		fn := findFn(t, m, "cs")
		b, i := firstStmt(&fn.Body, func(k ir.StatementKind) bool { _, ok := k.(ir.StmtLoop); return ok })
		must(t, b != nil, "loop")
		l := (*b)[i].Kind.(ir.StmtLoop)
		l.Continuing = append(append(ir.Block{}, l.Continuing...), ir.Statement{Kind: ir.StmtReturn{}})
		(*b)[i].Kind = l
	}},
	{"access index out of bounds", "R13", func(t *testing.T, m *ir.Module) {
		fn := findFn(t, m, "helper")
		i := firstExpr(fn, func(k ir.ExpressionKind) bool { _, ok := k.(ir.ExprAccessIndex); return ok })
		must(t, i >= 0, "access index")
		a := fn.Expressions[i].Kind.(ir.ExprAccessIndex)
		a.Index = 3 // b.x on a vec3 -> index 3
		fn.Expressions[i].Kind = a
	}},
	{"access with float index", "R13", func(t *testing.T, m *ir.Module) {
		fn := findFn(t, m, "cs")
		i := firstExpr(fn, func(k ir.ExpressionKind) bool { _, ok := k.(ir.ExprAccess); return ok })
		must(t, i >= 0, "access")
		lit := firstExpr(fn, func(k ir.ExpressionKind) bool {
			l, ok := k.(ir.Literal)
			if !ok {
				return false
			}
			_, isF := l.Value.(ir.LiteralF32)
			return isF
		})
		must(t, lit >= 0 && lit < i, "float literal before access")
		a := fn.Expressions[i].Kind.(ir.ExprAccess)
		a.Index = ir.ExpressionHandle(lit)
		fn.Expressions[i].Kind = a
	}},
	{"duplicate location", "R14", func(t *testing.T, m *ir.Module) {
		for i := range m.Types {
			if m.Types[i].Name == "VOut" {
				st := m.Types[i].Inner.(ir.StructType)
				mem := append([]ir.StructMember{}, st.Members...)
				var b ir.Binding = ir.LocationBinding{Location: 0}
				mem[2].Binding = &b
				st.Members = mem
				m.Types[i].Inner = st
				return
			}
		}
		t.Fatal("no VOut")
	}},
	{"missing binding", "R14", func(t *testing.T, m *ir.Module) {
		fn := findFn(t, m, "vs")
		fn.Arguments[1].Binding = nil
	}},
	{"builtin illegal for stage", "R14", func(t *testing.T, m *ir.Module) {
		fn := findFn(t, m, "vs")
		var b ir.Binding = ir.BuiltinBinding{Builtin: ir.BuiltinFragDepth}
		fn.Arguments[0].Binding = &b
	}},
	{"duplicate builtin", "R14", func(t *testing.T, m *ir.Module) {
		fn := findFn(t, m, "cs")
		fn.Arguments[1].Binding = fn.Arguments[0].Binding
	}},
	{"zero workgroup size", "R14", func(t *testing.T, m *ir.Module) {
		for i := range m.EntryPoints {
			if m.EntryPoints[i].Stage == ir.StageCompute {
				m.EntryPoints[i].Workgroup[1] = 0
			}
		}
	}},
	{"binding collision inside one entry point", "R14", func(t *testing.T, m *ir.Module) {
		for i := range m.GlobalVariables {
			if m.GlobalVariables[i].Name == "counter" {
				m.GlobalVariables[i].Binding = &ir.ResourceBinding{Group: 0, Binding: 1}
			}
		}
	}},
	{"alias expression after lowering", "R15", func(t *testing.T, m *ir.Module) {
		fn := findFn(t, m, "helper")
		i := firstExpr(fn, func(k ir.ExpressionKind) bool { _, ok := k.(ir.ExprLoad); return ok })
		if i < 0 {
			fn = findFn(t, m, "bump")
			i = firstExpr(fn, func(k ir.ExpressionKind) bool { _, ok := k.(ir.ExprLoad); return ok })
		}
		must(t, i > 0, "load")
		fn.Expressions[i].Kind = ir.ExprAlias{Source: ir.ExpressionHandle(i - 1)}
	}},
	{"resource without binding", "R16", func(t *testing.T, m *ir.Module) {
		m.GlobalVariables[0].Binding = nil
	}},
	{"private with binding", "R16", func(t *testing.T, m *ir.Module) {
		for i := range m.GlobalVariables {
			if m.GlobalVariables[i].Space == ir.SpacePrivate {
				m.GlobalVariables[i].Binding = &ir.ResourceBinding{Group: 3, Binding: 3}
			}
		}
	}},
	{"runtime array in uniform", "R16", func(t *testing.T, m *ir.Module) {
		for i := range m.GlobalVariables {
			if m.GlobalVariables[i].Name == "data" {
				m.GlobalVariables[i].Space = ir.SpaceUniform
			}
		}
	}},
	{"texture in private space", "R16", func(t *testing.T, m *ir.Module) {
		for i := range m.GlobalVariables {
			if m.GlobalVariables[i].Name == "tex" {
				m.GlobalVariables[i].Space = ir.SpacePrivate
				m.GlobalVariables[i].Binding = nil
			}
		}
	}},
	{"struct member overlap", "R17", func(t *testing.T, m *ir.Module) {
		for i := range m.Types {
			if m.Types[i].Name == "Params" {
				st := m.Types[i].Inner.(ir.StructType)
				mem := append([]ir.StructMember{}, st.Members...)
				mem[1].Offset = 2
				st.Members = mem
				m.Types[i].Inner = st
				return
			}
		}
		t.Fatal("no Params")
	}},
	{"struct member misaligned", "R17", func(t *testing.T, m *ir.Module) {
		for i := range m.Types {
			if m.Types[i].Name == "Params" {
				st := m.Types[i].Inner.(ir.StructType)
				mem := append([]ir.StructMember{}, st.Members...)
				mem[2].Offset = 12 // vec3<f32> needs 16
				st.Members = mem
				m.Types[i].Inner = st
				return
			}
		}
		t.Fatal("no Params")
	}},
	{"struct span too small", "R17", func(t *testing.T, m *ir.Module) {
		for i := range m.Types {
			if m.Types[i].Name == "Params" {
				st := m.Types[i].Inner.(ir.StructType)
				st.Span = 20
				m.Types[i].Inner = st
				return
			}
		}
		t.Fatal("no Params")
	}},
	{"array stride", "R17", func(t *testing.T, m *ir.Module) {
		for i := range m.Types {
			if a, ok := m.Types[i].Inner.(ir.ArrayType); ok {
				a.Stride += 4
				m.Types[i].Inner = a
				return
			}
		}
		t.Fatal("no array")
	}},
	{"ir.Validate complains", "R18", func(t *testing.T, m *ir.Module) {
		m.EntryPoints[0].Name = ""
	}},
}

func TestNegative(t *testing.T) {
	seenRule := map[string]bool{}
	for _, mu := range mutations {
		mu := mu
		t.Run(mu.name, func(t *testing.T) {
			m := baseModule(t)
			mu.mut(t, m)
			rep := Check(m, Lowered)
			got := rulesOf(rep)
			if got[mu.rule] == 0 {
				t.Errorf("mutation %q: rule %s did not fire; findings: %v", mu.name, mu.rule, rep.Findings)
			}
			if got["INTERNAL"] != 0 {
				t.Errorf("mutation %q: INTERNAL finding: %v", mu.name, rep.Findings)
			}
			if rep.Fired[mu.rule] != got[mu.rule] {
				t.Errorf("Fired[%s]=%d but %d findings", mu.rule, rep.Fired[mu.rule], got[mu.rule])
			}
		})
		seenRule[mu.rule] = true
	}
	for _, r := range RuleIDs() {
		if !seenRule[r] {
			t.Errorf("no negative test for rule %s", r)
		}
	}
}

// The DXIL-only kinds are accepted (and typed transparently) after mem2reg.
func TestPostMem2RegAlias(t *testing.T) {
	m := baseModule(t)
	fn := findFn(t, m, "bump")
	i := firstExpr(fn, func(k ir.ExpressionKind) bool { _, ok := k.(ir.ExprLoad); return ok })
	if i < 0 {
		t.Fatal("no load")
	}
	// Replace `*p` by an alias of a fresh literal appended at the END of the
	// arena (a forward reference, as mem2reg produces for zero values).
	fn.Expressions = append(fn.Expressions, ir.Expression{Kind: ir.Literal{Value: ir.LiteralF32(0)}})
	fn.ExpressionTypes = append(fn.ExpressionTypes, ir.TypeResolution{Value: ir.ScalarType{Kind: ir.ScalarFloat, Width: 4}})
	fn.Expressions[i].Kind = ir.ExprAlias{Source: ir.ExpressionHandle(len(fn.Expressions) - 1)}
	if rep := Check(m, PostMem2Reg); len(rep.Findings) != 0 {
		t.Errorf("PostMem2Reg: unexpected findings %v", rep.Findings)
	}
	got := rulesOf(Check(m, PostPass))
	if got["R15"] == 0 || got["R2"] == 0 {
		t.Errorf("PostPass should reject the alias (R15) and its forward reference (R2): %v", got)
	}
}

// ---------------------------------------------------------------- specific typifier cases

func TestTypifierMatrixAndPointerRules(t *testing.T) {
	src := `
struct S { m: mat3x2<f32>, v: vec4<i32>, a: array<vec2<u32>, 3> }
@group(0) @binding(0) var<storage, read_write> s: S;
@compute @workgroup_size(1)
fn main(@builtin(local_invocation_index) i: u32) {
    let m = s.m;
    let t = transpose(m);          // mat2x3
    let p = t * m;                 // mat3x3? (2x3 * 3x2): columns of right, rows of left
    let d = determinant(p);
    let o = outerProduct(vec2<f32>(1.0, 2.0), vec3<f32>(1.0, 2.0, 3.0));
    let mv = m * vec3<f32>(1.0);   // vec2
    let vm = vec2<f32>(1.0) * m;   // vec3
    let l = length(mv) + distance(mv, mv) + dot(vm, vm) + d + o[0][0];
    s.m[i][1] = l;                 // pointer -> matrix column -> component
    s.v[i] = i32(i);
    s.a[i].x = arrayLength(&s.a);
    let cmp = s.v < vec4<i32>(1);
    let fr = frexp(l);
    let mo = modf(mv);
    s.v.y = select(fr.exp, 3, all(cmp)) + i32(mo.whole.x);
    let pk = pack4x8unorm(vec4<f32>(l));
    let up = unpack2x16float(pk);
    s.m[0] = up + vec2<f32>(f32(countOneBits(pk)), f32(firstLeadingBit(s.v.x)));
    let sh = s.a[0] << vec2<u32>(1u);
    s.a[1] = sh;
}
`
	// arrayLength on a fixed array is invalid WGSL; drop that line if lowering rejects it.
	src = strings.Replace(src, "s.a[i].x = arrayLength(&s.a);", "s.a[i].x = i;", 1)
	m := lowerSrc(t, src)
	rep := Check(m, Lowered)
	for _, f := range rep.Findings {
		// naga records wrong types for transpose / determinant / outerProduct
		// (and whatever consumes them); those R5 findings are genuine. Nothing
		// else may fire here.
		if f.Rule != "R5" && f.Rule != "R18" {
			t.Errorf("unexpected finding: %s", f)
		}
	}
	if rep.TypesCompared["Math"] < 10 {
		t.Errorf("Math types compared: %d", rep.TypesCompared["Math"])
	}

	// Inspect the typifier directly.
	c := &checker{m: m, rep: &Report{Fired: map[string]int{}, TypesCompared: map[string]int{}}}
	c.checkTypes()
	fn := &m.EntryPoints[0].Function
	tf := c.newTypifier(fn.Expressions, fn)
	tf.run()
	f32 := ir.ScalarType{Kind: ir.ScalarFloat, Width: 4}
	want := func(desc string, pred func(ir.ExpressionKind) bool, wantTy ir.TypeInner) {
		t.Helper()
		n := 0
		for i, e := range fn.Expressions {
			if !pred(e.Kind) {
				continue
			}
			n++
			if !tf.types[i].ok() {
				t.Errorf("%s (expr %d): untypable: %s", desc, i, tf.why[i])
			} else if !c.eqInner(tf.types[i].inner, wantTy, 0) {
				t.Errorf("%s (expr %d): typifier says %s, want %s", desc, i, c.tyStr(tf.types[i]), c.innerStr(wantTy, 0))
			}
		}
		if n == 0 {
			t.Errorf("%s: no such expression in the lowered function", desc)
		}
	}
	math := func(f ir.MathFunction) func(ir.ExpressionKind) bool {
		return func(k ir.ExpressionKind) bool { e, ok := k.(ir.ExprMath); return ok && e.Fun == f }
	}
	want("transpose(mat3x2)", math(ir.MathTranspose), ir.MatrixType{Columns: 2, Rows: 3, Scalar: f32})
	want("determinant", math(ir.MathDeterminant), f32)
	want("outerProduct(vec2,vec3)", math(ir.MathOuter), ir.MatrixType{Columns: 2, Rows: 3, Scalar: f32})
	want("length", math(ir.MathLength), f32)
	want("distance", math(ir.MathDistance), f32)
	want("dot", math(ir.MathDot), f32)
	want("pack4x8unorm", math(ir.MathPack4x8unorm), ir.ScalarType{Kind: ir.ScalarUint, Width: 4})
	want("unpack2x16float", math(ir.MathUnpack2x16float), ir.VectorType{Size: 2, Scalar: f32})
	want("countOneBits", math(ir.MathCountOneBits), ir.ScalarType{Kind: ir.ScalarUint, Width: 4})
	want("firstLeadingBit", math(ir.MathFirstLeadingBit), ir.ScalarType{Kind: ir.ScalarSint, Width: 4})
	want("all", func(k ir.ExpressionKind) bool { e, ok := k.(ir.ExprRelational); return ok && e.Fun == ir.RelationalAll },
		ir.ScalarType{Kind: ir.ScalarBool, Width: 1})
	want("vec4<i32> < vec4<i32>", func(k ir.ExpressionKind) bool { e, ok := k.(ir.ExprBinary); return ok && e.Op == ir.BinaryLess },
		ir.VectorType{Size: 4, Scalar: ir.ScalarType{Kind: ir.ScalarBool, Width: 1}})
	want("shift", func(k ir.ExpressionKind) bool { e, ok := k.(ir.ExprBinary); return ok && e.Op == ir.BinaryShiftLeft },
		ir.VectorType{Size: 2, Scalar: ir.ScalarType{Kind: ir.ScalarUint, Width: 4}})

	// Multiply: collect the set of result types.
	got := map[string]bool{}
	for i, e := range fn.Expressions {
		if b, ok := e.Kind.(ir.ExprBinary); ok && b.Op == ir.BinaryMultiply && tf.types[i].ok() {
			got[c.innerStr(tf.types[i].inner, 0)] = true
		}
	}
	for _, w := range []string{"mat3x3<f32>", "vec2<f32>", "vec3<f32>"} {
		if !got[w] {
			t.Errorf("no Multiply typed %s; got %v", w, got)
		}
	}

	// Pointer chains: s.m[i][1] is pointer->matrix->column->component.
	sawColPtr, sawScalarPtr := false, false
	for i := range fn.Expressions {
		if vp, ok := tf.types[i].inner.(ir.ValuePointerType); ok {
			if vp.Size != nil && *vp.Size == 2 && vp.Space == ir.SpaceStorage {
				sawColPtr = true
			}
			if vp.Size == nil && vp.Space == ir.SpaceStorage {
				sawScalarPtr = true
			}
		}
	}
	if !sawColPtr || !sawScalarPtr {
		t.Errorf("value pointers: column=%v scalar=%v", sawColPtr, sawScalarPtr)
	}
}
