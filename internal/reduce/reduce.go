// Package reduce: line/block based greedy reducer for WGSL sources printed by wgen (one statement per line).
package reduce

import "strings"

// Lines removes lines (or whole brace-balanced blocks starting at a line ending in "{") while keep(src) stays true.
func Lines(src string, keep func(string) bool) string {
	lines := strings.Split(src, "\n")
	changed := true
	for rounds := 0; changed && rounds < 8; rounds++ {
		changed = false
		for i := 0; i < len(lines); i++ {
			if strings.TrimSpace(lines[i]) == "" {
				continue
			}
			// candidate: single line, or block
			end := i
			if strings.HasSuffix(strings.TrimSpace(lines[i]), "{") {
				depth := 0
				for j := i; j < len(lines); j++ {
					depth += strings.Count(lines[j], "{") - strings.Count(lines[j], "}")
					if depth == 0 {
						end = j
						break
					}
				}
				// "} else {" continuation: extend through the else chain
				for end+0 < len(lines) && strings.HasSuffix(strings.TrimSpace(lines[end]), "{") && end != i {
					depth := 0
					k := end
					for j := k; j < len(lines); j++ {
						depth += strings.Count(lines[j], "{") - strings.Count(lines[j], "}")
						if j > k && depth <= 0 {
							end = j
							break
						}
					}
					if end == k {
						break
					}
				}
			}
			cand := append(append([]string{}, lines[:i]...), lines[end+1:]...)
			s := strings.Join(cand, "\n")
			if keep(s) {
				lines = cand
				changed = true
				i--
				continue
			}
			// try unwrapping a block: keep the body, drop the header and closing line
			if end > i+1 {
				cand = append(append(append([]string{}, lines[:i]...), lines[i+1:end]...), lines[end+1:]...)
				s = strings.Join(cand, "\n")
				if keep(s) {
					lines = cand
					changed = true
					i--
				}
			}
		}
	}
	return strings.Join(lines, "\n")
}
