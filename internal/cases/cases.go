// Package cases builds executable test cases shared by the execution-based checks (C01, C03–C07, C13–C16):
// a generated program, its inputs, wref's expected final buffers, and the byte images the interpreters run on.
package cases

import (
	"fmt"
	"math"
	"sort"
	"strings"

	"verif/internal/run"
	"verif/internal/wgen"
	"verif/internal/wlayout"
	"verif/internal/wref"
	"verif/internal/xrt"
)

// Case is one (program, input) pair with the reference outcome.
type Case struct {
	Seed   uint64
	Prog   *wgen.Program
	Src    string
	Print  *wgen.Printed
	Entry  *wgen.Func
	In     wref.Input
	Exp    wref.Output
	ExpErr error
}

// Generate builds a program with the given config (ConstOK is wired to wref).
func Generate(seed uint64, cfg wgen.Config) *wgen.Program {
	g := wgen.New(seed, cfg)
	g.Cfg.ConstOK = wref.ConstOK(g.M)
	p := g.Generate()
	p.Seed = seed
	return p
}

var i32Vals = []uint32{0, 1, 0xFFFFFFFF, 2, 3, 7, 8, 31, 32, 33, 0x7FFFFFFF, 0x80000000, 0x80000001, 100, 255, 0xFFFFFFFE, 5, 6, 16, 64}
var f32Vals = []float32{0, 1, -1, 0.5, -0.5, 2, -2, 0.25, 1.5, -1.5, 3, 4, 10, -10, 0.125, 7, 100, -3.5, 2.5, 16, 0.75, -0.25, 255, 1024}

// MakeInput draws buffer contents: a mixture of boundary values and PRNG words (floats: small dyadic rationals).
func MakeInput(m *wgen.Module, r *run.Rng) wref.Input {
	in := wref.Input{Bufs: map[*wgen.Var][]wref.Sc{}, RT: map[*wgen.Var]int{}}
	for _, g := range m.Globals() {
		if g.Space != "storage" && g.Space != "uniform" {
			continue
		}
		rt := 0
		if g.Ty.HasRuntimeArray() {
			// the binding size is the (padded) size of the store type with rt elements; arrayLength is derived from the binding
			// size, so padding at the end of the struct may hold further elements (WGSL: floor((size - offset) / stride)).
			rt = wlayout.RuntimeCount(g.Ty, wlayout.SizeOfRT(g.Ty, r.Range(1, 4)))
			in.RT[g] = rt
		}
		ls := wlayout.Leaves(g.Ty, rt)
		cells := make([]wref.Sc, len(ls))
		for i, l := range ls {
			var b uint32
			switch l.Kind {
			case wgen.KF32:
				if r.Chance(3, 4) {
					b = math.Float32bits(f32Vals[r.Intn(len(f32Vals))])
				} else {
					b = math.Float32bits(float32(r.Range(-256, 256)) / float32(int(1)<<uint(r.Intn(4))))
				}
			default:
				if r.Chance(2, 3) {
					b = i32Vals[r.Intn(len(i32Vals))]
				} else {
					b = r.U32() >> uint(r.Intn(30))
				}
			}
			cells[i] = wref.Sc{B: uint64(b)}
		}
		in.Bufs[g] = cells
	}
	return in
}

// Slot of a global in SPIR-V / IR terms.
func SlotOf(g *wgen.Var) xrt.Slot { return xrt.Slot{A: uint32(g.Group), B: uint32(g.Binding)} }

// Image renders the byte image of a global from scalar leaves using the WGSL layout. Padding bytes are 0xCD.
func Image(g *wgen.Var, cells []wref.Sc, rt int) []byte {
	size := wlayout.SizeOfRT(g.Ty, rt)
	if off, stride, ok := wlayout.TailInfo(g.Ty); ok {
		// keep arrayLength == rt exactly: do not let struct tail padding add room for another element
		size = off + rt*stride
		if r := size % 4; r != 0 {
			size += 4 - r
		}
	}
	b := make([]byte, size)
	for i := range b {
		b[i] = 0xCD
	}
	for i, l := range wlayout.Leaves(g.Ty, rt) {
		wlayout.Put32(b, l.Off, uint32(cells[i].B))
	}
	return b
}

// Buffers builds the input byte images keyed by (group, binding).
func Buffers(m *wgen.Module, in wref.Input) xrt.Buffers {
	bufs := xrt.Buffers{}
	for _, g := range m.Globals() {
		if c, ok := in.Bufs[g]; ok {
			bufs[SlotOf(g)] = Image(g, c, in.RT[g])
		}
	}
	return bufs
}

// Diff describes the first mismatching leaf.
type Diff struct {
	Global string
	Path   string
	Off    int
	Want   uint32
	Got    uint32
	Class  string
}

func (d Diff) String() string {
	return fmt.Sprintf("%s%s @%d: want 0x%08X got 0x%08X (%s)", d.Global, d.Path, d.Off, d.Want, d.Got, d.Class)
}

// Stats of a comparison.
type Stats struct {
	Exact, Tolerant, Skipped, Changed int
}

// Compare checks observed byte images of the writable storage buffers against wref's expectation.
// get returns the observed bytes for a global (nil = not available).
func Compare(m *wgen.Module, in wref.Input, exp wref.Output, get func(g *wgen.Var) []byte) (diffs []Diff, st Stats) {
	for _, g := range m.Globals() {
		if g.Space != "storage" || g.Access != "read_write" {
			continue
		}
		obs := get(g)
		if obs == nil {
			continue
		}
		want := exp.Bufs[g]
		init := in.Bufs[g]
		for i, l := range wlayout.Leaves(g.Ty, in.RT[g]) {
			w := want[i]
			if l.Off+4 > len(obs) {
				diffs = append(diffs, Diff{Global: g.Name, Path: l.Path, Off: l.Off, Class: "buffer-too-short"})
				continue
			}
			got := wlayout.Get32(obs, l.Off)
			if w.Ind {
				st.Skipped++
				continue
			}
			if uint32(w.B) != uint32(init[i].B) {
				st.Changed++
			}
			if w.Tol == 0 {
				st.Exact++
				if got != uint32(w.B) && !(l.Kind == wgen.KF32 && (got|uint32(w.B))&0x7FFFFFFF == 0) {
					// (the sign of a zero result is not pinned down by WGSL: +0 and -0 are accepted for each other)
					diffs = append(diffs, Diff{Global: g.Name, Path: l.Path, Off: l.Off, Want: uint32(w.B), Got: got, Class: "exact"})
				}
				continue
			}
			st.Tolerant++
			if !within(uint32(w.B), got, w.Tol) {
				diffs = append(diffs, Diff{Global: g.Name, Path: l.Path, Off: l.Off, Want: uint32(w.B), Got: got, Class: fmt.Sprintf("tol%d", w.Tol)})
			}
		}
	}
	return
}

func within(want, got uint32, tol uint16) bool {
	if want == got {
		return true
	}
	fw, fg := float64(math.Float32frombits(want)), float64(math.Float32frombits(got))
	if math.IsNaN(fg) || math.IsInf(fg, 0) {
		return false
	}
	if tol == 0xFFFF { // absolute-error class (sin/cos/asin/acos): 2^-11 plus slack
		return math.Abs(fw-fg) <= 1.0/1024
	}
	// ulp distance on the ordered-int representation
	ow, og := ordered(want), ordered(got)
	d := ow - og
	if d < 0 {
		d = -d
	}
	return d <= int64(tol)+1
}

func ordered(b uint32) int64 {
	if b&0x80000000 != 0 {
		return -int64(b & 0x7FFFFFFF)
	}
	return int64(b)
}

// FeatureSig builds the distinctness signature from generator features and executed coverage keys.
func FeatureSig(parts ...map[string]int) string {
	set := map[string]bool{}
	for _, p := range parts {
		for k := range p {
			set[k] = true
		}
	}
	return run.SigOf(set)
}

func FeatKeys(f map[string]bool) map[string]int {
	m := map[string]int{}
	for k := range f {
		m["gen:"+k] = 1
	}
	return m
}

// DescribeInput renders an input for witnesses.
func DescribeInput(m *wgen.Module, in wref.Input) map[string]any {
	out := map[string]any{}
	for _, g := range m.Globals() {
		if c, ok := in.Bufs[g]; ok {
			ws := make([]string, len(c))
			for i, s := range c {
				ws[i] = fmt.Sprintf("%08X", uint32(s.B))
			}
			out[g.Name] = map[string]any{"group": g.Group, "binding": g.Binding, "rt": in.RT[g], "leaves": strings.Join(ws, " ")}
		}
	}
	return out
}

func SortedKeys(m map[string]int) []string {
	ks := make([]string, 0, len(m))
	for k := range m {
		ks = append(ks, k)
	}
	sort.Strings(ks)
	return ks
}
