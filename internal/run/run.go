package run

import (
	"crypto/sha256"
	"encoding/hex"
	"encoding/json"
	"fmt"
	"os"
	"path/filepath"
	"runtime"
	"runtime/debug"
	"sort"
	"strconv"
	"strings"
	"sync"
	"time"
)

// Verdict of one monitored case.
type Verdict int

const (
	Held Verdict = iota
	Violated
	Inconclusive
)

// Outcome is what a case function returns.
type Outcome struct {
	V       Verdict
	Reason  string         // inconclusive reason or violation summary (one line)
	Sig     string         // feature signature of what was actually executed/observed (distinctness)
	Trivial bool           // held but trivial by the check's rule
	Witness map[string]any // replay payload for violations (source, inputs, config, expected/observed…)
	Class   string         // violation class used for known-finding matching & dedup
	Cov     map[string]int // counters merged into evidence (opcodes executed, rules fired…)
	Sample  any            // optional: a written-out case for evidence.samples
}

// Ctx carries the run configuration of one check invocation.
type Ctx struct {
	Prop      string
	Tier      string // quick | thorough
	Seed      uint64
	Start     time.Time
	Verif     string // /verif root
	Replay    string // replay file (re-run exactly that case)
	mu        sync.Mutex
	evals     int
	sigs      map[string]bool
	incon     map[string]int
	cov       map[string]int
	samples   []any
	viols     []violation
	known     []Known
	knownHit  map[string]int
	notes     []string
	extra     map[string]any
	reduced   int
	redClass  map[string]int
	knownSeen [][2]string
}

type violation struct {
	class  string
	reason string
	path   string
}

func NewCtx(prop, tier string) *Ctx {
	seed := uint64(1)
	if s := os.Getenv("VERIF_SEED"); s != "" {
		if v, err := strconv.ParseUint(s, 10, 64); err == nil {
			seed = v
		}
	}
	root := os.Getenv("VERIF_ROOT")
	if root == "" {
		root, _ = os.Getwd()
	}
	c := &Ctx{Prop: prop, Tier: tier, Seed: seed, Start: time.Now(), Verif: root,
		sigs: map[string]bool{}, incon: map[string]int{}, cov: map[string]int{}, knownHit: map[string]int{}, extra: map[string]any{}}
	c.known = LoadKnown(filepath.Join(root, "KNOWN_FINDINGS"), prop)
	return c
}

func (c *Ctx) Quick() bool { return c.Tier != "thorough" }

// KnownMatch reports whether a violation of this class/reason is attributed to a listed known finding (and counts it).
func (c *Ctx) KnownMatch(class, reason string) bool {
	c.mu.Lock()
	defer c.mu.Unlock()
	for _, k := range c.known {
		if !k.Fixed && k.Matches(class, reason) {
			c.knownHit[k.ID]++
			return true
		}
	}
	return false
}

// KnownPeek is KnownMatch without counting (used while reducing a witness).
func (c *Ctx) KnownPeek(class, reason string) bool {
	c.mu.Lock()
	defer c.mu.Unlock()
	for _, k := range c.known {
		if !k.Fixed && k.Matches(class, reason) {
			return true
		}
	}
	return false
}

// TakeReduceSlotFor limits reductions per violation class (2) and overall (VERIF_REDUCE or 12).
func (c *Ctx) TakeReduceSlotFor(class string) bool {
	c.mu.Lock()
	defer c.mu.Unlock()
	limit := 12
	if v, err := strconv.Atoi(os.Getenv("VERIF_REDUCE")); err == nil {
		limit = v
	}
	if c.redClass == nil {
		c.redClass = map[string]int{}
	}
	if c.reduced >= limit || c.redClass[class] >= 2 {
		return false
	}
	c.reduced++
	c.redClass[class]++
	return true
}

// TakeReduceSlot returns true for the first few violations of a run: those get their witness reduced.
func (c *Ctx) TakeReduceSlot() bool {
	c.mu.Lock()
	defer c.mu.Unlock()
	limit := 6
	if v, err := strconv.Atoi(os.Getenv("VERIF_REDUCE")); err == nil {
		limit = v
	}
	if c.reduced >= limit {
		return false
	}
	c.reduced++
	return true
}

// N picks a count by tier.
func (c *Ctx) N(quick, thorough int) int {
	if c.Quick() {
		return quick
	}
	return thorough
}

func (c *Ctx) Note(format string, a ...any) {
	c.mu.Lock()
	c.notes = append(c.notes, fmt.Sprintf(format, a...))
	c.mu.Unlock()
}

// Known records that a listed known finding was reproduced by its committed witness on this run.
func (c *Ctx) Known(id, what string) {
	c.mu.Lock()
	c.knownSeen = append(c.knownSeen, [2]string{id, what})
	c.mu.Unlock()
}
func (c *Ctx) SetExtra(k string, v any) { c.mu.Lock(); c.extra[k] = v; c.mu.Unlock() }
func (c *Ctx) AddCov(k string, n int)   { c.mu.Lock(); c.cov[k] += n; c.mu.Unlock() }

// Record folds one outcome into the run.
func (c *Ctx) Record(caseID string, o Outcome) {
	c.mu.Lock()
	defer c.mu.Unlock()
	c.evals++
	for k, v := range o.Cov {
		c.cov[k] += v
	}
	switch o.V {
	case Held:
		if !o.Trivial && o.Sig != "" {
			c.sigs[o.Sig] = true
		}
		if o.Sample != nil && len(c.samples) < 3 {
			c.samples = append(c.samples, o.Sample)
		}
	case Inconclusive:
		r := o.Reason
		if len(r) > 80 {
			r = r[:80]
		}
		c.incon[r]++
	case Violated:
		// known finding?
		for _, k := range c.known {
			if k.Fixed {
				continue
			}
			if k.Matches(o.Class, o.Reason) {
				c.knownHit[k.ID]++
				return
			}
		}
		dir := filepath.Join(c.Verif, "replays", c.Prop)
		os.MkdirAll(dir, 0o755)
		w := map[string]any{"property": c.Prop, "seed": c.Seed, "tier": c.Tier, "case": caseID, "class": o.Class, "reason": o.Reason}
		for k, v := range o.Witness {
			w[k] = v
		}
		b, _ := json.MarshalIndent(w, "", " ")
		h := sha256.Sum256(b)
		p := filepath.Join(dir, hex.EncodeToString(h[:6])+".json")
		os.WriteFile(p, b, 0o644)
		c.viols = append(c.viols, violation{o.Class, o.Reason, p})
	}
}

// Each runs fn for i in [0,n) on all cores; panics inside fn become violations of class "monitor-panic"
// unless the fn handles them itself.
func (c *Ctx) Each(n int, fn func(i int) (string, Outcome)) {
	workers := runtime.GOMAXPROCS(0)
	if w := os.Getenv("VERIF_WORKERS"); w != "" {
		if v, err := strconv.Atoi(w); err == nil && v > 0 {
			workers = v
		}
	}
	var wg sync.WaitGroup
	ch := make(chan int, 64)
	for w := 0; w < workers; w++ {
		wg.Add(1)
		go func() {
			defer wg.Done()
			for i := range ch {
				id, o := safeCase(i, fn)
				c.Record(id, o)
			}
		}()
	}
	only := -1 // VERIF_ONLY=<i>: debugging aid, run a single case of the list
	if v, err := strconv.Atoi(os.Getenv("VERIF_ONLY")); err == nil {
		only = v
	}
	for i := 0; i < n; i++ {
		if only >= 0 && i != only {
			continue
		}
		ch <- i
	}
	close(ch)
	wg.Wait()
}

func safeCase(i int, fn func(i int) (string, Outcome)) (id string, o Outcome) {
	defer func() {
		if r := recover(); r != nil {
			id = fmt.Sprintf("case-%d", i)
			// A panic in the check's own machinery is not evidence about naga: inconclusive, loudly.
			o = Outcome{V: Inconclusive, Reason: "MONITOR-PANIC " + fmt.Sprint(r) + " @ " + firstFrame(string(debug.Stack()))}
		}
	}()
	return fn(i)
}

func firstFrame(st string) string {
	lines := strings.Split(st, "\n")
	for i, l := range lines {
		if strings.HasPrefix(l, "panic(") && i+2 < len(lines) {
			for j := i + 2; j+1 < len(lines); j += 2 {
				if !strings.Contains(lines[j], "runtime.") {
					return strings.TrimSpace(lines[j]) + " " + strings.TrimSpace(lines[j+1])
				}
			}
		}
	}
	return ""
}

// Catch runs f and converts a panic into (stack, true).
func Catch(f func()) (stack string, panicked bool) {
	defer func() {
		if r := recover(); r != nil {
			stack = fmt.Sprint(r) + "\n" + string(debug.Stack())
			panicked = true
		}
	}()
	f()
	return
}

// Finish writes evidence, prints VIOLATION / KNOWN-FINDING / INCONCLUSIVE lines and returns the exit code.
func (c *Ctx) Finish(rule string, assumptions []string) int {
	c.mu.Lock()
	defer c.mu.Unlock()
	wall := time.Since(c.Start).Seconds()
	inconTotal := 0
	for _, v := range c.incon {
		inconTotal += v
	}
	verdict := "held"
	if len(c.viols) > 0 {
		verdict = "violated"
	} else if c.evals == 0 {
		verdict = "broken"
	} else if len(c.sigs) < 2 || inconTotal*2 > c.evals {
		verdict = "inconclusive"
	}
	samples := c.samples
	if len(samples) == 0 {
		samples = []any{"(no held sample recorded)"}
	}
	cov := map[string]any{
		"evaluations":               c.evals,
		"distinct_nontrivial":       len(c.sigs),
		"rule":                      rule,
		"samples":                   samples,
		"verdict":                   verdict,
		"inconclusive":              c.incon,
		"inconclusive_total":        inconTotal,
		"counters":                  c.cov,
		"known_findings_hit":        c.knownHit,
		"known_findings_reproduced": c.knownSeen,
		"notes":                     c.notes,
	}
	for k, v := range c.extra {
		cov[k] = v
	}
	ev := map[string]any{
		"property_id": c.Prop, "tier": c.Tier, "seed": c.Seed, "level": "exploration",
		"coverage": cov, "assumptions": assumptions, "wall_s": wall, "violations": len(c.viols),
	}
	b, _ := json.MarshalIndent(ev, "", " ")
	os.MkdirAll(filepath.Join(c.Verif, "evidence"), 0o755)
	if err := os.WriteFile(filepath.Join(c.Verif, "evidence", c.Prop+".json"), b, 0o644); err != nil {
		fmt.Println("cannot write evidence:", err)
		return 3
	}
	// known findings reproduced by their witnesses
	for _, k := range c.knownSeen {
		fmt.Printf("KNOWN-FINDING: property=%s finding=%s %s\n", c.Prop, k[0], k[1])
	}
	// known findings
	ids := make([]string, 0, len(c.knownHit))
	for id := range c.knownHit {
		ids = append(ids, id)
	}
	sort.Strings(ids)
	for _, id := range ids {
		for _, k := range c.known {
			if k.ID == id && !k.Fixed && k.Class != "" {
				fmt.Printf("KNOWN-FINDING: property=%s %s (%s; %d case(s) this run)\n", c.Prop, k.What, k.ID, c.knownHit[id])
				break // one line per finding, however many class lines list it
			}
		}
	}
	fmt.Printf("SUMMARY property=%s tier=%s seed=%d evaluations=%d distinct=%d inconclusive=%d violations=%d verdict=%s wall=%.1fs\n",
		c.Prop, c.Tier, c.Seed, c.evals, len(c.sigs), inconTotal, len(c.viols), verdict, wall)
	if len(c.viols) > 0 {
		seen := map[string]int{}
		for _, v := range c.viols {
			seen[v.class]++
			if seen[v.class] <= 5 {
				fmt.Printf("VIOLATION property=%s replay=%s class=%s :: %s\n", c.Prop, v.path, v.class, oneLine(v.reason))
			}
		}
		for k, n := range seen {
			if n > 5 {
				fmt.Printf("  (+%d more of class %s)\n", n-5, k)
			}
		}
		return 1
	}
	if verdict == "broken" {
		fmt.Printf("BROKEN property=%s: no case executed\n", c.Prop)
		return 3
	}
	if verdict == "inconclusive" {
		fmt.Printf("INCONCLUSIVE property=%s distinct=%d inconclusive=%d/%d\n", c.Prop, len(c.sigs), inconTotal, c.evals)
	}
	return 0
}

func oneLine(s string) string {
	s = strings.ReplaceAll(s, "\n", " | ")
	if len(s) > 300 {
		s = s[:300] + "…"
	}
	return s
}

// SigOf builds a compact signature from a set of feature strings.
func SigOf(feats map[string]bool) string {
	ks := make([]string, 0, len(feats))
	for k := range feats {
		ks = append(ks, k)
	}
	sort.Strings(ks)
	h := sha256.Sum256([]byte(strings.Join(ks, ",")))
	return hex.EncodeToString(h[:8])
}
