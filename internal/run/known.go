package run

import (
	"bufio"
	"os"
	"strings"
)

// Known is one line of /verif/KNOWN_FINDINGS:
//
//	known: property=<id> finding=<Fnn> class=<class> match=<substring> :: <what fails>
//	fixed: property=<id> <commit> finding=<Fnn> :: <what failed>
//
// class and match identify the specific failing construct: a violation is attributed to the finding only if its
// class equals `class` and its reason contains `match` (match may be empty = any reason of that class; '_' stands for a space).
type Known struct {
	Fixed bool
	Prop  string
	ID    string
	Class string
	Match string
	Any   []string // any=a|b|c : at least one alternative must occur in the reason
	What  string
}

func (k Known) Matches(class, reason string) bool {
	if k.Class == "" {
		return false // entries without a class are witness-only: they never attribute campaign violations
	}
	if strings.HasSuffix(k.Class, "*") {
		if !strings.HasPrefix(class, strings.TrimSuffix(k.Class, "*")) {
			return false
		}
	} else if k.Class != class {
		return false
	}
	// match=a&&b : every part must occur in the reason
	if k.Match != "" {
		for _, part := range strings.Split(k.Match, "&&") {
			if !strings.Contains(reason, part) {
				return false
			}
		}
	}
	if len(k.Any) > 0 {
		hit := false
		for _, a := range k.Any {
			if a != "" && strings.Contains(reason, a) {
				hit = true
				break
			}
		}
		if !hit {
			return false
		}
	}
	return true
}

func LoadKnown(path, prop string) []Known {
	f, err := os.Open(path)
	if err != nil {
		return nil
	}
	defer f.Close()
	var out []Known
	sc := bufio.NewScanner(f)
	sc.Buffer(make([]byte, 1<<20), 1<<20)
	for sc.Scan() {
		line := strings.TrimSpace(sc.Text())
		if line == "" || strings.HasPrefix(line, "#") {
			continue
		}
		var k Known
		switch {
		case strings.HasPrefix(line, "known:"):
			line = strings.TrimSpace(line[6:])
		case strings.HasPrefix(line, "fixed:"):
			k.Fixed = true
			line = strings.TrimSpace(line[6:])
		default:
			continue
		}
		head, what, _ := strings.Cut(line, "::")
		k.What = strings.TrimSpace(what)
		for _, f := range strings.Fields(head) {
			kv := strings.SplitN(f, "=", 2)
			if len(kv) != 2 {
				continue
			}
			v := strings.ReplaceAll(kv[1], "~", " ")
			switch kv[0] {
			case "property":
				k.Prop = kv[1]
			case "finding":
				k.ID = kv[1]
			case "class":
				k.Class = v
			case "match":
				k.Match = v
			case "any":
				k.Any = strings.Split(v, "|")
			}
		}
		if k.Prop == prop {
			out = append(out, k)
		}
	}
	return out
}
