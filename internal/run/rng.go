// Package run: seeds, case scheduling, evidence, replay and known-finding plumbing
// shared by all checks.
package run

import "hash/fnv"

// Rng is a splitmix64 stream: tiny, deterministic, splittable by hashing.
type Rng struct{ s uint64 }

func NewRng(seed uint64) *Rng { return &Rng{s: seed} }

func (r *Rng) U64() uint64 {
	r.s += 0x9E3779B97F4A7C15
	z := r.s
	z = (z ^ (z >> 30)) * 0xBF58476D1CE4E5B9
	z = (z ^ (z >> 27)) * 0x94D049BB133111EB
	return z ^ (z >> 31)
}
func (r *Rng) U32() uint32 { return uint32(r.U64() >> 32) }

// Intn returns a value in [0,n). n<=0 returns 0.
func (r *Rng) Intn(n int) int {
	if n <= 0 {
		return 0
	}
	return int(r.U64() % uint64(n))
}

// Range returns a value in [lo,hi].
func (r *Rng) Range(lo, hi int) int { return lo + r.Intn(hi-lo+1) }
func (r *Rng) Bool() bool           { return r.U64()&1 == 1 }

// Chance returns true with probability num/den.
func (r *Rng) Chance(num, den int) bool { return r.Intn(den) < num }
func (r *Rng) Split() *Rng              { return NewRng(r.U64()) }
func (r *Rng) State() uint64            { return r.s }

// Pick returns a weighted index.
func (r *Rng) Pick(weights []int) int {
	t := 0
	for _, w := range weights {
		t += w
	}
	if t <= 0 {
		return 0
	}
	x := r.Intn(t)
	for i, w := range weights {
		if x < w {
			return i
		}
		x -= w
	}
	return len(weights) - 1
}

// CaseSeed derives the seed of case i of a property from the run seed.
func CaseSeed(seed uint64, prop string, i int) uint64 {
	h := fnv.New64a()
	h.Write([]byte(prop))
	r := NewRng(seed ^ h.Sum64() ^ (uint64(i)+1)*0xD6E8FEB86659FD93)
	return r.U64()
}

// Perm returns a pseudo-random permutation of [0,n).
func (r *Rng) Perm(n int) []int {
	p := make([]int, n)
	for i := range p {
		p[i] = i
	}
	for i := n - 1; i > 0; i-- {
		j := r.Intn(i + 1)
		p[i], p[j] = p[j], p[i]
	}
	return p
}
