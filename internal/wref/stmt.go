package wref

import (
	"verif/internal/wgen"
)

// block executes statements in order.
func (ev *Eval) block(b []wgen.Stmt) (ctl, Val) {
	for _, s := range b {
		if c, v := ev.stmt(s); c != ctlNone {
			return c, v
		}
	}
	return ctlNone, Val{}
}

func (ev *Eval) cond(e wgen.Expr) bool {
	v := ev.eval(e)
	if v.S[0].Ind {
		throw(ErrInconclusive, "indeterminate condition")
	}
	return v.S[0].B != 0
}

func (ev *Eval) stmt(s wgen.Stmt) (ctl, Val) {
	ev.tick()
	fr := ev.top()
	switch s := s.(type) {
	case *wgen.VarDecl:
		v := s.V
		switch v.Kind {
		case wgen.VLocal:
			ev.cov("stmt.var")
			var val Val
			if s.Init != nil {
				val = ev.eval(s.Init)
				if val.T != v.Ty {
					val = ev.materialize(val, v.Ty)
				}
				val = val.clone()
			} else {
				val = zeroVal(v.Ty)
			}
			// each execution of the declaration creates a fresh, (re)initialised variable
			fr.vars[v] = &Place{T: v.Ty, Cells: val.S, Root: v}
		case wgen.VLet:
			ev.cov("stmt.let")
			if v.Ty.Kind == wgen.KPtr {
				fr.ptrs[v] = ev.evalPtr(s.Init)
				break
			}
			val := ev.eval(s.Init)
			if val.T != v.Ty {
				val = ev.materialize(val, v.Ty)
			}
			fr.lets[v] = val.clone()
		case wgen.VConst:
			ev.cov("stmt.const")
			old := ev.constMode
			ev.constMode = true
			val := ev.eval(s.Init)
			ev.constMode = old
			if val.T != v.Ty {
				val = ev.materialize(val, v.Ty)
			}
			fr.lets[v] = val
		}
	case *wgen.Assign:
		if s.LHS == nil {
			ev.cov("stmt.phony")
			ev.eval(s.RHS)
			return ctlNone, Val{}
		}
		ev.cov("stmt.assign" + s.Op)
		// the reference is evaluated first, then the right-hand side
		p := ev.evalPlace(s.LHS)
		if p == nil {
			throw(ErrInternal, "assignment to non-reference %T", s.LHS)
		}
		rhs := ev.eval(s.RHS)
		if s.Op == "=" {
			if rhs.T != p.T {
				rhs = ev.materialize(rhs, p.T)
			}
			p.store(rhs)
			return ctlNone, Val{}
		}
		op := s.Op[:len(s.Op)-1]
		cur := p.load()
		if rhs.T.IsAbstract() {
			want := p.T
			if op == "<<" || op == ">>" {
				want = wgen.U32
			}
			rhs = ev.materialize(rhs, retype(want, rhs.T))
		}
		var res Val
		if cur.T.Kind == wgen.KMat || rhs.T.Kind == wgen.KMat {
			res = ev.matBinary(&wgen.Binary{Op: op, Ty: p.T}, cur, rhs)
		} else {
			n := len(cur.S)
			res = Val{T: p.T, S: make([]Sc, n)}
			for i := 0; i < n; i++ {
				res.S[i] = ev.scalarBin(op, cur.T.Scalar(), rhs.T.Scalar(), cur.S[i], rhs.S[min(i, len(rhs.S)-1)])
			}
		}
		p.store(res)
	case *wgen.IncDec:
		ev.cov("stmt.incdec")
		p := ev.evalPlace(s.LHS)
		cur := p.load()
		one := Sc{B: 1}
		op := "+"
		if !s.Inc {
			op = "-"
		}
		p.store(Val{T: p.T, S: []Sc{ev.intBinRT(op, p.T, cur.S[0], one)}})
	case *wgen.If:
		ev.cov("stmt.if")
		if ev.cond(s.Cond) {
			return ev.scoped(s.Then)
		}
		return ev.scoped(s.Else)
	case *wgen.Switch:
		ev.cov("stmt.switch")
		sel := ev.eval(s.Sel)
		if sel.S[0].Ind || sel.S[0].Tol > 0 {
			throw(ErrInconclusive, "indeterminate switch selector")
		}
		chosen := -1
		def := -1
		for i, c := range s.Cases {
			if c.Default {
				def = i
			}
			for _, se := range c.Sels {
				old := ev.constMode
				ev.constMode = true
				cv := ev.eval(se)
				ev.constMode = old
				if cv.T != sel.T {
					cv = ev.materialize(cv, sel.T)
				}
				if uint32(cv.S[0].B) == uint32(sel.S[0].B) {
					chosen = i
				}
			}
		}
		if chosen < 0 {
			chosen = def
		}
		if chosen < 0 {
			throw(ErrInternal, "switch without default")
		}
		c, v := ev.scoped(s.Cases[chosen].Body)
		if c == ctlBreak {
			return ctlNone, Val{}
		}
		return c, v
	case *wgen.Loop:
		ev.cov("stmt.loop")
		for {
			ev.tick()
			c, v := ev.scopedLoopBody(s)
			if c == ctlBreak {
				return ctlNone, Val{}
			}
			if c == ctlReturn {
				return c, v
			}
		}
	case *wgen.For:
		ev.cov("stmt.for")
		if s.Init != nil {
			if c, v := ev.stmt(s.Init); c != ctlNone {
				return c, v
			}
		}
		for {
			ev.tick()
			if s.Cond != nil && !ev.cond(s.Cond) {
				return ctlNone, Val{}
			}
			c, v := ev.scoped(s.Body)
			if c == ctlBreak {
				return ctlNone, Val{}
			}
			if c == ctlReturn {
				return c, v
			}
			if s.Post != nil {
				ev.stmt(s.Post)
			}
		}
	case *wgen.While:
		ev.cov("stmt.while")
		for {
			ev.tick()
			if !ev.cond(s.Cond) {
				return ctlNone, Val{}
			}
			c, v := ev.scoped(s.Body)
			if c == ctlBreak {
				return ctlNone, Val{}
			}
			if c == ctlReturn {
				return c, v
			}
		}
	case *wgen.Break:
		ev.cov("stmt.break")
		return ctlBreak, Val{}
	case *wgen.Continue:
		ev.cov("stmt.continue")
		return ctlContinue, Val{}
	case *wgen.Return:
		ev.cov("stmt.return")
		if s.X == nil {
			return ctlReturn, Val{}
		}
		v := ev.eval(s.X)
		if f := ev.curFn; f != nil && f.Ret != nil && v.T != f.Ret {
			v = ev.materialize(v, f.Ret)
		}
		return ctlReturn, v.clone()
	case *wgen.CallS:
		ev.cov("stmt.call")
		ev.eval(s.C)
	case *wgen.BuiltinS:
		ev.eval(s.B)
	case *wgen.Block:
		ev.cov("stmt.block")
		return ev.scoped(s.Body)
	case *wgen.ConstAssert:
		old := ev.constMode
		ev.constMode = true
		v := ev.eval(s.X)
		ev.constMode = old
		if v.S[0].B == 0 {
			throw(ErrConst, "const_assert failed")
		}
	default:
		throw(ErrInternal, "stmt %T", s)
	}
	return ctlNone, Val{}
}

func retype(want, have *wgen.Type) *wgen.Type {
	// abstract rhs of a compound assignment takes the scalar kind of the target, keeping its own shape (scalars only here)
	if have.IsScalar() {
		return want.Scalar()
	}
	return want
}

// scoped: blocks do not need explicit scope handling because every declaration is a distinct *wgen.Var.
func (ev *Eval) scoped(b []wgen.Stmt) (ctl, Val) { return ev.block(b) }

// scopedLoopBody runs body, then continuing (also after `continue`), then break-if.
func (ev *Eval) scopedLoopBody(s *wgen.Loop) (ctl, Val) {
	c, v := ev.block(s.Body)
	if c == ctlBreak || c == ctlReturn {
		return c, v
	}
	if c2, v2 := ev.block(s.Continuing); c2 != ctlNone {
		return c2, v2
	}
	if s.BreakIf != nil && ev.cond(s.BreakIf) {
		return ctlBreak, Val{}
	}
	return ctlNone, Val{}
}
