// Package wref is the WGSL reference evaluator: it interprets the wgen AST directly with value semantics written from
// the WGSL specification (see DESIGN.md Appendix A). It never sees naga. It is the SPECIFICATION side of the monitors.
package wref

import (
	"fmt"
	"math"

	"verif/internal/wgen"
)

// Sc is one scalar leaf. B holds the bits: bool 0/1; i32/u32 low 32 bits; f32 its IEEE bits (low 32);
// abstract-int as int64; abstract-float as float64 bits.
// Tol > 0: the value is only known up to Tol ulps (f32) — such a value may only be moved, never computed with.
// Ind: WGSL leaves the value implementation-defined (overflow, NaN/inf, subnormal arithmetic …) — never compared.
type Sc struct {
	B   uint64
	Tol uint16
	Ind bool
	// ZS: an f32 zero whose SIGN is not pinned down (the zero results of round / floor / ceil / trunc differ in sign
	// between target languages, e.g. GLSL round(-0.25)); it propagates through arithmetic that yields zero again and
	// makes the value unobservable through bitcast. ±0 compare equal as floats anyway.
	ZS bool
}

// Val is a value: type + flattened scalar leaves in declaration order.
type Val struct {
	T *wgen.Type
	S []Sc
}

func (v Val) clone() Val { return Val{T: v.T, S: append([]Sc(nil), v.S...)} }

func f32bits(f float32) uint64 { return uint64(math.Float32bits(f)) }
func bitsf32(b uint64) float32 { return math.Float32frombits(uint32(b)) }
func f64bits(f float64) uint64 { return math.Float64bits(f) }
func bitsf64(b uint64) float64 { return math.Float64frombits(b) }
func i32of(s Sc) int32         { return int32(uint32(s.B)) }
func u32of(s Sc) uint32        { return uint32(s.B) }
func scI32(v int32) Sc         { return Sc{B: uint64(uint32(v))} }
func scU32(v uint32) Sc        { return Sc{B: uint64(v)} }
func scBool(b bool) Sc {
	if b {
		return Sc{B: 1}
	}
	return Sc{}
}
func scF32(f float32) Sc { return Sc{B: f32bits(f)} }

// taint merges classification of inputs for a *computing* operation: any tolerant or indeterminate input makes
// the result indeterminate.
func taint(ins ...Sc) bool {
	for _, s := range ins {
		if s.Ind || s.Tol > 0 {
			return true
		}
	}
	return false
}

// moveClass merges for pure selection between values (select): keep the worst class.
func worst(a, b Sc) (uint16, bool) {
	t := a.Tol
	if b.Tol > t {
		t = b.Tol
	}
	return t, a.Ind || b.Ind
}

// Place is a memory location: a window of scalar cells.
type Place struct {
	T     *wgen.Type
	Cells []Sc // aliasing slice into the variable's storage
	RT    *int // element count of the enclosing runtime-sized array, when T (or its tail) is runtime sized
	Root  *wgen.Var
}

// leaves returns the number of scalar leaves of t, with runtime count rc for a runtime-sized tail.
func leaves(t *wgen.Type, rc int) int {
	switch t.Kind {
	case wgen.KArray:
		if t.N == 0 {
			return rc * t.Elem.Leaves()
		}
		return t.N * t.Elem.Leaves()
	case wgen.KStruct:
		n := 0
		for i, m := range t.Members {
			if i == len(t.Members)-1 {
				n += leaves(m.Type, rc)
			} else {
				n += m.Type.Leaves()
			}
		}
		return n
	}
	return t.Leaves()
}

// ExecError kinds.
type ErrKind int

const (
	ErrConst        ErrKind = iota // WGSL shader-creation error in a const-expression
	ErrInconclusive                // execution left WGSL-defined territory in a way that affects control flow / addressing
	ErrInternal                    // evaluator bug / unsupported construct
	ErrBudget
)

type ExecError struct {
	Kind ErrKind
	Msg  string
	// Definite: WGSL certainly makes this a shader-creation error (integer division / remainder by zero, abstract value
	// not representable in the target type, constant shift amount >= bit width). Other ErrConst cases are conservative:
	// the generator avoids them, but an implementation accepting them is not necessarily wrong.
	Definite bool
}

func (e *ExecError) Error() string { return fmt.Sprintf("wref(%d): %s", e.Kind, e.Msg) }

func throw(k ErrKind, format string, a ...any) {
	panic(&ExecError{Kind: k, Msg: fmt.Sprintf(format, a...)})
}

func throwDefinite(format string, a ...any) {
	panic(&ExecError{Kind: ErrConst, Msg: fmt.Sprintf(format, a...), Definite: true})
}

func zeroVal(t *wgen.Type) Val { return Val{T: t, S: make([]Sc, t.Leaves())} }
