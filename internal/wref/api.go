package wref

import (
	"fmt"

	"verif/internal/wgen"
)

// Input of one execution.
type Input struct {
	Bufs      map[*wgen.Var][]Sc    // initial scalar leaves of every storage/uniform global (flattened, declaration order)
	RT        map[*wgen.Var]int     // element count of the runtime-sized tail array of a global (if it has one)
	Overrides map[*wgen.Var]float64 // pipeline-constant values (absent => default initialiser)
	NumGroups [3]uint32
	MaxSteps  int
	Policy    string
}

type Output struct {
	Bufs  map[*wgen.Var][]Sc
	Cov   map[string]int
	Steps int
	OOB   int
}

// extra Eval fields used by the API
type evalExtra struct{}

func newEval(m *wgen.Module) *Eval {
	return &Eval{M: m, globals: map[*wgen.Var]*Place{}, consts: map[*wgen.Var]Val{}, ovr: map[*wgen.Var]Val{}, Cov: map[string]int{}}
}

// ConstOK returns a predicate telling whether a const-expression evaluates without a (conservatively judged)
// shader-creation error. Used by the generator.
func ConstOK(m *wgen.Module) func(e wgen.Expr) bool {
	return func(e wgen.Expr) (ok bool) {
		ev := newEval(m)
		ev.constMode = true
		ev.maxSteps = 100000
		ev.frames = []*frame{{vars: map[*wgen.Var]*Place{}, lets: map[*wgen.Var]Val{}, ptrs: map[*wgen.Var]*Place{}}}
		defer func() {
			if r := recover(); r != nil {
				ok = false
			}
		}()
		v := ev.eval(e)
		for _, s := range v.S {
			if s.Ind {
				return false
			}
		}
		return true
	}
}

// ConstEval evaluates a const-expression; err is *ExecError (ErrConst = WGSL shader-creation error).
func ConstEval(m *wgen.Module, e wgen.Expr) (v Val, err error) {
	ev := newEval(m)
	ev.constMode = true
	ev.maxSteps = 100000
	ev.frames = []*frame{{vars: map[*wgen.Var]*Place{}, lets: map[*wgen.Var]Val{}, ptrs: map[*wgen.Var]*Place{}}}
	defer func() {
		if r := recover(); r != nil {
			if ee, ok := r.(*ExecError); ok {
				err = ee
				return
			}
			err = &ExecError{Kind: ErrInternal, Msg: fmt.Sprint(r)}
		}
	}()
	return ev.eval(e), nil
}

// Run executes entry point f for every invocation (sequentially, in invocation order) and returns the final buffers.
func Run(m *wgen.Module, f *wgen.Func, in Input) (out Output, err error) {
	defer func() {
		if r := recover(); r != nil {
			if ee, ok := r.(*ExecError); ok {
				err = ee
				return
			}
			err = &ExecError{Kind: ErrInternal, Msg: fmt.Sprint(r)}
		}
	}()
	shared := map[*wgen.Var]*Place{}
	rts := map[*wgen.Var]*int{}
	for _, g := range m.Globals() {
		if g.Space == "storage" || g.Space == "uniform" {
			cells, ok := in.Bufs[g]
			if !ok {
				throw(ErrInternal, "no input for %s", g.Name)
			}
			p := &Place{T: g.Ty, Cells: append([]Sc(nil), cells...), Root: g}
			if g.Ty.HasRuntimeArray() {
				n := in.RT[g]
				rts[g] = &n
				p.RT = rts[g]
			}
			if len(p.Cells) != leaves(g.Ty, in.RT[g]) {
				throw(ErrInternal, "input size for %s: %d leaves, want %d", g.Name, len(p.Cells), leaves(g.Ty, in.RT[g]))
			}
			shared[g] = p
		}
	}
	// workgroup size
	ev0 := newEval(m)
	ev0.maxSteps = 10000
	ev0.resolveOverrides(in.Overrides)
	var wg [3]uint32
	for i := 0; i < 3; i++ {
		wg[i] = 1
		if f.WG[i] != nil && (i < f.WGDims || f.WGDims == 0) {
			ev0.frames = []*frame{{vars: map[*wgen.Var]*Place{}, lets: map[*wgen.Var]Val{}, ptrs: map[*wgen.Var]*Place{}}}
			v := ev0.eval(f.WG[i])
			wg[i] = uint32(v.S[0].B)
		}
	}
	ng := in.NumGroups
	for i := range ng {
		if ng[i] == 0 {
			ng[i] = 1
		}
	}
	out.Cov = map[string]int{}
	budget := in.MaxSteps
	if budget == 0 {
		budget = 2_000_000
	}
	for gz := uint32(0); gz < ng[2]; gz++ {
		for gy := uint32(0); gy < ng[1]; gy++ {
			for gx := uint32(0); gx < ng[0]; gx++ {
				// workgroup memory: zero per workgroup
				wgm := map[*wgen.Var]*Place{}
				for _, g := range m.Globals() {
					if g.Space == "workgroup" {
						wgm[g] = &Place{T: g.Ty, Cells: make([]Sc, g.Ty.Leaves()), Root: g}
					}
				}
				for lz := uint32(0); lz < wg[2]; lz++ {
					for ly := uint32(0); ly < wg[1]; ly++ {
						for lx := uint32(0); lx < wg[0]; lx++ {
							ev := newEval(m)
							ev.Policy = in.Policy
							ev.maxSteps = budget - out.Steps
							ev.ovr = ev0.ovr
							ev.consts = ev0.consts
							for g, p := range shared {
								ev.globals[g] = p
							}
							for g, p := range wgm {
								ev.globals[g] = p
							}
							ev.frames = []*frame{{vars: map[*wgen.Var]*Place{}, lets: map[*wgen.Var]Val{}, ptrs: map[*wgen.Var]*Place{}}}
							for _, g := range m.Globals() {
								if g.Space == "private" {
									var v Val
									if g.Init != nil {
										old := ev.constMode
										ev.constMode = true
										v = ev.eval(g.Init)
										ev.constMode = old
										if v.T != g.Ty {
											v = ev.materialize(v, g.Ty)
										}
										v = v.clone()
									} else {
										v = zeroVal(g.Ty)
									}
									ev.globals[g] = &Place{T: g.Ty, Cells: v.S, Root: g}
								}
							}
							inv := &Invocation{LocalID: [3]uint32{lx, ly, lz}, GroupID: [3]uint32{gx, gy, gz}, NumGroups: ng}
							inv.GlobalID = [3]uint32{gx*wg[0] + lx, gy*wg[1] + ly, gz*wg[2] + lz}
							inv.LocalIndex = lx + ly*wg[0] + lz*wg[0]*wg[1]
							fr := ev.top()
							for _, p := range f.Params {
								fr.lets[p] = builtinVal(p, inv)
							}
							ev.curFn = f
							ev.block(f.Body)
							out.Steps += ev.steps
							out.OOB += ev.oob
							for k, v := range ev.Cov {
								out.Cov[k] += v
							}
						}
					}
				}
			}
		}
	}
	out.Bufs = map[*wgen.Var][]Sc{}
	for g, p := range shared {
		out.Bufs[g] = p.Cells
	}
	return out, nil
}

func builtinVal(p *wgen.Var, inv *Invocation) Val {
	v3 := func(a [3]uint32) Val {
		return Val{T: p.Ty, S: []Sc{scU32(a[0]), scU32(a[1]), scU32(a[2])}}
	}
	switch p.Builtin {
	case "global_invocation_id":
		return v3(inv.GlobalID)
	case "local_invocation_id":
		return v3(inv.LocalID)
	case "workgroup_id":
		return v3(inv.GroupID)
	case "num_workgroups":
		return v3(inv.NumGroups)
	case "local_invocation_index":
		return Val{T: p.Ty, S: []Sc{scU32(inv.LocalIndex)}}
	}
	throw(ErrInternal, "entry parameter %s without builtin", p.Name)
	return Val{}
}

// resolveOverrides binds every override to its supplied value (converted to the override's type) or its default.
func (ev *Eval) resolveOverrides(vals map[*wgen.Var]float64) {
	ev.frames = []*frame{{vars: map[*wgen.Var]*Place{}, lets: map[*wgen.Var]Val{}, ptrs: map[*wgen.Var]*Place{}}}
	for _, o := range ev.M.Overrides() {
		if x, ok := vals[o]; ok {
			var s Sc
			switch o.Ty.Kind {
			case wgen.KBool:
				s = scBool(x != 0)
			case wgen.KI32:
				s = scI32(int32(x))
			case wgen.KU32:
				s = scU32(uint32(x))
			case wgen.KF32:
				s = scF32(float32(x))
			}
			ev.ovr[o] = Val{T: o.Ty, S: []Sc{s}}
			continue
		}
		if o.Init == nil {
			throw(ErrConst, "override %s has no value and no default", o.Name)
		}
		// override-expressions are evaluated with run-time (wrapping) semantics? They are pipeline-creation-time constant
		// expressions: errors are pipeline-creation errors => conservative const mode.
		old := ev.constMode
		ev.constMode = true
		v := ev.eval(o.Init)
		ev.constMode = old
		if v.T != o.Ty {
			v = ev.materialize(v, o.Ty)
		}
		ev.ovr[o] = v
	}
}
