package wref

import (
	"math"

	"verif/internal/wgen"
)

// eval evaluates e to a value (applying the load rule to references).
func (ev *Eval) eval(e wgen.Expr) Val {
	ev.tick()
	if !ev.constMode && len(ev.ovr) > 0 {
		// a maximal override-expression inside a function body is evaluated at pipeline creation: an error in it
		// (integer overflow, division by zero, ...) is a pipeline-creation error, so it is evaluated in const mode
		switch e.(type) {
		case *wgen.Binary, *wgen.Unary, *wgen.Builtin, *wgen.Cons, *wgen.Materialize, *wgen.Index, *wgen.Swiz:
			if wgen.IsOverrideExpr(e) {
				ev.constMode = true
				defer func() { ev.constMode = false }()
			}
		}
	}
	switch e := e.(type) {
	case *wgen.Lit:
		return ev.lit(e)
	case *wgen.Paren:
		return ev.eval(e.X)
	case *wgen.Materialize:
		return ev.materialize(ev.eval(e.X), e.Ty)
	case *wgen.Ref:
		v := resolveVar(e.V)
		switch v.Kind {
		case wgen.VGlobal, wgen.VLocal:
			return ev.placeOfVar(v).load()
		case wgen.VConst:
			if v.Module {
				return ev.constVal(v)
			}
			if c, ok := ev.top().lets[v]; ok {
				return c
			}
			throw(ErrInternal, "const %s unbound", v.Name)
		case wgen.VOverride:
			if c, ok := ev.ovr[v]; ok {
				return c
			}
			throw(ErrInternal, "override %s unresolved", v.Name)
		default:
			if c, ok := ev.top().lets[v]; ok {
				return c
			}
			throw(ErrInternal, "value %s unbound", v.Name)
		}
	case *wgen.Deref:
		return ev.evalPtr(e.X).load()
	case *wgen.Field:
		if p := ev.evalPlace(e); p != nil {
			return p.load()
		}
		b := ev.eval(e.X)
		off := 0
		for i := 0; i < e.Idx; i++ {
			off += b.T.Members[i].Type.Leaves()
		}
		mt := b.T.Members[e.Idx].Type
		return Val{T: mt, S: b.S[off : off+mt.Leaves()]}
	case *wgen.Index:
		if p := ev.evalPlace(e); p != nil {
			return p.load()
		}
		b := ev.eval(e.X)
		idx, ok := ev.evalIndex(e.I)
		n, et, stride := containerShape(b.T)
		if !ok || idx < 0 || idx >= int64(n) {
			if ev.constMode {
				throw(ErrConst, "const index out of bounds")
			}
			idx = ev.outOfBounds(idx, n, ok)
			if idx < 0 {
				return zeroVal(et)
			}
		}
		return Val{T: et, S: b.S[int(idx)*stride : (int(idx)+1)*stride]}
	case *wgen.Swiz:
		if p := ev.evalPlace(e); p != nil {
			return p.load()
		}
		b := ev.eval(e.X)
		out := Val{T: e.Ty, S: make([]Sc, len(e.Comps))}
		for i, c := range e.Comps {
			out.S[i] = b.S[c]
		}
		return out
	case *wgen.Unary:
		return ev.unary(e)
	case *wgen.Binary:
		return ev.binary(e)
	case *wgen.Cons:
		return ev.construct(e)
	case *wgen.Builtin:
		return ev.builtin(e)
	case *wgen.CallE:
		return ev.call(e)
	case *wgen.AddrOf:
		throw(ErrInternal, "address-of used as value")
	}
	throw(ErrInternal, "eval %T", e)
	return Val{}
}

func (ev *Eval) lit(e *wgen.Lit) Val {
	switch e.Ty.Kind {
	case wgen.KBool:
		return Val{T: e.Ty, S: []Sc{{B: uint64(e.I & 1)}}}
	case wgen.KI32:
		return Val{T: e.Ty, S: []Sc{scI32(int32(e.I))}}
	case wgen.KU32:
		return Val{T: e.Ty, S: []Sc{scU32(uint32(e.I))}}
	case wgen.KAbsInt:
		return Val{T: e.Ty, S: []Sc{{B: uint64(e.I)}}}
	case wgen.KF32:
		return Val{T: e.Ty, S: []Sc{scF32(float32(e.F))}}
	case wgen.KAbsFloat:
		return Val{T: e.Ty, S: []Sc{{B: f64bits(e.F)}}}
	}
	throw(ErrInternal, "literal of %s", e.Ty)
	return Val{}
}

func (ev *Eval) unary(e *wgen.Unary) Val {
	x := ev.eval(e.X)
	out := Val{T: e.Ty, S: make([]Sc, len(x.S))}
	sc := x.T.Scalar()
	ev.cov("op.unary" + e.Op + "." + sc.Key())
	for i, s := range x.S {
		var r Sc
		switch e.Op {
		case "!":
			r = Sc{B: s.B ^ 1, Ind: s.Ind}
		case "~":
			r = Sc{B: uint64(^uint32(s.B)), Ind: s.Ind || s.Tol > 0}
			if sc.Kind == wgen.KAbsInt {
				r.B = ^s.B
			}
		case "-":
			switch sc.Kind {
			case wgen.KI32:
				v := i32of(s)
				if ev.constMode && v == math.MinInt32 {
					throw(ErrConst, "negation overflow")
				}
				r = scI32(-v)
				r.Ind = s.Ind || s.Tol > 0
			case wgen.KAbsInt:
				if int64(s.B) == math.MinInt64 {
					throw(ErrConst, "negation overflow")
				}
				r = Sc{B: uint64(-int64(s.B))}
			case wgen.KF32:
				r = Sc{B: s.B ^ 0x80000000, Tol: s.Tol, Ind: s.Ind, ZS: s.ZS}
			case wgen.KAbsFloat:
				r = Sc{B: f64bits(-bitsf64(s.B))}
			default:
				throw(ErrInternal, "negate %s", sc)
			}
		}
		out.S[i] = r
	}
	return out
}

func (ev *Eval) binary(e *wgen.Binary) Val {
	// short-circuit
	if e.Op == "&&" || e.Op == "||" {
		l := ev.eval(e.L)
		ev.cov("op." + e.Op)
		if l.S[0].Ind {
			throw(ErrInconclusive, "indeterminate short-circuit condition")
		}
		if (e.Op == "&&") == (l.S[0].B == 0) {
			return l
		}
		return ev.eval(e.R)
	}
	l := ev.eval(e.L)
	r := ev.eval(e.R)
	lt, rt := l.T, r.T
	ev.cov("op." + e.Op + "." + lt.ShapeName() + "." + rt.ShapeName())
	// matrix products and sums
	if lt.Kind == wgen.KMat || rt.Kind == wgen.KMat {
		return ev.matBinary(e, l, r)
	}
	n := len(l.S)
	if len(r.S) > n {
		n = len(r.S)
	}
	out := Val{T: e.Ty, S: make([]Sc, n)}
	sc := lt.Scalar()
	for i := 0; i < n; i++ {
		a := l.S[min(i, len(l.S)-1)]
		b := r.S[min(i, len(r.S)-1)]
		out.S[i] = ev.scalarBin(e.Op, sc, rt.Scalar(), a, b)
	}
	return out
}

func (ev *Eval) scalarBin(op string, sc, rsc *wgen.Type, a, b Sc) Sc {
	switch op {
	case "==", "!=", "<", "<=", ">", ">=":
		return ev.compare(op, sc, a, b)
	case "<<", ">>":
		return ev.shift(op, sc, a, b)
	}
	if sc.Kind == wgen.KBool {
		switch op {
		case "&":
			return Sc{B: a.B & b.B, Ind: a.Ind || b.Ind}
		case "|":
			return Sc{B: a.B | b.B, Ind: a.Ind || b.Ind}
		}
		throw(ErrInternal, "bool op %s", op)
	}
	if sc.IsFloat() {
		return ev.floatBin(op, sc, a, b)
	}
	return ev.intBin(op, sc, a, b)
}

// fsum accumulates float terms; the order of accumulation is unspecified in WGSL => tolerant unless exact.
func (ev *Eval) fdotTerms(as, bs []Sc) Sc {
	// exact check: compute in float64 with exact products; if every partial sum is exactly representable in f32 in
	// left-to-right order AND the total is exact, all orders agree.
	acc := Sc{B: f32bits(0)}
	allExact := true
	for i := range as {
		p := fmul(as[i], bs[i])
		if p.Ind {
			return Sc{Ind: true}
		}
		if p.Tol > 0 {
			allExact = false
			p.Tol = 0
		}
		s := fadd(acc, p)
		if s.Ind {
			return Sc{Ind: true}
		}
		if s.Tol > 0 {
			allExact = false
			s.Tol = 0
		}
		acc = s
	}
	if !allExact {
		acc.Tol = uint16(4 * len(as))
		// catastrophic cancellation makes ulp bounds meaningless: treat tiny results of inexact sums as indeterminate
		var mag float64
		for i := range as {
			mag += math.Abs(float64(bitsf32(as[i].B)) * float64(bitsf32(bs[i].B)))
		}
		if math.Abs(float64(bitsf32(acc.B))) < mag*1e-3 {
			acc.Ind = true
		} else {
			terms := make([]float64, len(as))
			for i := range as {
				terms[i] = float64(bitsf32(as[i].B)) * float64(bitsf32(bs[i].B))
			}
			acc.Tol, acc.Ind = cancelTol(float64(bitsf32(acc.B)), uint16(4*len(as)), terms...)
		}
	}
	return acc
}

func (ev *Eval) matBinary(e *wgen.Binary, l, r Val) Val {
	lt, rt := l.T, r.T
	out := Val{T: e.Ty, S: make([]Sc, e.Ty.Leaves())}
	switch {
	case lt.Kind == wgen.KMat && rt.Kind == wgen.KMat && (e.Op == "+" || e.Op == "-"):
		for i := range out.S {
			out.S[i] = ev.floatBin(e.Op, wgen.F32, l.S[i], r.S[i])
		}
	case lt.Kind == wgen.KMat && rt.IsScalar():
		for i := range out.S {
			out.S[i] = ev.floatBin("*", wgen.F32, l.S[i], r.S[0])
		}
	case lt.IsScalar() && rt.Kind == wgen.KMat:
		for i := range out.S {
			out.S[i] = ev.floatBin("*", wgen.F32, l.S[0], r.S[i])
		}
	case lt.Kind == wgen.KMat && rt.Kind == wgen.KVec:
		// (C cols x R rows) * vecC -> vecR ; element r = sum_c m[c][r]*v[c]
		C, R := lt.N, lt.R
		for row := 0; row < R; row++ {
			as := make([]Sc, C)
			for c := 0; c < C; c++ {
				as[c] = l.S[c*R+row]
			}
			out.S[row] = ev.fdotTerms(as, r.S)
		}
	case lt.Kind == wgen.KVec && rt.Kind == wgen.KMat:
		// vecR * (C x R) -> vecC ; element c = dot(v, m[c])
		C, R := rt.N, rt.R
		for c := 0; c < C; c++ {
			out.S[c] = ev.fdotTerms(l.S, r.S[c*R:(c+1)*R])
		}
	case lt.Kind == wgen.KMat && rt.Kind == wgen.KMat:
		// (K x R) * (C x K) -> (C x R)
		K, R, C := lt.N, lt.R, rt.N
		for c := 0; c < C; c++ {
			for row := 0; row < R; row++ {
				as := make([]Sc, K)
				bs := make([]Sc, K)
				for k := 0; k < K; k++ {
					as[k] = l.S[k*R+row]
					bs[k] = r.S[c*K+k]
				}
				out.S[c*R+row] = ev.fdotTerms(as, bs)
			}
		}
	default:
		throw(ErrInternal, "matrix op %s %s %s", lt, e.Op, rt)
	}
	if ev.constMode {
		for _, s := range out.S {
			if s.Ind {
				throw(ErrConst, "const matrix op not finite")
			}
		}
	}
	return out
}

func (ev *Eval) construct(e *wgen.Cons) Val {
	t := e.Ty
	ev.cov("ctor." + kindOf(t))
	if len(e.Args) == 0 {
		return zeroVal(t)
	}
	var flat []Sc
	var argTypes []*wgen.Type
	for _, a := range e.Args {
		v := ev.eval(a)
		argTypes = append(argTypes, v.T)
		// component conversion for scalar/vector/matrix constructors
		if t.IsScalar() || t.Kind == wgen.KVec || t.Kind == wgen.KMat {
			ts := t.Scalar()
			fs := v.T.Scalar()
			for _, s := range v.S {
				if fs != ts {
					s = ev.convert(ts, fs, s, false)
				}
				flat = append(flat, s)
			}
		} else {
			flat = append(flat, v.S...)
		}
	}
	n := t.Leaves()
	if t.Kind == wgen.KVec && len(flat) == 1 && len(e.Args) == 1 && argTypes[0].IsScalar() {
		out := Val{T: t, S: make([]Sc, n)}
		for i := range out.S {
			out.S[i] = flat[0]
		}
		return out
	}
	if len(flat) != n {
		throw(ErrInternal, "constructor %s: %d leaves for %d", t, len(flat), n)
	}
	return Val{T: t, S: flat}
}

func kindOf(t *wgen.Type) string {
	switch t.Kind {
	case wgen.KVec:
		return "vec"
	case wgen.KMat:
		return "mat"
	case wgen.KArray:
		return "array"
	case wgen.KStruct:
		return "struct"
	}
	return "scalar"
}

// call evaluates a user function call.
func (ev *Eval) call(e *wgen.CallE) Val {
	f := e.F
	fr := &frame{vars: map[*wgen.Var]*Place{}, lets: map[*wgen.Var]Val{}, ptrs: map[*wgen.Var]*Place{}}
	for i, p := range f.Params {
		if p.Ty.Kind == wgen.KPtr {
			fr.ptrs[p] = ev.evalPtr(e.Args[i])
		} else {
			v := ev.eval(e.Args[i])
			if v.T != p.Ty {
				v = ev.materialize(v, p.Ty)
			}
			fr.lets[p] = v.clone()
		}
	}
	if len(ev.frames) > 64 {
		throw(ErrInternal, "call depth")
	}
	ev.cov("call")
	ev.frames = append(ev.frames, fr)
	oldFn := ev.curFn
	ev.curFn = f
	c, ret := ev.block(f.Body)
	ev.curFn = oldFn
	ev.frames = ev.frames[:len(ev.frames)-1]
	if f.Ret == nil {
		return Val{}
	}
	if c != ctlReturn {
		throw(ErrInternal, "function %s fell off the end", f.Name)
	}
	return ret
}
