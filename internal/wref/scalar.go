package wref

import (
	"math"
	"math/bits"

	"verif/internal/wgen"
)

// ---------- f32 helpers with exactness classification ----------

func isSubnormal32(f float32) bool {
	a := math.Abs(float64(f))
	return a != 0 && a < 0x1p-126
}

func badF32(f float32) bool {
	return math.IsNaN(float64(f)) || math.IsInf(float64(f), 0) || isSubnormal32(f)
}

// fres classifies a float result: r is the binary32 round-to-nearest-even result, exact says whether r equals the
// infinitely precise result.
func fres(r float32, exact bool, ins ...Sc) Sc {
	s := scF32(r)
	if taint(ins...) || badF32(r) {
		s.Ind = true
		return s
	}
	for _, in := range ins {
		if badF32(bitsf32(in.B)) {
			s.Ind = true
			return s
		}
	}
	if !exact {
		s.Tol = 1
	}
	if r == 0 {
		for _, in := range ins {
			if in.ZS {
				s.ZS = true
			}
		}
	}
	return s
}

func fadd(a, b Sc) Sc {
	x, y := bitsf32(a.B), bitsf32(b.B)
	r := float32(x + y)
	s64 := float64(x) + float64(y)
	exact64 := s64-float64(x) == float64(y) && s64-float64(y) == float64(x)
	return fres(r, exact64 && float64(r) == s64, a, b)
}
func fsub(a, b Sc) Sc {
	nb := b
	nb.B = f32bits(-bitsf32(b.B))
	return fadd(a, nb)
}
func fmul(a, b Sc) Sc {
	x, y := bitsf32(a.B), bitsf32(b.B)
	r := float32(x * y)
	p64 := float64(x) * float64(y) // exact: 24+24 bits
	return fres(r, float64(r) == p64, a, b)
}
func fdiv(a, b Sc) Sc {
	x, y := bitsf32(a.B), bitsf32(b.B)
	r := float32(x / y)
	s := fres(r, false, a, b)
	if y == 0 {
		s.Ind = true
	}
	// exact quotient? check r*y == x exactly
	if !s.Ind && float64(r)*float64(y) == float64(x) {
		s.Tol = 0
	} else if !s.Ind {
		s.Tol = 3 // 2.5 ULP
	}
	return s
}
func frem(a, b Sc) Sc {
	x, y := bitsf32(a.B), bitsf32(b.B)
	if y == 0 {
		return Sc{Ind: true}
	}
	q := float32(math.Trunc(float64(x / y)))
	r := float32(x - float32(y*q))
	s := fres(r, false, a, b)
	if !s.Ind {
		// exact when both are integers of moderate size (fmod is exact); otherwise the formula inherits division error
		if fm := float32(math.Mod(float64(x), float64(y))); fm == r {
			s.Tol = 0
			if float64(float32(x/y)) != float64(x)/float64(y) {
				// division inexact: truncation may differ by one step on another implementation
				fq := float64(x) / float64(y)
				if math.Abs(fq-math.Round(fq)) < 1e-4 {
					s.Ind = true
				}
			}
		} else {
			s.Ind = true
		}
	}
	return s
}

// f1 applies an exactly-defined unary float function (result representable exactly).
func fexact1(a Sc, f func(float64) float64) Sc {
	x := bitsf32(a.B)
	return fres(float32(f(float64(x))), true, a)
}

// ftol1 applies a tolerant function with the given ulp tolerance.
func ftol(r float64, tol uint16, ins ...Sc) Sc {
	s := fres(float32(r), true, ins...)
	if !s.Ind {
		if math.IsNaN(r) || math.IsInf(r, 0) {
			s.Ind = true
		} else {
			s.Tol = tol
		}
	}
	return s
}

func roundHalfEven(x float64) float64 { return math.RoundToEven(x) }

// cancelTol: tolerance (in ulps of the result v) of a sum of separately rounded terms: every term carries up to one
// ulp of its own magnitude (product rounding, possible fused evaluation, order of summation). A bound beyond 4096
// result-ulps makes the value indeterminate.
func cancelTol(v float64, base uint16, terms ...float64) (uint16, bool) {
	var bound float64
	for _, t := range terms {
		bound += ulp32(float32(t))
	}
	n := math.Ceil(bound/ulp32(float32(v))) + float64(base)
	if n > 4096 || math.IsNaN(n) {
		return 0, true
	}
	return uint16(n), false
}

// ---------- integer helpers ----------

func addOvf32(a, b int32) bool { s := int64(a) + int64(b); return s != int64(int32(s)) }
func subOvf32(a, b int32) bool { s := int64(a) - int64(b); return s != int64(int32(s)) }
func mulOvf32(a, b int32) bool { s := int64(a) * int64(b); return s != int64(int32(s)) }

func (ev *Eval) intBin(op string, t *wgen.Type, a, b Sc) Sc {
	ind := a.Ind || b.Ind || a.Tol > 0 || b.Tol > 0
	var r Sc
	switch t.Kind {
	case wgen.KI32:
		x, y := i32of(a), i32of(b)
		switch op {
		case "+":
			if ev.constMode && addOvf32(x, y) {
				throw(ErrConst, "i32 + overflow")
			}
			r = scI32(x + y)
		case "-":
			if ev.constMode && subOvf32(x, y) {
				throw(ErrConst, "i32 - overflow")
			}
			r = scI32(x - y)
		case "*":
			if ev.constMode && mulOvf32(x, y) {
				throw(ErrConst, "i32 * overflow")
			}
			r = scI32(x * y)
		case "/":
			switch {
			case y == 0:
				if ev.constMode {
					throwDefinite("division by zero")
				}
				r = scI32(x)
			case x == math.MinInt32 && y == -1:
				if ev.constMode {
					throw(ErrConst, "division overflow")
				}
				r = scI32(x)
			default:
				r = scI32(x / y)
			}
		case "%":
			switch {
			case y == 0:
				if ev.constMode {
					throwDefinite("modulo by zero")
				}
				r = scI32(0)
			case x == math.MinInt32 && y == -1:
				if ev.constMode {
					throw(ErrConst, "modulo overflow")
				}
				r = scI32(0)
			default:
				r = scI32(x % y)
			}
		case "&":
			r = scI32(x & y)
		case "|":
			r = scI32(x | y)
		case "^":
			r = scI32(x ^ y)
		default:
			throw(ErrInternal, "i32 op %s", op)
		}
	case wgen.KU32:
		x, y := u32of(a), u32of(b)
		switch op {
		case "+":
			if ev.constMode && uint64(x)+uint64(y) > math.MaxUint32 {
				throw(ErrConst, "u32 + overflow")
			}
			r = scU32(x + y)
		case "-":
			if ev.constMode && y > x {
				throw(ErrConst, "u32 - overflow")
			}
			r = scU32(x - y)
		case "*":
			if ev.constMode && uint64(x)*uint64(y) > math.MaxUint32 {
				throw(ErrConst, "u32 * overflow")
			}
			r = scU32(x * y)
		case "/":
			if y == 0 {
				if ev.constMode {
					throwDefinite("division by zero")
				}
				r = scU32(x)
			} else {
				r = scU32(x / y)
			}
		case "%":
			if y == 0 {
				if ev.constMode {
					throwDefinite("modulo by zero")
				}
				r = scU32(0)
			} else {
				r = scU32(x % y)
			}
		case "&":
			r = scU32(x & y)
		case "|":
			r = scU32(x | y)
		case "^":
			r = scU32(x ^ y)
		default:
			throw(ErrInternal, "u32 op %s", op)
		}
	case wgen.KAbsInt:
		x, y := int64(a.B), int64(b.B)
		var v int64
		switch op {
		case "+":
			v = x + y
			if (v > x) != (y > 0) {
				throw(ErrConst, "abstract-int + overflow")
			}
		case "-":
			v = x - y
			if (v < x) != (y > 0) {
				throw(ErrConst, "abstract-int - overflow")
			}
		case "*":
			hi, lo := bits.Mul64(uint64(abs64(x)), uint64(abs64(y)))
			if hi != 0 || lo > math.MaxInt64 {
				throw(ErrConst, "abstract-int * overflow")
			}
			v = x * y
		case "/":
			if y == 0 {
				throwDefinite("division by zero")
			}
			if x == math.MinInt64 && y == -1 {
				throw(ErrConst, "division overflow")
			}
			v = x / y
		case "%":
			if y == 0 {
				throwDefinite("modulo by zero")
			}
			if x == math.MinInt64 && y == -1 {
				throw(ErrConst, "modulo overflow")
			}
			v = x % y
		case "&":
			v = x & y
		case "|":
			v = x | y
		case "^":
			v = x ^ y
		default:
			throw(ErrInternal, "aint op %s", op)
		}
		r = Sc{B: uint64(v)}
	}
	r.Ind = ind
	return r
}

func abs64(x int64) int64 {
	if x < 0 {
		return -x
	}
	return x
}

func (ev *Eval) shift(op string, t *wgen.Type, a, b Sc) Sc {
	n := u32of(b)
	ind := a.Ind || b.Ind || a.Tol > 0 || b.Tol > 0
	if ev.constMode {
		if n >= 32 {
			throwDefinite("shift amount >= 32")
		}
	}
	n &= 31
	var r Sc
	switch t.Kind {
	case wgen.KI32:
		x := i32of(a)
		if op == "<<" {
			v := int32(uint32(x) << n)
			if ev.constMode && (v>>n) != x {
				throw(ErrConst, "i32 << overflow")
			}
			r = scI32(v)
		} else {
			r = scI32(x >> n)
		}
	case wgen.KU32:
		x := u32of(a)
		if op == "<<" {
			v := x << n
			if ev.constMode && (v>>n) != x {
				throw(ErrConst, "u32 << overflow")
			}
			r = scU32(v)
		} else {
			r = scU32(x >> n)
		}
	default:
		throw(ErrInternal, "shift on %s", t)
	}
	r.Ind = ind
	return r
}

func (ev *Eval) floatBin(op string, t *wgen.Type, a, b Sc) Sc {
	if t.Kind == wgen.KAbsFloat {
		x, y := bitsf64(a.B), bitsf64(b.B)
		var v float64
		switch op {
		case "+":
			v = x + y
		case "-":
			v = x - y
		case "*":
			v = x * y
		case "/":
			if y == 0 {
				throw(ErrConst, "abstract-float division by zero")
			}
			v = x / y
		case "%":
			if y == 0 {
				throw(ErrConst, "abstract-float modulo by zero")
			}
			v = math.Mod(x, y)
		}
		if math.IsNaN(v) || math.IsInf(v, 0) {
			throw(ErrConst, "abstract-float overflow")
		}
		return Sc{B: f64bits(v)}
	}
	var r Sc
	switch op {
	case "+":
		r = fadd(a, b)
	case "-":
		r = fsub(a, b)
	case "*":
		r = fmul(a, b)
	case "/":
		r = fdiv(a, b)
	case "%":
		r = frem(a, b)
	default:
		throw(ErrInternal, "f32 op %s", op)
	}
	if ev.constMode && (r.Ind || math.IsInf(float64(bitsf32(r.B)), 0)) {
		throw(ErrConst, "f32 const-expression not finite/defined")
	}
	return r
}

func (ev *Eval) compare(op string, t *wgen.Type, a, b Sc) Sc {
	var res bool
	switch t.Kind {
	case wgen.KBool:
		switch op {
		case "==":
			res = a.B == b.B
		case "!=":
			res = a.B != b.B
		}
	case wgen.KI32:
		x, y := i32of(a), i32of(b)
		res = cmpOrd(op, x < y, x == y)
	case wgen.KU32:
		x, y := u32of(a), u32of(b)
		res = cmpOrd(op, x < y, x == y)
	case wgen.KAbsInt:
		x, y := int64(a.B), int64(b.B)
		res = cmpOrd(op, x < y, x == y)
	case wgen.KF32:
		x, y := bitsf32(a.B), bitsf32(b.B)
		res = cmpOrd(op, x < y, x == y)
		s := scBool(res)
		if taint(a, b) || badF32(x) || badF32(y) {
			s.Ind = true
		}
		return s
	case wgen.KAbsFloat:
		x, y := bitsf64(a.B), bitsf64(b.B)
		res = cmpOrd(op, x < y, x == y)
	}
	s := scBool(res)
	s.Ind = a.Ind || b.Ind
	return s
}

func cmpOrd(op string, lt, eq bool) bool {
	switch op {
	case "==":
		return eq
	case "!=":
		return !eq
	case "<":
		return lt
	case "<=":
		return lt || eq
	case ">":
		return !lt && !eq
	case ">=":
		return !lt
	}
	throw(ErrInternal, "cmp %s", op)
	return false
}

// convert implements the value constructor T(x) for scalars and the implicit abstract materialisation.
func (ev *Eval) convert(to *wgen.Type, from *wgen.Type, a Sc, implicit bool) Sc {
	if to == from {
		return a
	}
	out := Sc{Ind: a.Ind}
	switch from.Kind {
	case wgen.KBool:
		v := a.B != 0
		switch to.Kind {
		case wgen.KI32, wgen.KU32:
			out.B = a.B & 1
		case wgen.KF32:
			if v {
				out.B = f32bits(1)
			} else {
				out.B = f32bits(0)
			}
		}
		return out
	case wgen.KI32, wgen.KU32:
		if a.Tol > 0 {
			out.Ind = true
		}
		switch to.Kind {
		case wgen.KBool:
			out.B = b2u(uint32(a.B) != 0)
		case wgen.KI32, wgen.KU32:
			out.B = a.B & 0xFFFFFFFF
			if ev.constMode {
				// value-changing reinterpretation in a const-expression: u32(negative i32) / i32(big u32): WGSL defines it as
				// a bit reinterpretation for concrete types; conservative: reject to stay clear of implementation differences
				if from.Kind == wgen.KI32 && i32of(a) < 0 || from.Kind == wgen.KU32 && u32of(a) > math.MaxInt32 {
					throw(ErrConst, "const int conversion changes value")
				}
			}
		case wgen.KF32:
			var f64 float64
			if from.Kind == wgen.KI32 {
				f64 = float64(i32of(a))
			} else {
				f64 = float64(u32of(a))
			}
			r := float32(f64)
			out.B = f32bits(r)
			if float64(r) != f64 {
				out.Tol = 1
			}
		}
		return out
	case wgen.KF32:
		x := bitsf32(a.B)
		if a.Tol > 0 || badF32(x) {
			out.Ind = true
		}
		if (a.Ind || a.Tol > 0 || badF32(x)) && (to.Kind == wgen.KI32 || to.Kind == wgen.KU32) {
			ev.cov("ind.f2i") // the converted value is not WGSL-defined: a target-level f2i trap on it is not a finding
		}
		switch to.Kind {
		case wgen.KBool:
			out.B = b2u(x != 0)
		case wgen.KI32:
			tr := math.Trunc(float64(x))
			switch {
			case math.IsNaN(tr):
				out.Ind = true
			case tr <= math.MinInt32:
				if tr < math.MinInt32 && ev.constMode {
					throw(ErrConst, "f32->i32 out of range")
				}
				out.B = uint64(uint32(0x80000000))
			case tr >= 2147483648.0:
				if ev.constMode {
					throw(ErrConst, "f32->i32 out of range")
				}
				// largest f32 below 2^31 is 2147483520; WGSL clamps to the representable range of the target
				out.B = uint64(uint32(math.MaxInt32))
				// implementations clamp either to INT_MAX or to 2147483520: accept both? value saturates: mark loose
				out.Ind = true
			default:
				out.B = uint64(uint32(int32(tr)))
			}
		case wgen.KU32:
			tr := math.Trunc(float64(x))
			switch {
			case math.IsNaN(tr):
				out.Ind = true
			case tr <= 0:
				if tr < 0 && ev.constMode {
					throw(ErrConst, "f32->u32 out of range")
				}
				out.B = 0
			case tr >= 4294967296.0:
				if ev.constMode {
					throw(ErrConst, "f32->u32 out of range")
				}
				out.B = uint64(uint32(math.MaxUint32))
				out.Ind = true
			default:
				out.B = uint64(uint32(tr))
			}
		}
		return out
	case wgen.KAbsInt:
		v := int64(a.B)
		switch to.Kind {
		case wgen.KI32:
			if v < math.MinInt32 || v > math.MaxInt32 {
				throwDefinite("abstract-int %d not representable in i32", v)
			}
			out.B = uint64(uint32(int32(v)))
		case wgen.KU32:
			if v < 0 || v > math.MaxUint32 {
				throwDefinite("abstract-int %d not representable in u32", v)
			}
			out.B = uint64(uint32(v))
		case wgen.KF32:
			r := float32(v)
			out.B = f32bits(r)
			if float64(r) != float64(v) || int64(float64(v)) != v {
				out.Tol = 1
			}
		case wgen.KAbsFloat:
			out.B = f64bits(float64(v))
		case wgen.KBool:
			out.B = b2u(v != 0)
		}
		return out
	case wgen.KAbsFloat:
		v := bitsf64(a.B)
		switch to.Kind {
		case wgen.KF32:
			r := float32(v)
			if math.IsInf(float64(r), 0) || math.IsNaN(float64(r)) {
				throw(ErrConst, "abstract-float %g not representable in f32", v)
			}
			out.B = f32bits(r)
			if float64(r) != v {
				out.Tol = 1
			}
			if isSubnormal32(r) {
				out.Ind = true
			}
		case wgen.KI32:
			if implicit {
				throw(ErrInternal, "implicit abstract-float -> i32")
			}
			tr := math.Trunc(v)
			if tr < math.MinInt32 || tr > math.MaxInt32 {
				throw(ErrConst, "abstract-float -> i32 out of range")
			}
			out.B = uint64(uint32(int32(tr)))
		case wgen.KU32:
			tr := math.Trunc(v)
			if tr < 0 || tr > math.MaxUint32 {
				throw(ErrConst, "abstract-float -> u32 out of range")
			}
			out.B = uint64(uint32(tr))
		case wgen.KBool:
			out.B = b2u(v != 0)
		}
		return out
	}
	throw(ErrInternal, "convert %s -> %s", from, to)
	return out
}

func b2u(b bool) uint64 {
	if b {
		return 1
	}
	return 0
}
