package wref

import (
	"fmt"

	"verif/internal/wgen"
)

// Eval is one evaluation context (one invocation).
type Eval struct {
	M         *wgen.Module
	constMode bool
	steps     int
	maxSteps  int
	globals   map[*wgen.Var]*Place // storage / uniform / private / workgroup
	consts    map[*wgen.Var]Val    // module consts (lazily evaluated)
	ovr       map[*wgen.Var]Val    // override values (resolved)
	frames    []*frame
	Cov       map[string]int
	inv       *Invocation
	// policy for out-of-bounds accesses (C15): "" = inconclusive, "restrict" = clamp, "rzsw" = read zero / skip write
	Policy    string
	oob       int
	curFn     *wgen.Func
	onBarrier func()
}

type frame struct {
	vars map[*wgen.Var]*Place // var
	lets map[*wgen.Var]Val    // let / const / value params
	ptrs map[*wgen.Var]*Place // pointer params / pointer lets
}

type Invocation struct {
	GlobalID, LocalID, GroupID, NumGroups [3]uint32
	LocalIndex                            uint32
}

type ctl int

const (
	ctlNone ctl = iota
	ctlBreak
	ctlContinue
	ctlReturn
)

func (ev *Eval) cov(k string) {
	if ev.Cov != nil {
		ev.Cov[k]++
	}
}

func (ev *Eval) tick() {
	ev.steps++
	if ev.maxSteps > 0 && ev.steps > ev.maxSteps {
		throw(ErrBudget, "step budget")
	}
}

func (ev *Eval) top() *frame { return ev.frames[len(ev.frames)-1] }

func resolveVar(v *wgen.Var) *wgen.Var {
	for v.Alias != nil {
		v = v.Alias
	}
	return v
}

// ---------- places ----------

func (ev *Eval) placeOfVar(v *wgen.Var) *Place {
	v = resolveVar(v)
	if v.Kind == wgen.VGlobal {
		p := ev.globals[v]
		if p == nil {
			throw(ErrInternal, "global %s has no storage", v.Name)
		}
		return p
	}
	for i := len(ev.frames) - 1; i >= 0; i-- {
		if p, ok := ev.frames[i].vars[v]; ok {
			return p
		}
		break // only the current frame holds locals
	}
	if p, ok := ev.top().vars[v]; ok {
		return p
	}
	throw(ErrInternal, "variable %s not in scope", v.Name)
	return nil
}

// evalPlace evaluates a reference expression to a place. Returns nil place (with ok=false) when e is not a reference.
func (ev *Eval) evalPlace(e wgen.Expr) *Place {
	switch e := e.(type) {
	case *wgen.Paren:
		return ev.evalPlace(e.X)
	case *wgen.Ref:
		v := resolveVar(e.V)
		if v.IsRefVar() {
			return ev.placeOfVar(v)
		}
		return nil
	case *wgen.Deref:
		return ev.evalPtr(e.X)
	case *wgen.Field:
		base := ev.evalPlace(e.X)
		if base == nil {
			return nil
		}
		st := base.T
		off := 0
		for i := 0; i < e.Idx; i++ {
			off += st.Members[i].Type.Leaves()
		}
		mt := st.Members[e.Idx].Type
		n := mt.Leaves()
		p := &Place{T: mt, Root: base.Root}
		if mt.HasRuntimeArray() {
			p.RT = base.RT
			n = leaves(mt, *base.RT)
		}
		p.Cells = base.Cells[off : off+n]
		return p
	case *wgen.Index:
		base := ev.evalPlace(e.X)
		if base == nil {
			return nil
		}
		idx, ok := ev.evalIndex(e.I)
		n, et, stride := containerShape(base.T)
		if base.T.Kind == wgen.KArray && base.T.N == 0 {
			n = *base.RT
		}
		if !ok || idx < 0 || idx >= int64(n) {
			idx = ev.outOfBounds(idx, n, ok)
			if idx < 0 {
				// rzsw: a detached zero cell (reads zero, writes vanish)
				return &Place{T: et, Cells: make([]Sc, stride), Root: nil}
			}
		}
		return &Place{T: et, Cells: base.Cells[int(idx)*stride : (int(idx)+1)*stride], Root: base.Root}
	case *wgen.Swiz:
		if len(e.Comps) != 1 {
			return nil
		}
		base := ev.evalPlace(e.X)
		if base == nil {
			return nil
		}
		c := e.Comps[0]
		return &Place{T: base.T.Elem, Cells: base.Cells[c : c+1], Root: base.Root}
	}
	return nil
}

// outOfBounds decides what an out-of-range index does. Returns the index to use, or -1 for a detached zero cell.
func (ev *Eval) outOfBounds(idx int64, n int, defined bool) int64 {
	ev.oob++
	switch ev.Policy {
	case "restrict":
		if !defined {
			throw(ErrInconclusive, "indeterminate index")
		}
		if n == 0 {
			return -1
		}
		if idx < 0 {
			// indices are compared as unsigned by the clamp: min(u32(idx), n-1)
			return int64(n - 1)
		}
		return int64(n - 1)
	case "rzsw":
		if !defined {
			throw(ErrInconclusive, "indeterminate index")
		}
		return -1
	}
	throw(ErrInconclusive, "out-of-bounds index %d (len %d)", idx, n)
	return 0
}

func containerShape(t *wgen.Type) (n int, elem *wgen.Type, stride int) {
	switch t.Kind {
	case wgen.KArray:
		return t.N, t.Elem, t.Elem.Leaves()
	case wgen.KVec:
		return t.N, t.Elem, 1
	case wgen.KMat:
		return t.N, colOf(t), t.R
	}
	throw(ErrInternal, "index into %s", t)
	return
}

var colCache = map[[2]int]*wgen.Type{}

func colOf(t *wgen.Type) *wgen.Type {
	// column vector type of a matrix; structural (not interned in the module's universe) — only Kind/N/Elem are used
	k := [2]int{t.R, int(t.Elem.Kind)}
	if c, ok := colCache[k]; ok {
		return c
	}
	c := &wgen.Type{Kind: wgen.KVec, N: t.R, Elem: t.Elem}
	colCache[k] = c
	return c
}

func (ev *Eval) evalIndex(e wgen.Expr) (int64, bool) {
	v := ev.eval(e)
	s := v.S[0]
	if s.Ind || s.Tol > 0 {
		return 0, false
	}
	switch v.T.Kind {
	case wgen.KI32:
		return int64(i32of(s)), true
	case wgen.KU32:
		return int64(u32of(s)), true
	case wgen.KAbsInt:
		return int64(s.B), true
	}
	throw(ErrInternal, "index of type %s", v.T)
	return 0, false
}

// evalPtr evaluates a pointer-typed expression.
func (ev *Eval) evalPtr(e wgen.Expr) *Place {
	switch e := e.(type) {
	case *wgen.Paren:
		return ev.evalPtr(e.X)
	case *wgen.AddrOf:
		p := ev.evalPlace(e.X)
		if p == nil {
			throw(ErrInternal, "address-of non-reference")
		}
		return p
	case *wgen.Ref:
		v := resolveVar(e.V)
		if p, ok := ev.top().ptrs[v]; ok {
			return p
		}
		throw(ErrInternal, "pointer %s not bound", v.Name)
	}
	throw(ErrInternal, "pointer expression %T", e)
	return nil
}

func (p *Place) load() Val {
	return Val{T: p.T, S: append([]Sc(nil), p.Cells...)}
}

func (p *Place) store(v Val) {
	if len(v.S) != len(p.Cells) {
		throw(ErrInternal, "store size mismatch %s <- %s (%d vs %d)", p.T, v.T, len(p.Cells), len(v.S))
	}
	copy(p.Cells, v.S)
}

// ---------- module-level values ----------

func (ev *Eval) constVal(v *wgen.Var) Val {
	if c, ok := ev.consts[v]; ok {
		return c
	}
	old := ev.constMode
	ev.constMode = true
	fr := &frame{vars: map[*wgen.Var]*Place{}, lets: map[*wgen.Var]Val{}, ptrs: map[*wgen.Var]*Place{}}
	ev.frames = append(ev.frames, fr)
	c := ev.eval(v.Init)
	ev.frames = ev.frames[:len(ev.frames)-1]
	ev.constMode = old
	if c.T != v.Ty {
		c = ev.materialize(c, v.Ty)
	}
	ev.consts[v] = c
	return c
}

func (ev *Eval) materialize(v Val, to *wgen.Type) Val {
	if v.T == to {
		return v
	}
	out := Val{T: to, S: make([]Sc, len(v.S))}
	fs, ts := v.T.Scalar(), to.Scalar()
	for i, s := range v.S {
		out.S[i] = ev.convert(ts, fs, s, true)
	}
	return out
}

func (e *ExecError) String() string { return fmt.Sprint(e.Msg) }
