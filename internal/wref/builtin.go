package wref

import (
	"math"
	"math/bits"

	"verif/internal/wgen"
)

// per-component application helpers
func map1(t *wgen.Type, a Val, f func(Sc) Sc) Val {
	out := Val{T: t, S: make([]Sc, len(a.S))}
	for i := range a.S {
		out.S[i] = f(a.S[i])
	}
	return out
}
func map2(t *wgen.Type, a, b Val, f func(x, y Sc) Sc) Val {
	n := max(len(a.S), len(b.S))
	out := Val{T: t, S: make([]Sc, n)}
	for i := 0; i < n; i++ {
		out.S[i] = f(a.S[min(i, len(a.S)-1)], b.S[min(i, len(b.S)-1)])
	}
	return out
}
func map3(t *wgen.Type, a, b, c Val, f func(x, y, z Sc) Sc) Val {
	n := max(len(a.S), max(len(b.S), len(c.S)))
	out := Val{T: t, S: make([]Sc, n)}
	for i := 0; i < n; i++ {
		out.S[i] = f(a.S[min(i, len(a.S)-1)], b.S[min(i, len(b.S)-1)], c.S[min(i, len(c.S)-1)])
	}
	return out
}

func intInd(ss ...Sc) bool {
	for _, s := range ss {
		if s.Ind || s.Tol > 0 {
			return true
		}
	}
	return false
}

// tolerances (ulps) for tolerant-class float builtins; generous roundings of the WGSL accuracy table.
var tolOf = map[string]uint16{"sqrt": 3, "inverseSqrt": 3, "exp": 64, "exp2": 64, "log": 64, "log2": 64, "sin": 0, "cos": 0, "tan": 0,
	"sinh": 128, "cosh": 128, "tanh": 128, "asin": 0, "acos": 0, "atan": 4096, "asinh": 4096, "acosh": 4096, "atanh": 4096,
	"degrees": 4, "radians": 4, "pow": 256, "atan2": 4096, "fract": 1}

// absolute-error class functions (sin/cos/… have absolute error bounds in WGSL): handled as Ind-unless-close by the comparer via Tol=65535 marker
const absTolMarker = 0xFFFF

func (ev *Eval) builtin(e *wgen.Builtin) Val {
	name := e.Name
	ev.cov("fn." + name)
	// pointer-taking builtins first
	switch name {
	case "arrayLength":
		p := ev.evalPtr(e.Args[0])
		if p.RT == nil {
			throw(ErrInternal, "arrayLength of sized array")
		}
		return Val{T: wgen.U32, S: []Sc{scU32(uint32(*p.RT))}}
	case "atomicLoad":
		p := ev.evalPtr(e.Args[0])
		return Val{T: e.Ty, S: []Sc{p.Cells[0]}}
	case "atomicStore":
		p := ev.evalPtr(e.Args[0])
		v := ev.eval(e.Args[1])
		p.Cells[0] = v.S[0]
		return Val{}
	case "atomicAdd", "atomicSub", "atomicMax", "atomicMin", "atomicAnd", "atomicOr", "atomicXor", "atomicExchange":
		p := ev.evalPtr(e.Args[0])
		v := ev.eval(e.Args[1]).S[0]
		old := p.Cells[0]
		et := p.T.Elem
		var nv Sc
		switch name {
		case "atomicAdd":
			nv = ev.intBinRT("+", et, old, v)
		case "atomicSub":
			nv = ev.intBinRT("-", et, old, v)
		case "atomicAnd":
			nv = ev.intBinRT("&", et, old, v)
		case "atomicOr":
			nv = ev.intBinRT("|", et, old, v)
		case "atomicXor":
			nv = ev.intBinRT("^", et, old, v)
		case "atomicExchange":
			nv = v
		case "atomicMax":
			nv = imax(et, old, v)
		case "atomicMin":
			nv = imin(et, old, v)
		}
		p.Cells[0] = nv
		return Val{T: e.Ty, S: []Sc{old}}
	case "atomicCompareExchangeWeak":
		p := ev.evalPtr(e.Args[0])
		cmp := ev.eval(e.Args[1]).S[0]
		v := ev.eval(e.Args[2]).S[0]
		old := p.Cells[0]
		if intInd(old, cmp) {
			throw(ErrInconclusive, "indeterminate compare-exchange")
		}
		ex := uint32(old.B) == uint32(cmp.B)
		if ex {
			p.Cells[0] = v
		}
		// `exchanged` may spuriously be false in WGSL (weak): mark it indeterminate
		return Val{T: e.Ty, S: []Sc{old, {B: b2u(ex), Ind: true}}}
	case "workgroupBarrier", "storageBarrier", "textureBarrier":
		if ev.onBarrier != nil {
			ev.onBarrier()
		}
		return Val{}
	}
	args := make([]Val, len(e.Args))
	for i, a := range e.Args {
		args[i] = ev.eval(a)
	}
	t := e.Ty
	a0 := args[0]
	sc := a0.T.Scalar()
	switch name {
	case "bitcast":
		return ev.bitcast(t, a0)
	case "all", "any":
		r := name == "all"
		ind := false
		for _, s := range a0.S {
			ind = ind || s.Ind
			if name == "all" {
				r = r && s.B != 0
			} else {
				r = r || s.B != 0
			}
		}
		return Val{T: wgen.Bool, S: []Sc{{B: b2u(r), Ind: ind}}}
	case "select":
		f, tv, c := args[0], args[1], args[2]
		out := Val{T: t, S: make([]Sc, len(f.S))}
		if len(c.S) == 1 {
			if c.S[0].Ind {
				for i := range out.S {
					out.S[i] = Sc{Ind: true}
				}
				return out
			}
			if c.S[0].B != 0 {
				return Val{T: t, S: append([]Sc(nil), tv.S...)}
			}
			return Val{T: t, S: append([]Sc(nil), f.S...)}
		}
		for i := range out.S {
			switch {
			case c.S[i].Ind:
				out.S[i] = Sc{Ind: true}
			case c.S[i].B != 0:
				out.S[i] = tv.S[i]
			default:
				out.S[i] = f.S[i]
			}
		}
		return out
	case "dot":
		if sc.IsFloat() {
			if sc.Kind == wgen.KAbsFloat {
				var s float64
				for i := range a0.S {
					s += bitsf64(a0.S[i].B) * bitsf64(args[1].S[i].B)
				}
				return Val{T: t, S: []Sc{{B: f64bits(s)}}}
			}
			r := ev.fdotTerms(a0.S, args[1].S)
			if bitsf32(r.B) == 0 {
				r.ZS = true // the sign of a zero sum of products depends on the accumulation (start value, order, fma)
			}
			return Val{T: t, S: []Sc{r}}
		}
		acc := Sc{}
		for i := range a0.S {
			p := ev.intBinRT("*", sc, a0.S[i], args[1].S[i])
			acc = ev.intBinRT("+", sc, acc, p)
		}
		if ev.constMode {
			// conservative: recompute with overflow detection
			acc2 := Sc{}
			for i := range a0.S {
				p := ev.intBin("*", sc, a0.S[i], args[1].S[i])
				acc2 = ev.intBin("+", sc, acc2, p)
			}
		}
		return Val{T: t, S: []Sc{acc}}
	case "transpose":
		C, R := a0.T.N, a0.T.R
		out := Val{T: t, S: make([]Sc, len(a0.S))}
		for c := 0; c < C; c++ {
			for r := 0; r < R; r++ {
				out.S[r*C+c] = a0.S[c*R+r]
			}
		}
		return out
	}
	if sc.IsInt() {
		return ev.intBuiltin(name, t, sc, args)
	}
	if sc.IsFloat() {
		return ev.floatBuiltin(name, t, sc, args)
	}
	throw(ErrInternal, "builtin %s on %s", name, a0.T)
	return Val{}
}

// intBinRT: run-time semantics (wrap) regardless of const mode.
func (ev *Eval) intBinRT(op string, t *wgen.Type, a, b Sc) Sc {
	old := ev.constMode
	ev.constMode = false
	r := ev.intBin(op, t, a, b)
	ev.constMode = old
	return r
}

func less(t *wgen.Type, a, b Sc) bool {
	switch t.Kind {
	case wgen.KI32:
		return i32of(a) < i32of(b)
	case wgen.KU32:
		return u32of(a) < u32of(b)
	case wgen.KAbsInt:
		return int64(a.B) < int64(b.B)
	}
	return false
}
func imax(t *wgen.Type, a, b Sc) Sc {
	r := a
	if less(t, a, b) {
		r = b
	}
	r.Ind = intInd(a, b)
	r.Tol = 0
	return r
}
func imin(t *wgen.Type, a, b Sc) Sc {
	r := a
	if less(t, b, a) {
		r = b
	}
	r.Ind = intInd(a, b)
	r.Tol = 0
	return r
}

func (ev *Eval) intBuiltin(name string, t *wgen.Type, sc *wgen.Type, args []Val) Val {
	a0 := args[0]
	abs := sc.Kind == wgen.KAbsInt
	switch name {
	case "min":
		return map2(t, a0, args[1], func(x, y Sc) Sc { return imin(sc, x, y) })
	case "max":
		return map2(t, a0, args[1], func(x, y Sc) Sc { return imax(sc, x, y) })
	case "clamp":
		return map3(t, a0, args[1], args[2], func(x, lo, hi Sc) Sc {
			if ev.constMode && less(sc, hi, lo) {
				throw(ErrConst, "clamp low > high in const-expression")
			}
			return imin(sc, imax(sc, x, lo), hi)
		})
	case "abs":
		return map1(t, a0, func(x Sc) Sc {
			switch sc.Kind {
			case wgen.KI32:
				v := i32of(x)
				if v < 0 {
					if ev.constMode && v == math.MinInt32 {
						throw(ErrConst, "abs overflow")
					}
					v = -v
				}
				return Sc{B: uint64(uint32(v)), Ind: intInd(x)}
			case wgen.KAbsInt:
				v := int64(x.B)
				if v == math.MinInt64 {
					throw(ErrConst, "abs overflow")
				}
				if v < 0 {
					v = -v
				}
				return Sc{B: uint64(v)}
			}
			return Sc{B: x.B, Ind: intInd(x)}
		})
	case "sign":
		return map1(t, a0, func(x Sc) Sc {
			var v int64
			if abs {
				v = int64(x.B)
			} else {
				v = int64(i32of(x))
			}
			r := int64(0)
			if v > 0 {
				r = 1
			} else if v < 0 {
				r = -1
			}
			if abs {
				return Sc{B: uint64(r)}
			}
			return Sc{B: uint64(uint32(int32(r))), Ind: intInd(x)}
		})
	}
	if abs {
		throw(ErrInternal, "builtin %s on abstract-int", name)
	}
	u := func(x Sc) uint32 { return u32of(x) }
	mk := func(v uint32, ins ...Sc) Sc { return Sc{B: uint64(v), Ind: intInd(ins...)} }
	switch name {
	case "countOneBits":
		return map1(t, a0, func(x Sc) Sc { return mk(uint32(bits.OnesCount32(u(x))), x) })
	case "countLeadingZeros":
		return map1(t, a0, func(x Sc) Sc { return mk(uint32(bits.LeadingZeros32(u(x))), x) })
	case "countTrailingZeros":
		return map1(t, a0, func(x Sc) Sc { return mk(uint32(bits.TrailingZeros32(u(x))), x) })
	case "reverseBits":
		return map1(t, a0, func(x Sc) Sc { return mk(bits.Reverse32(u(x)), x) })
	case "firstTrailingBit":
		return map1(t, a0, func(x Sc) Sc {
			if u(x) == 0 {
				return mk(0xFFFFFFFF, x)
			}
			return mk(uint32(bits.TrailingZeros32(u(x))), x)
		})
	case "firstLeadingBit":
		return map1(t, a0, func(x Sc) Sc {
			v := u(x)
			if sc.Kind == wgen.KI32 {
				if int32(v) < 0 {
					v = ^v
				}
			}
			if v == 0 {
				return mk(0xFFFFFFFF, x)
			}
			return mk(uint32(31-bits.LeadingZeros32(v)), x)
		})
	case "extractBits":
		off, cnt := args[1].S[0], args[2].S[0]
		if ev.constMode && uint64(u(off))+uint64(u(cnt)) > 32 {
			throw(ErrConst, "extractBits offset+count > 32")
		}
		return map1(t, a0, func(x Sc) Sc {
			o := min(u(off), 32)
			c := min(u(cnt), 32-o)
			if c == 0 {
				return mk(0, x, off, cnt)
			}
			var r uint32
			if sc.Kind == wgen.KI32 {
				r = uint32(int32(u(x)<<(32-c-o)) >> (32 - c))
			} else {
				r = (u(x) << (32 - c - o)) >> (32 - c)
			}
			return mk(r, x, off, cnt)
		})
	case "insertBits":
		off, cnt := args[2].S[0], args[3].S[0]
		if ev.constMode && uint64(u(off))+uint64(u(cnt)) > 32 {
			throw(ErrConst, "insertBits offset+count > 32")
		}
		return map2(t, a0, args[1], func(x, n Sc) Sc {
			o := min(u(off), 32)
			c := min(u(cnt), 32-o)
			if c == 0 {
				return mk(u(x), x, n, off, cnt)
			}
			var mask uint32 = 0xFFFFFFFF
			if c < 32 {
				mask = ((1 << c) - 1)
			}
			mask <<= o
			return mk((u(x)&^mask)|((u(n)<<o)&mask), x, n, off, cnt)
		})
	}
	throw(ErrInternal, "int builtin %s", name)
	return Val{}
}

func (ev *Eval) floatBuiltin(name string, t *wgen.Type, sc *wgen.Type, args []Val) Val {
	a0 := args[0]
	if sc.Kind == wgen.KAbsFloat {
		return ev.absFloatBuiltin(name, t, args)
	}
	f := func(x Sc) float64 { return float64(bitsf32(x.B)) }
	exact1 := func(fn func(float64) float64) Val {
		return map1(t, a0, func(x Sc) Sc { return fexact1(x, fn) })
	}
	var out Val
	switch name {
	case "abs":
		out = map1(t, a0, func(x Sc) Sc { return Sc{B: x.B &^ 0x80000000, Tol: x.Tol, Ind: x.Ind} })
	case "floor", "ceil", "trunc", "round":
		out = exact1(map[string]func(float64) float64{"floor": math.Floor, "ceil": math.Ceil, "trunc": math.Trunc, "round": roundHalfEven}[name])
		for i := range out.S {
			if bitsf32(out.S[i].B) == 0 {
				out.S[i].ZS = true
			}
		}
	case "sign":
		out = exact1(func(x float64) float64 {
			switch {
			case x > 0:
				return 1
			case x < 0:
				return -1
			}
			return 0 // sign(±0) = 0 (sign of zero result unspecified: +0 vs -0 compare equal bitwise? no) — see below
		})
		// the sign of a zero result is not pinned down by WGSL: mark zero results from -0.0 input loosely
		for i, x := range a0.S {
			if bitsf32(x.B) == 0 && x.B&0x80000000 != 0 {
				out.S[i].Ind = true
			}
		}
	case "saturate":
		out = exact1(func(x float64) float64 { return math.Min(math.Max(x, 0), 1) })
		for i, x := range a0.S { // saturate(-0.0): max(-0,0) sign unspecified
			if bitsf32(x.B) == 0 && x.B&0x80000000 != 0 {
				out.S[i].Ind = true
			}
		}
	case "min", "max":
		out = map2(t, a0, args[1], func(x, y Sc) Sc {
			fx, fy := f(x), f(y)
			r := x
			if name == "min" && fy < fx || name == "max" && fy > fx {
				r = y
			}
			tol, ind := worst(x, y)
			res := Sc{B: r.B, Tol: tol, Ind: ind || badF32(float32(fx)) || badF32(float32(fy))}
			if fx == 0 && fy == 0 && x.B != y.B { // min(+0,-0): either
				res.Ind = true
			}
			return res
		})
	case "clamp":
		out = map3(t, a0, args[1], args[2], func(x, lo, hi Sc) Sc {
			fx, fl, fh := f(x), f(lo), f(hi)
			if taint(x, lo, hi) || badF32(float32(fx)) || badF32(float32(fl)) || badF32(float32(fh)) || fl > fh {
				return Sc{Ind: true}
			}
			r := x
			if fx < fl {
				r = lo
			} else if fx > fh {
				r = hi
			}
			res := Sc{B: r.B}
			if f(r) == 0 && (fx == 0 && fl == 0 || fx == 0 && fh == 0) && (x.B != lo.B || x.B != hi.B) {
				// zero of either sign
				if x.B != r.B || (fl == 0 && lo.B != x.B) || (fh == 0 && hi.B != x.B) {
					res.Ind = true
				}
			}
			return res
		})
	case "step":
		out = map2(t, a0, args[1], func(edge, x Sc) Sc {
			if taint(edge, x) || badF32(float32(f(edge))) || badF32(float32(f(x))) {
				return Sc{Ind: true}
			}
			if f(edge) <= f(x) {
				return scF32(1)
			}
			return scF32(0)
		})
	case "fract":
		out = map1(t, a0, func(x Sc) Sc {
			v := bitsf32(x.B)
			r := float32(v - float32(math.Floor(float64(v))))
			s := fres(r, float64(r) == float64(v)-math.Floor(float64(v)), x)
			if !s.Ind && r >= 1 {
				s.Ind = true
			}
			return s
		})
	case "sqrt", "inverseSqrt", "exp", "exp2", "log", "log2", "sinh", "cosh", "tanh", "atan", "asinh", "acosh", "atanh", "degrees", "radians", "sin", "cos", "tan", "asin", "acos":
		fn := map[string]func(float64) float64{"sqrt": math.Sqrt, "inverseSqrt": func(x float64) float64 { return 1 / math.Sqrt(x) }, "exp": math.Exp, "exp2": math.Exp2,
			"log": math.Log, "log2": math.Log2, "sinh": math.Sinh, "cosh": math.Cosh, "tanh": math.Tanh, "atan": math.Atan, "asinh": math.Asinh, "acosh": math.Acosh,
			"atanh": math.Atanh, "degrees": func(x float64) float64 { return x * 180 / math.Pi }, "radians": func(x float64) float64 { return x * math.Pi / 180 },
			"sin": math.Sin, "cos": math.Cos, "tan": math.Tan, "asin": math.Asin, "acos": math.Acos}[name]
		tol := tolOf[name]
		out = map1(t, a0, func(x Sc) Sc {
			s := ftol(fn(f(x)), tol, x)
			if tol == 0 && !s.Ind {
				s.Tol = absTolMarker
				// sin/cos/tan/asin/acos: absolute error bounds hold only on a limited domain; large arguments are loose
				if math.Abs(f(x)) > 3.2 && (name == "sin" || name == "cos" || name == "tan") {
					s.Ind = true
				}
				if name == "tan" {
					s.Ind = true // inherited from sin/cos: too loose to compare
				}
			}
			return s
		})
	case "pow", "atan2":
		fn := math.Pow
		if name == "atan2" {
			fn = math.Atan2
		}
		out = map2(t, a0, args[1], func(x, y Sc) Sc {
			s := ftol(fn(f(x), f(y)), tolOf[name], x, y)
			if name == "pow" && f(x) <= 0 {
				s.Ind = true // pow = exp2(y*log2(x)): undefined for x<=0 on some implementations
			}
			if name == "atan2" && (x.ZS || y.ZS) {
				s.Ind = true // atan2(+-0, x < 0) is +-pi: the result follows a zero sign that is not pinned down
			}
			return s
		})
	case "fma":
		out = map3(t, a0, args[1], args[2], func(x, y, z Sc) Sc {
			// either fused or x*y+z: compare within a few ulps of the fused result; indeterminate under cancellation
			fused := math.FMA(f(x), f(y), f(z))
			s := ftol(fused, 4, x, y, z)
			unf := float64(float32(float32(f(x)*f(y)) + float32(f(z))))
			if !s.Ind && math.Abs(fused-unf) > 4*ulp32(float32(fused)) {
				s.Ind = true
			}
			if !s.Ind && float64(float32(fused)) == fused && unf == fused {
				s.Tol = 0
			}
			return s
		})
	case "mix":
		out = map3(t, a0, args[1], args[2], func(x, y, a Sc) Sc {
			// x*(1-a)+y*a or x+(y-x)*a
			v1 := f(x)*(1-f(a)) + f(y)*f(a)
			v2 := f(x) + (f(y)-f(x))*f(a)
			s := ftol(v1, 8, x, y, a)
			if !s.Ind && math.Abs(v1-v2) > 4*ulp32(float32(v1)) {
				s.Ind = true
			}
			// x*(1-a) + y*a evaluated in f32 carries the rounding of its two products: with |a| large they are far
			// bigger than the result (mix(x, x, 1e6) is x in one form and x +- a few units in the other)
			if tol, ind := cancelTol(v1, 8, f(x)*(1-f(a)), f(y)*f(a), (f(y)-f(x))*f(a)); ind {
				s.Ind = true
			} else if tol > s.Tol {
				s.Tol = tol
			}
			m := math.Max(math.Abs(f(x)), math.Abs(f(y)))
			if !s.Ind && math.Abs(v1) < m*1e-3 {
				s.Ind = true
			}
			return s
		})
	case "smoothstep":
		out = map3(t, a0, args[1], args[2], func(lo, hi, x Sc) Sc {
			if f(lo) >= f(hi) {
				return Sc{Ind: true}
			}
			tt := math.Min(math.Max((f(x)-f(lo))/(f(hi)-f(lo)), 0), 1)
			return ftol(tt*tt*(3-2*tt), 64, lo, hi, x)
		})
	case "length":
		var s float64
		for _, x := range a0.S {
			s += f(x) * f(x)
		}
		r := ftol(math.Sqrt(s), uint16(8+2*len(a0.S)), a0.S...)
		if s > math.MaxFloat32 || (s != 0 && s < 1e-37) {
			r.Ind = true // the sum of squares overflows / underflows in f32: implementation-defined
		}
		if len(a0.S) == 1 {
			r = ftol(math.Abs(f(a0.S[0])), 0, a0.S[0])
		}
		return Val{T: t, S: []Sc{r}}
	case "distance":
		var s float64
		for i, x := range a0.S {
			d := float64(float32(f(x) - f(args[1].S[i])))
			s += d * d
		}
		ins := append(append([]Sc{}, a0.S...), args[1].S...)
		dr := ftol(math.Sqrt(s), uint16(12+2*len(a0.S)), ins...)
		if s > math.MaxFloat32 || (s != 0 && s < 1e-37) {
			dr.Ind = true
		}
		return Val{T: t, S: []Sc{dr}}
	case "normalize":
		var s float64
		for _, x := range a0.S {
			s += f(x) * f(x)
		}
		l := math.Sqrt(s)
		out = map1(t, a0, func(x Sc) Sc {
			r := ftol(f(x)/l, 16, a0.S...)
			if l == 0 || s > math.MaxFloat32 || s < 1e-37 {
				r.Ind = true
			}
			return r
		})
	case "cross":
		b := args[1]
		cr := func(i, j int) Sc {
			// a[i]*b[j] - a[j]*b[i]
			v := f(a0.S[i])*f(b.S[j]) - f(a0.S[j])*f(b.S[i])
			s := ftol(v, 8, a0.S[i], b.S[j], a0.S[j], b.S[i])
			m := math.Abs(f(a0.S[i])*f(b.S[j])) + math.Abs(f(a0.S[j])*f(b.S[i]))
			if !s.Ind && float64(float32(v)) == v && float64(float32(f(a0.S[i])*f(b.S[j]))) == f(a0.S[i])*f(b.S[j]) && float64(float32(f(a0.S[j])*f(b.S[i]))) == f(a0.S[j])*f(b.S[i]) {
				s.Tol = 0
			} else if !s.Ind && math.Abs(v) < m*1e-3 {
				s.Ind = true
			} else if !s.Ind {
				// each product is rounded at its own magnitude: the error bound is in ulps of the products, which is many
				// ulps of a result that cancelled
				s.Tol, s.Ind = cancelTol(v, 8, f(a0.S[i])*f(b.S[j]), f(a0.S[j])*f(b.S[i]))
			}
			return s
		}
		out = Val{T: t, S: []Sc{cr(1, 2), cr(2, 0), cr(0, 1)}}
	case "determinant":
		n := a0.T.N
		m := make([][]float64, n)
		var mag float64 = 1
		for c := 0; c < n; c++ {
			m[c] = make([]float64, n)
			var colMag float64
			for r := 0; r < n; r++ {
				m[c][r] = f(a0.S[c*n+r])
				colMag += math.Abs(m[c][r])
			}
			mag *= colMag
		}
		d := det(m)
		s := ftol(d, 64, a0.S...)
		if !s.Ind && math.Abs(d) < mag*1e-3 {
			s.Ind = true
		} else if !s.Ind {
			// n! products of magnitude <= mag, each rounded at its own size (see cancelTol)
			s.Tol, s.Ind = cancelTol(d, 64, mag, mag, mag, mag)
		}
		return Val{T: t, S: []Sc{s}}
	default:
		throw(ErrInternal, "float builtin %s", name)
	}
	if ev.constMode {
		for _, s := range out.S {
			if s.Ind {
				throw(ErrConst, "const builtin %s not defined", name)
			}
		}
	}
	return out
}

func ulp32(f float32) float64 {
	if f == 0 {
		return 0x1p-149
	}
	a := math.Abs(float64(f))
	next := math.Nextafter32(float32(a), float32(math.Inf(1)))
	return float64(next) - a
}

func det(m [][]float64) float64 {
	n := len(m)
	switch n {
	case 2:
		return m[0][0]*m[1][1] - m[0][1]*m[1][0]
	case 3:
		return m[0][0]*(m[1][1]*m[2][2]-m[1][2]*m[2][1]) - m[1][0]*(m[0][1]*m[2][2]-m[0][2]*m[2][1]) + m[2][0]*(m[0][1]*m[1][2]-m[0][2]*m[1][1])
	}
	var d float64
	for c := 0; c < n; c++ {
		sub := make([][]float64, 0, n-1)
		for c2 := 0; c2 < n; c2++ {
			if c2 == c {
				continue
			}
			sub = append(sub, m[c2][1:])
		}
		s := 1.0
		if c%2 == 1 {
			s = -1
		}
		d += s * m[c][0] * det(sub)
	}
	return d
}

func (ev *Eval) absFloatBuiltin(name string, t *wgen.Type, args []Val) Val {
	g := func(fn func(...float64) float64) Val {
		n := len(args[0].S)
		out := Val{T: t, S: make([]Sc, n)}
		for i := 0; i < n; i++ {
			xs := make([]float64, len(args))
			for k := range args {
				xs[k] = bitsf64(args[k].S[min(i, len(args[k].S)-1)].B)
			}
			v := fn(xs...)
			if math.IsNaN(v) || math.IsInf(v, 0) {
				throw(ErrConst, "abstract-float builtin overflow")
			}
			out.S[i] = Sc{B: f64bits(v)}
		}
		return out
	}
	switch name {
	case "abs":
		return g(func(x ...float64) float64 { return math.Abs(x[0]) })
	case "min":
		return g(func(x ...float64) float64 { return math.Min(x[0], x[1]) })
	case "max":
		return g(func(x ...float64) float64 { return math.Max(x[0], x[1]) })
	case "clamp":
		return g(func(x ...float64) float64 {
			if x[1] > x[2] {
				throw(ErrConst, "clamp low > high")
			}
			return math.Min(math.Max(x[0], x[1]), x[2])
		})
	case "floor":
		return g(func(x ...float64) float64 { return math.Floor(x[0]) })
	case "ceil":
		return g(func(x ...float64) float64 { return math.Ceil(x[0]) })
	case "trunc":
		return g(func(x ...float64) float64 { return math.Trunc(x[0]) })
	case "round":
		return g(func(x ...float64) float64 { return math.RoundToEven(x[0]) })
	case "sqrt":
		return g(func(x ...float64) float64 { return math.Sqrt(x[0]) })
	}
	throw(ErrInternal, "abstract-float builtin %s", name)
	return Val{}
}

func (ev *Eval) bitcast(t *wgen.Type, a Val) Val {
	out := Val{T: t, S: make([]Sc, len(a.S))}
	ts := t.Scalar()
	fs := a.T.Scalar()
	if fs.IsAbstract() {
		throw(ErrInternal, "bitcast of abstract value")
	}
	for i, s := range a.S {
		r := Sc{B: s.B & 0xFFFFFFFF, Ind: s.Ind}
		if s.Tol > 0 {
			r.Ind = true
		}
		if ts.Kind == wgen.KF32 && fs.Kind != wgen.KF32 {
			f := bitsf32(r.B)
			if badF32(f) {
				if ev.constMode {
					throw(ErrConst, "bitcast to non-finite/subnormal f32 in const-expression")
				}
				r.Ind = true
			}
		}
		if fs.Kind == wgen.KF32 && ts.Kind != wgen.KF32 {
			// -0.0, NaN payloads etc. may not survive on every implementation
			f := bitsf32(s.B)
			if badF32(f) {
				r.Ind = true
			}
			// the sign of a zero produced by round / floor / ceil / trunc / fract and arithmetic on such values is not
			// pinned down in every target language (GLSL's round(-0.25) may be +0): a negative zero is not observable
			// through its bits
			if uint32(s.B) == 0x80000000 || s.ZS {
				r.Ind = true
			}
		}
		out.S[i] = r
	}
	return out
}
