package main

import (
	"fmt"

	"github.com/gogpu/naga/ir"
	"verif/internal/irstrict"
)

func dump(m *ir.Module) { fmt.Println(irstrict.Dump(m, false)) }
