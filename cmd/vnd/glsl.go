package main

import (
	"fmt"

	"github.com/gogpu/naga/glsl"
	"github.com/gogpu/naga/hlsl"
	"github.com/gogpu/naga/ir"
	"github.com/gogpu/naga/msl"
)

func mslPC(m *ir.Module, pc map[string]float64) {
	o := msl.DefaultOptions()
	o.PipelineConstants = pc
	ms, _, err := msl.Compile(m, o)
	fmt.Println("MSL-PC:", err)
	fmt.Println(ms)
}

func texts(m *ir.Module) {
	g, _, err := glsl.Compile(m, glsl.Options{LangVersion: glsl.Version{Major: 4, Minor: 30}, EntryPoint: m.EntryPoints[0].Name})
	fmt.Println("GLSL:", err)
	fmt.Println(g)
	h, _, err := hlsl.Compile(m, hlsl.DefaultOptions())
	fmt.Println("HLSL:", err)
	fmt.Println(h)
	ms, _, err := msl.Compile(m, msl.DefaultOptions())
	fmt.Println("MSL:", err)
	fmt.Println(ms)
}
