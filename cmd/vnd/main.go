package main

import (
	"bytes"
	"encoding/binary"
	"fmt"
	"os"

	"github.com/gogpu/naga"
	"github.com/gogpu/naga/ir"
	"github.com/gogpu/naga/spirv"
)

func lower(p string) *ir.Module {
	b, _ := os.ReadFile(p)
	src := string(b)
	ast, _ := naga.Parse(src)
	m, _ := naga.LowerWithSource(ast, src)
	return m
}

func main() {
	be := spirv.NewBackend(spirv.Options{Version: spirv.Version1_3})
	n := len(os.Args)
	for _, a := range os.Args[1 : n-1] {
		be.Compile(lower(a))
	}
	got, err1 := be.Compile(lower(os.Args[n-1]))
	want, err2 := spirv.NewBackend(spirv.Options{Version: spirv.Version1_3}).Compile(lower(os.Args[n-1]))
	fmt.Println(err1, err2, len(got), len(want), bytes.Equal(got, want))
	for i := 0; i+4 <= len(got) && i+4 <= len(want); i += 4 {
		if g, w := binary.LittleEndian.Uint32(got[i:]), binary.LittleEndian.Uint32(want[i:]); g != w {
			fmt.Printf("first diff at word %d: reused %08x fresh %08x\n", i/4, g, w)
			break
		}
	}
}
