package main

import (
	"bytes"
	"fmt"
	"os"

	"github.com/gogpu/naga"
	"github.com/gogpu/naga/dxil"
	"verif/internal/irstrict"
	"github.com/gogpu/naga/ir"
)

func main() {
	b, _ := os.ReadFile(os.Args[1])
	src := string(b)
	low := func() *ir.Module { ast, _ := naga.Parse(src); m, _ := naga.LowerWithSource(ast, src); return m }
	m := low()
	d0 := irstrict.Dump(m, false)
	a, err := dxil.Compile(m, dxil.DefaultOptions())
	fmt.Println("err", err)
	d1 := irstrict.Dump(m, false)
	b2, _ := dxil.Compile(m, dxil.DefaultOptions())
	fmt.Println("same module twice equal:", bytes.Equal(a, b2), "module mutated by first compile:", d0 != d1)
	c, _ := dxil.Compile(low(), dxil.DefaultOptions())
	fmt.Println("fresh module equal to first:", bytes.Equal(a, c))
	e, _ := dxil.Compile(low(), dxil.DefaultOptions())
	fmt.Println("two fresh equal:", bytes.Equal(c, e))
}
