package main

import (
	"fmt"
	"os"
	"strings"

	"encoding/binary"
	"github.com/gogpu/naga"

	"github.com/gogpu/naga/ir"
	"github.com/gogpu/naga/spirv"
	"verif/internal/spvx"
	"verif/internal/xrt"
)

func main() {
	b, _ := os.ReadFile(os.Args[1])
	src := string(b)
	ast, err := naga.Parse(src)
	if err != nil {
		fmt.Println(err)
		return
	}
	m, err := naga.LowerWithSource(ast, src)
	if err != nil {
		fmt.Println(err)
		return
	}
	for _, o := range m.Overrides {
		fmt.Printf("override %s id=%v init=%v\n", o.Name, o.ID, o.Init)
	}
	if len(os.Args) > 2 && os.Args[2] == "mslpc" {
		pc := map[string]float64{}
		for _, a := range os.Args[3:] {
			var k string
			var v float64
			fmt.Sscanf(a, "%[^=]=%g", &k, &v)
			kv := strings.SplitN(a, "=", 2)
			k = kv[0]
			fmt.Sscan(kv[1], &v)
			pc[k] = v
		}
		mslPC(m, pc)
		return
	}
	mc := ir.CloneModuleForOverrides(m)
	err = ir.ProcessOverrides(mc, ir.PipelineConstants{})
	fmt.Println("ProcessOverrides:", err)
	if err != nil {
		return
	}
	if len(os.Args) > 2 && os.Args[2] == "dump" {
		dump(mc)
	}
	if len(os.Args) > 2 && os.Args[2] == "text" {
		texts(mc)
	}
	bin, err := naga.GenerateSPIRV(mc, spirv.Options{Version: spirv.Version1_3})
	if err != nil {
		fmt.Println("SPIRV:", err)
		return
	}
	os.WriteFile("/tmp/w/out.spv", bin, 0o644)
	sm, err := spvx.Parse(bin)
	if err != nil {
		fmt.Println("spvx parse:", err)
		return
	}
	bufs := xrt.Buffers{}
	for _, g := range mc.GlobalVariables {
		if g.Binding != nil {
			bufs[xrt.Slot{A: g.Binding.Group, B: g.Binding.Binding}] = make([]byte, 256)
		}
	}
	res, err := spvx.Run(sm, mc.EntryPoints[0].Name, bufs, xrt.Options{TrapMode: true})
	fmt.Println("err:", err, res.Traps)
	for k, v := range bufs {
		fmt.Print(k, ":")
		for i := 0; i < 16; i++ {
			fmt.Printf(" %x", binary.LittleEndian.Uint32(v[i*4:]))
		}
		fmt.Println()
	}
}
