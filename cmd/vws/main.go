package main

import (
	"fmt"

	"github.com/gogpu/naga"
)

func ok(src string) bool {
	ast, err := naga.Parse(src)
	if err != nil {
		return false
	}
	_, err = naga.LowerWithSource(ast, src)
	return err == nil
}

func main() {
	seps := map[string]string{"LF": "\n", "CRLF": "\r\n", "CR": "\r", "VT": "\v", "FF": "\f", "NEL": "\u0085", "LS": " ", "PS": " ", "SP": " ", "TAB": "\t", "LRM": "‎", "RLM": "‏"}
	for n, s := range seps {
		a := ok("@group(0) @binding(0) var<storage,read_write> o: array<u32,4>;\n@compute @workgroup_size(1) fn main() {" + s + "o[0]" + s + "=" + s + "1u;" + s + "o[1] = 2u; }")
		b := ok("@group(0) @binding(0) var<storage,read_write> o: array<u32,4>;\n@compute @workgroup_size(1) fn main() { o[0] = 1u; // c" + s + "o[1] = 2u; }")
		fmt.Printf("%-5s as-blank=%v ends-line-comment=%v\n", n, a, b)
	}
}
