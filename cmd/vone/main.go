package main

import (
	"fmt"
	"os"

	"github.com/gogpu/naga"
	"github.com/gogpu/naga/spirv"
)

func main() {
	b, _ := os.ReadFile(os.Args[1])
	src := string(b)
	ast, err := naga.Parse(src)
	if err != nil {
		fmt.Println("PARSE:", err)
		return
	}
	m, err := naga.LowerWithSource(ast, src)
	if err != nil {
		fmt.Println("LOWER:", err)
		return
	}
	ve, err := naga.Validate(m)
	fmt.Println("VALIDATE:", ve, err)
	_, err = naga.GenerateSPIRV(m, spirv.Options{Version: spirv.Version1_3})
	fmt.Println("SPIRV:", err)
}
