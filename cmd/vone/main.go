package main

import (
	"fmt"
	"os"

	"github.com/gogpu/naga"
	"github.com/gogpu/naga/glsl"
	"github.com/gogpu/naga/hlsl"
	"github.com/gogpu/naga/msl"
	"github.com/gogpu/naga/spirv"
)

func main() {
	b, _ := os.ReadFile(os.Args[1])
	src := string(b)
	ast, err := naga.Parse(src)
	if err != nil {
		fmt.Println("PARSE:", err)
		return
	}
	m, err := naga.LowerWithSource(ast, src)
	if err != nil {
		fmt.Println("LOWER:", err)
		return
	}
	ve, err := naga.Validate(m)
	fmt.Println("VALIDATE:", ve, err)
	_, err = naga.GenerateSPIRV(m, spirv.Options{Version: spirv.Version1_3})
	fmt.Println("SPIRV:", err)
	_, _, err = hlsl.Compile(m, hlsl.DefaultOptions())
	fmt.Println("HLSL:", err)
	_, _, err = msl.Compile(m, msl.DefaultOptions())
	fmt.Println("MSL:", err)
	for _, ep := range m.EntryPoints {
		o := glsl.DefaultOptions()
		o.LangVersion = glsl.Version{Major: 4, Minor: 50}
		o.EntryPoint = ep.Name
		_, _, err = glsl.Compile(m, o)
		fmt.Println("GLSL", ep.Name, ":", err)
	}
}
