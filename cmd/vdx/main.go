// vdx file.wgsl [n]: compile every entry point with dxil.Compile n times from freshly lowered modules; report distinct outputs.
package main

import (
	"crypto/sha256"
	"fmt"
	"os"
	"strconv"

	"github.com/gogpu/naga"
	"github.com/gogpu/naga/dxil"
	"github.com/gogpu/naga/ir"
)

func main() {
	b, _ := os.ReadFile(os.Args[1])
	n := 20
	if len(os.Args) > 2 {
		n, _ = strconv.Atoi(os.Args[2])
	}
	lower := func() *ir.Module {
		ast, err := naga.Parse(string(b))
		if err != nil {
			panic(err)
		}
		m, err := naga.LowerWithSource(ast, string(b))
		if err != nil {
			panic(err)
		}
		return m
	}
	m0 := lower()
	for epi := range m0.EntryPoints {
		seen := map[string]int{}
		var first, other []byte
		for k := 0; k < n; k++ {
			m := lower()
			m.EntryPoints = []ir.EntryPoint{m.EntryPoints[epi]}
			o := dxil.DefaultOptions()
			bin, err := dxil.Compile(m, o)
			if err != nil {
				fmt.Println("err", err)
				break
			}
			h := fmt.Sprintf("%x", sha256.Sum256(bin))[:12]
			if seen[h] == 0 {
				if first == nil {
					first = bin
				} else if other == nil {
					other = bin
				}
			}
			seen[h]++
		}
		fmt.Println(m0.EntryPoints[epi].Name, seen)
		if other != nil {
			d := 0
			for i := range first {
				if i < len(other) && first[i] != other[i] {
					d++
				}
			}
			fmt.Println("  sizes", len(first), len(other), "differing bytes", d)
		}
	}
}
