// vworker: isolated worker process for C10/C12 (placeholder until those checks are wired).
package main

func main() {}
