// vworker: isolated worker process used by C10 (and C12). It reads cases from stdin, runs every public entry point of
// naga on them and reports per-stage status, CPU time and peak RSS. Before every API call it appends "BEGIN <case> <stage>"
// to its log file so that a fatal runtime error (stack overflow, out of memory, ...) can be attributed exactly.
//
// protocol (stdin):  "<id> <nbytes>\n" followed by nbytes of source;  (stdout): one JSON line per case.
package main

import (
	"bufio"
	"crypto/sha256"
	"encoding/hex"
	"encoding/json"
	"fmt"
	"io"
	"os"
	"runtime/debug"
	"strings"
	"syscall"

	"github.com/gogpu/naga"
	"github.com/gogpu/naga/dxil"
	"github.com/gogpu/naga/glsl"
	"github.com/gogpu/naga/hlsl"
	"github.com/gogpu/naga/ir"
	"github.com/gogpu/naga/msl"
	"github.com/gogpu/naga/spirv"
	"github.com/gogpu/naga/wgsl"
)

type stageResult struct {
	Stage  string `json:"stage"`
	Status string `json:"status"` // ok | error | panic
	Detail string `json:"detail,omitempty"`
	Top    string `json:"top,omitempty"` // top naga frame of a panic
	CPUms  int64  `json:"cpu_ms"`
	Hash   string `json:"hash,omitempty"` // sha256 of the stage's output bytes (determinism checks)
}

type caseResult struct {
	ID       string        `json:"id"`
	Stages   []stageResult `json:"stages"`
	MaxRSSKB int64         `json:"maxrss_kb"`
	OutHash  string        `json:"out_hash,omitempty"`
}

func cpuMillis() int64 {
	var ru syscall.Rusage
	syscall.Getrusage(syscall.RUSAGE_SELF, &ru)
	return (ru.Utime.Sec+ru.Stime.Sec)*1000 + int64(ru.Utime.Usec+ru.Stime.Usec)/1000
}

// maxRSSKB: the high-water mark of THIS process image. getrusage's ru_maxrss is not used: on Linux it is carried
// across fork+exec, so a fresh worker would start with the resident size its (large) parent had at fork time.
// VmHWM belongs to the address space created by exec.
func maxRSSKB() int64 {
	if b, err := os.ReadFile("/proc/self/status"); err == nil {
		for _, l := range strings.Split(string(b), "\n") {
			if strings.HasPrefix(l, "VmHWM:") {
				var kb int64
				fmt.Sscanf(strings.TrimSpace(strings.TrimPrefix(l, "VmHWM:")), "%d", &kb)
				if kb > 0 {
					return kb
				}
			}
		}
	}
	var ru syscall.Rusage
	syscall.Getrusage(syscall.RUSAGE_SELF, &ru)
	return ru.Maxrss
}

func topNagaFrame(stack string) string {
	lines := strings.Split(stack, "\n")
	seenPanic := false
	for _, l := range lines {
		if strings.HasPrefix(l, "panic(") {
			seenPanic = true
			continue
		}
		if seenPanic && strings.HasPrefix(l, "github.com/gogpu/naga") {
			if i := strings.LastIndex(l, "("); i > 0 {
				l = l[:i]
			}
			return l
		}
	}
	for _, l := range lines {
		if strings.HasPrefix(l, "github.com/gogpu/naga") {
			if i := strings.LastIndex(l, "("); i > 0 {
				l = l[:i]
			}
			return l
		}
	}
	return "?"
}

var logf *os.File

var curOut []byte

// out records the output bytes of the running stage (hashed into the stage result).
func out(b []byte, err error) error {
	curOut = b
	return err
}
func outS(s string, _ any, err error) error { return out([]byte(s), err) }

func stage(res *caseResult, id, name string, f func() error) (ok bool) {
	curOut = nil
	if logf != nil {
		fmt.Fprintf(logf, "BEGIN %s %s\n", id, name)
	}
	t0 := cpuMillis()
	sr := stageResult{Stage: name, Status: "ok"}
	func() {
		defer func() {
			if r := recover(); r != nil {
				st := string(debug.Stack())
				sr.Status = "panic"
				sr.Detail = fmt.Sprint(r)
				if len(sr.Detail) > 300 {
					sr.Detail = sr.Detail[:300]
				}
				sr.Top = topNagaFrame(st)
			}
		}()
		if err := f(); err != nil {
			sr.Status = "error"
			sr.Detail = err.Error()
			if len(sr.Detail) > 200 {
				sr.Detail = sr.Detail[:200]
			}
		}
	}()
	sr.CPUms = cpuMillis() - t0
	if curOut != nil && sr.Status == "ok" {
		h := sha256.Sum256(curOut)
		sr.Hash = hex.EncodeToString(h[:8])
	}
	res.Stages = append(res.Stages, sr)
	return sr.Status == "ok"
}

func runCase(id, src string) caseResult {
	res := caseResult{ID: id}
	stage(&res, id, "tokenize", func() error {
		_, err := wgsl.NewLexer(src).Tokenize()
		return err
	})
	var mod *ir.Module
	okParse := stage(&res, id, "parse+lower", func() error {
		ast, err := naga.Parse(src)
		if err != nil {
			return err
		}
		mod, err = naga.LowerWithSource(ast, src)
		return err
	})
	stage(&res, id, "compile-one-call", func() error { return out(naga.Compile(src)) })
	if okParse && mod != nil {
		stage(&res, id, "validate", func() error { _, err := naga.Validate(mod); return err })
		stage(&res, id, "spirv-1.3", func() error { return out(naga.GenerateSPIRV(mod, spirv.Options{Version: spirv.Version1_3})) })
		stage(&res, id, "spirv-1.0-debug", func() error {
			return out(naga.GenerateSPIRV(mod, spirv.Options{Version: spirv.Version1_0, Debug: true, ForceLoopBounding: true}))
		})
		stage(&res, id, "hlsl", func() error { return outS(hlsl.Compile(mod, hlsl.DefaultOptions())) })
		stage(&res, id, "hlsl-sm6-restrict", func() error {
			o := hlsl.DefaultOptions()
			o.ShaderModel = hlsl.ShaderModel6_0
			o.RestrictIndexing = true
			o.ZeroInitializeWorkgroupMemory = true
			return outS(hlsl.Compile(mod, o))
		})
		stage(&res, id, "msl", func() error { return outS(msl.Compile(mod, msl.DefaultOptions())) })
		stage(&res, id, "msl-rzsw", func() error {
			o := msl.DefaultOptions()
			o.BoundsCheckPolicies = msl.BoundsCheckPolicies{Index: msl.BoundsCheckReadZeroSkipWrite, Buffer: msl.BoundsCheckReadZeroSkipWrite, Image: msl.BoundsCheckReadZeroSkipWrite}
			o.ZeroInitializeWorkgroupMemory = true
			return outS(msl.Compile(mod, o))
		})
		for i, ep := range mod.EntryPoints {
			if i >= 3 {
				break
			}
			name := ep.Name
			stage(&res, id, "glsl", func() error {
				o := glsl.DefaultOptions()
				o.LangVersion = glsl.Version{Major: 4, Minor: 50}
				o.EntryPoint = name
				return outS(glsl.Compile(mod, o))
			})
			stage(&res, id, "glsl-es310", func() error {
				o := glsl.DefaultOptions()
				o.LangVersion = glsl.Version{Major: 3, Minor: 10, ES: true}
				o.EntryPoint = name
				return outS(glsl.Compile(mod, o))
			})
		}
		if len(mod.EntryPoints) > 0 {
			stage(&res, id, "dxil", func() error { return out(dxil.Compile(mod, dxil.DefaultOptions())) })
		}
		stage(&res, id, "process-overrides", func() error {
			c := ir.CloneModuleForOverrides(mod)
			return ir.ProcessOverrides(c, ir.PipelineConstants{"0": 3, "1": 1.5, "x": 7})
		})
		stage(&res, id, "compact-unused", func() error { ir.CompactUnused(mod); return nil })
	}
	res.MaxRSSKB = maxRSSKB()
	return res
}

func main() {
	if len(os.Args) > 1 {
		f, err := os.OpenFile(os.Args[1], os.O_CREATE|os.O_WRONLY|os.O_APPEND, 0o644)
		if err == nil {
			logf = f
		}
	}
	// address-space cap: a runaway allocation becomes a Go "out of memory" fatal instead of taking the machine down
	lim := uint64(6 << 30)
	syscall.Setrlimit(syscall.RLIMIT_AS, &syscall.Rlimit{Cur: lim, Max: lim})
	in := bufio.NewReaderSize(os.Stdin, 1<<20)
	out := bufio.NewWriter(os.Stdout)
	for {
		var id string
		var n int
		if _, err := fmt.Fscanf(in, "%s %d\n", &id, &n); err != nil {
			return
		}
		buf := make([]byte, n)
		if _, err := io.ReadFull(in, buf); err != nil {
			return
		}
		res := runCase(id, string(buf))
		b, _ := json.Marshal(res)
		out.Write(b)
		out.WriteByte('\n')
		out.Flush()
	}
}
