// vinl file.wgsl [dump] : run irx before and after ir.InlineUserFunctions(all) on 512-byte buffers filled with 1.0f words (or 0,1,2.. with VINL_INT=1); print both results.
package main

import (
	"encoding/binary"
	"fmt"
	"math"
	"os"

	"github.com/gogpu/naga"
	"github.com/gogpu/naga/ir"
	"verif/internal/irstrict"
	"verif/internal/irx"
	"verif/internal/xrt"
)

func lower(src string) *ir.Module {
	ast, err := naga.Parse(src)
	if err != nil {
		fmt.Println("PARSE:", err)
		os.Exit(1)
	}
	m, err := naga.LowerWithSource(ast, src)
	if err != nil {
		fmt.Println("LOWER:", err)
		os.Exit(1)
	}
	return m
}

func runm(m *ir.Module) xrt.Buffers {
	bufs := xrt.Buffers{}
	for _, g := range m.GlobalVariables {
		if g.Binding != nil {
			buf := make([]byte, 512)
			for i := 0; i < 128; i++ {
				if os.Getenv("VINL_INT") != "" {
					binary.LittleEndian.PutUint32(buf[i*4:], uint32(i))
				} else {
					binary.LittleEndian.PutUint32(buf[i*4:], math.Float32bits(1))
				}
			}
			bufs[xrt.Slot{A: g.Binding.Group, B: g.Binding.Binding}] = buf
		}
	}
	res, err := irx.Run(m, m.EntryPoints[0].Name, bufs, irx.Config{})
	fmt.Println("err:", err, "traps:", res.Traps)
	return bufs
}

func show(b xrt.Buffers) {
	for k, v := range b {
		fmt.Print(k, ":")
		for i := 0; i < 40; i++ {
			fmt.Printf(" %x", binary.LittleEndian.Uint32(v[i*4:]))
		}
		fmt.Println()
	}
}

func main() {
	b, _ := os.ReadFile(os.Args[1])
	m0 := lower(string(b))
	show(runm(m0))
	m1 := lower(string(b))
	err := ir.InlineUserFunctions(m1, func(*ir.Function) bool { return true })
	fmt.Println("inline:", err)
	show(runm(m1))
	if len(os.Args) > 2 {
		fmt.Println(irstrict.Dump(m1, false))
	}
}
