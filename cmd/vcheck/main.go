// vcheck <property> [--tier quick|thorough] [--replay path]
package main

import (
	"flag"
	"fmt"
	"os"
	"sort"

	"verif/checks"
	"verif/internal/run"
)

func main() {
	if len(os.Args) < 2 {
		fmt.Println("usage: vcheck <property> [--tier quick|thorough] [--replay path]")
		os.Exit(3)
	}
	prop := os.Args[1]
	fs := flag.NewFlagSet("vcheck", flag.ExitOnError)
	tier := fs.String("tier", "quick", "quick|thorough")
	replay := fs.String("replay", "", "replay file")
	fs.Parse(os.Args[2:])
	if t := os.Getenv("VERIF_TIER"); t != "" && *tier == "quick" {
		*tier = t
	}
	f, ok := checks.Registry[prop]
	if !ok {
		ids := []string{}
		for k := range checks.Registry {
			ids = append(ids, k)
		}
		sort.Strings(ids)
		fmt.Println("unknown property", prop, "known:", ids)
		os.Exit(3)
	}
	c := run.NewCtx(prop, *tier)
	c.Replay = *replay
	os.Exit(f(c))
}
