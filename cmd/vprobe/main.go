// vprobe: scratch driver (not part of the checks): generate programs and push them through naga.
package main

import (
	"fmt"
	"os"
	"regexp"
	"strconv"
	"strings"

	"github.com/gogpu/naga"
	"github.com/gogpu/naga/glsl"
	"github.com/gogpu/naga/hlsl"
	"github.com/gogpu/naga/msl"
	"github.com/gogpu/naga/spirv"
	"verif/internal/reduce"
	"verif/internal/run"
	"verif/internal/wgen"
)

var norm = regexp.MustCompile(`[0-9]+`)

func main() {
	n, _ := strconv.Atoi(os.Args[1])
	show := len(os.Args) > 2 && os.Args[2] == "show"
	errs := map[string]int{}
	first := map[string]string{}
	for i := 0; i < n; i++ {
		g := wgen.New(run.CaseSeed(1, "probe", i), wgen.Config{Off: wgen.SafeOff(strings.Split(os.Getenv("OFF"), ",")...)})
		p := g.Generate()
		src := wgen.Print(p.M).Src
		if show {
			fmt.Println(src)
		}
		rec := func(stage string, err error) {
			k := stage + ": " + norm.ReplaceAllString(err.Error(), "N")
			if len(k) > 150 {
				k = k[:150]
			}
			errs[k]++
			if _, ok := first[k]; !ok {
				first[k] = src
			}
		}
		st, pan := run.Catch(func() {
			ast, err := naga.Parse(src)
			if err != nil {
				rec("parse", err)
				return
			}
			m, err := naga.LowerWithSource(ast, src)
			if err != nil {
				rec("lower", err)
				return
			}
			ve, err := naga.Validate(m)
			if err != nil {
				rec("validate", err)
			} else if len(ve) > 0 {
				rec("validate", &ve[0])
			}
			if _, err := naga.GenerateSPIRV(m, spirv.Options{Version: spirv.Version1_3}); err != nil {
				rec("spirv", err)
			}
			if _, _, err := hlsl.Compile(m, hlsl.DefaultOptions()); err != nil {
				rec("hlsl", err)
			}
			if _, _, err := msl.Compile(m, msl.DefaultOptions()); err != nil {
				rec("msl", err)
			}
			for _, ep := range m.EntryPoints {
				o := glsl.DefaultOptions()
				o.LangVersion = glsl.Version{Major: 4, Minor: 50}
				o.EntryPoint = ep.Name
				if _, _, err := glsl.Compile(m, o); err != nil {
					rec("glsl", err)
				}
			}
		})
		if pan {
			k := "PANIC " + st[:min(len(st), 100)]
			errs[k]++
			if _, ok := first[k]; !ok {
				first[k] = src
			}
		}
	}
	for k, v := range errs {
		fmt.Printf("%5d  %s\n", v, k)
	}
	if len(os.Args) > 3 && os.Args[2] == "first" {
		for k, s := range first {
			if !strings.Contains(k, os.Args[3]) {
				continue
			}
			if os.Getenv("NOREDUCE") == "" {
				s = reduce.Lines(s, func(x string) bool { return strings.Contains(keyOf(x), os.Args[3]) })
			}
			fmt.Println("=====", k)
			fmt.Println(s)
		}
	}
}

// keyOf returns all normalized error keys of a source, joined.
func keyOf(src string) string {
	var ks []string
	rec := func(stage string, err error) { ks = append(ks, stage+": "+norm.ReplaceAllString(err.Error(), "N")) }
	_, pan := run.Catch(func() {
		ast, err := naga.Parse(src)
		if err != nil {
			rec("parse", err)
			return
		}
		m, err := naga.LowerWithSource(ast, src)
		if err != nil {
			rec("lower", err)
			return
		}
		ve, err := naga.Validate(m)
		if err != nil {
			rec("validate", err)
		} else if len(ve) > 0 {
			rec("validate", &ve[0])
		}
		if _, err := naga.GenerateSPIRV(m, spirv.Options{Version: spirv.Version1_3}); err != nil {
			rec("spirv", err)
		}
		if _, _, err := hlsl.Compile(m, hlsl.DefaultOptions()); err != nil {
			rec("hlsl", err)
		}
		if _, _, err := msl.Compile(m, msl.DefaultOptions()); err != nil {
			rec("msl", err)
		}
		for _, ep := range m.EntryPoints {
			o := glsl.DefaultOptions()
			o.LangVersion = glsl.Version{Major: 4, Minor: 50}
			o.EntryPoint = ep.Name
			if _, _, err := glsl.Compile(m, o); err != nil {
				rec("glsl", err)
			}
		}
	})
	if pan {
		ks = append(ks, "PANIC")
	}
	return strings.Join(ks, " ## ")
}
