// vrun file.wgsl [entry] : compile with naga and execute in spvx on 256-byte buffers filled with 0,1,2,... words; print results.
package main

import (
	"encoding/binary"
	"fmt"
	"os"

	"github.com/gogpu/naga"
	"github.com/gogpu/naga/spirv"
	"verif/internal/spvx"
	"verif/internal/xrt"
)

func main() {
	b, _ := os.ReadFile(os.Args[1])
	src := string(b)
	ast, err := naga.Parse(src)
	if err != nil {
		fmt.Println("PARSE:", err)
		return
	}
	m, err := naga.LowerWithSource(ast, src)
	if err != nil {
		fmt.Println("LOWER:", err)
		return
	}
	bin, err := naga.GenerateSPIRV(m, spirv.Options{Version: spirv.Version1_3})
	if err != nil {
		fmt.Println("SPIRV:", err)
		return
	}
	if len(os.Args) > 3 {
		os.WriteFile(os.Args[3], bin, 0o644)
	}
	sm, err := spvx.Parse(bin)
	if err != nil {
		fmt.Println("spvx parse:", err)
		return
	}
	bufs := xrt.Buffers{}
	for _, g := range m.GlobalVariables {
		if g.Binding != nil {
			buf := make([]byte, 256)
			for i := 0; i < 64; i++ {
				binary.LittleEndian.PutUint32(buf[i*4:], uint32(i))
			}
			bufs[xrt.Slot{A: g.Binding.Group, B: g.Binding.Binding}] = buf
		}
	}
	entry := m.EntryPoints[0].Name
	if len(os.Args) > 2 && os.Args[2] != "" {
		entry = os.Args[2]
	}
	res, err := spvx.Run(sm, entry, bufs, xrt.Options{TrapMode: true})
	fmt.Println("err:", err)
	for _, t := range res.Traps {
		fmt.Println("TRAP:", t)
	}
	for k, v := range bufs {
		fmt.Print(k, ":")
		for i := 0; i < 16; i++ {
			fmt.Printf(" %d", int32(binary.LittleEndian.Uint32(v[i*4:])))
		}
		fmt.Println()
	}
}
