package main

import (
	"fmt"
	"github.com/gogpu/naga"
	"github.com/gogpu/naga/hlsl"
	"os"
)

func main() {
	b, _ := os.ReadFile(os.Args[1])
	src := string(b)
	ast, err := naga.Parse(src)
	if err != nil {
		panic(err)
	}
	m, err := naga.LowerWithSource(ast, src)
	if err != nil {
		panic(err)
	}
	t, _, err := hlsl.Compile(m, hlsl.DefaultOptions())
	fmt.Println(t, err)
}
