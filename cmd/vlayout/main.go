package main

import (
	"fmt"
	"os"

	"github.com/gogpu/naga"
	"github.com/gogpu/naga/ir"
)

func main() {
	b, _ := os.ReadFile(os.Args[1])
	src := string(b)
	ast, err := naga.Parse(src)
	if err != nil {
		panic(err)
	}
	m, err := naga.LowerWithSource(ast, src)
	if err != nil {
		panic(err)
	}
	for i, t := range m.Types {
		if st, ok := t.Inner.(ir.StructType); ok {
			fmt.Printf("type %d %s span=%d\n", i, t.Name, st.Span)
			for _, mem := range st.Members {
				fmt.Printf("   %s off=%d type=%d\n", mem.Name, mem.Offset, mem.Type)
			}
		}
		if at, ok := t.Inner.(ir.ArrayType); ok {
			fmt.Printf("type %d array stride=%d\n", i, at.Stride)
		}
	}
}
