#!/bin/bash
set -eu
cd "$(dirname "$0")"
export GOFLAGS=-mod=mod GOPROXY=off
unset GOSUMDB GONOSUMDB GONOSUMCHECK GOTOOLCHAIN 2>/dev/null || true
mkdir -p bin evidence
go build -tags verif -o bin/ ./cmd/vcheck ./cmd/vworker
echo "built: $(ls bin)"
