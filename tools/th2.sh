#!/bin/bash
cd "$1"
for p in C05 C06 C10 C13 C14 C18; do
  out=$(VERIF_SEED=1 ./check $p thorough 2>&1); rc=$?
  echo "seed=1 $p rc=$rc $(echo "$out" | grep '^SUMMARY' | cut -c1-160)"
  echo "$out" | grep '^VIOLATION' | cut -c1-300 | head -6
done
