#!/usr/bin/env python3
"""Writes seeded4/RESULTS.md from the meta.json / confirm.txt / result.txt files of the fourth round."""
import json, os, glob, re
root = os.path.dirname(os.path.dirname(os.path.abspath(__file__)))
notes = {
 "C01/m2": "caught after the short-circuit templates (constant / let / run-time left operands, recorded right-hand calls)",
 "C03/m2": "caught after the workgroup-zero templates (nested workgroup arrays on both sides of the 256-element loop threshold)",
 "C05/m1": "caught after the workgroup-pointer templates (stores through ptr<workgroup, T> parameters)",
 "C05/m2": "caught after the workgroup-zero templates",
 "C09/m1": "caught after irstrict reported Emit ranges that cover only pre-emitted expressions as their own class (the symptom had been absorbed by F40's class line)",
 "C09/m2": "caught after the typed access grid (9 matrix shapes x 6 by-value holders)",
 "C11/m1": "caught after the out-of-scope identifier grid",
 "C11/m2": "caught after the swizzle grid (every pattern beyond the width, any position)",
 "C17/m2": "caught after the resource-reaching expression was placed in six statement positions (continuing block, for-update clause, ...)",
 "C19/m2": "caught after the shadow pairs (inner local reusing the name of an outer local used again afterwards)",
}
rows = []
caught = 0
for d in sorted(glob.glob(os.path.join(root, "seeded4", "C*", "m*"))):
    key = "/".join(d.split("/")[-2:])
    meta = json.load(open(os.path.join(d, "meta.json")))
    res = open(os.path.join(d, "result.txt")).read() if os.path.exists(os.path.join(d, "result.txt")) else ""
    conf = open(os.path.join(d, "confirm.txt")).read() if os.path.exists(os.path.join(d, "confirm.txt")) else ""
    hit = [m.group(1) + " " + m.group(2) for m in re.finditer(r"^(C\d+) (quick|thorough) rc=1", res, re.M)]
    ok = bool(hit)
    caught += ok
    c = "demo passes clean / fails changed, suite passes" if ("demo on clean tree: rc=0" in conf and "demo with change: rc=1" in conf and "failing: 0" in conf) else "see confirm.txt"
    rows.append("| %s | %s | %s | %s | %s | %s |" % (key, meta.get("summary", "").replace("|", "\\|").replace("\n", " ")[:260], meta.get("needs", "").replace("|", "\\|").replace("\n", " ")[:200],
                                                "caught: " + ", ".join(hit) if ok else "NOT caught", c, notes.get(key, "caught by the checks as they stood")))
out = ["# Fourth round of seeded changes", "",
       "Ten fresh sub-agents, each given only one property's record and its own scratch worktree of /repo under /tmp, wrote 20 changes.",
       "`confirm.txt` is `tools/confirm4.sh` (scratch worktree at /repo HEAD: the demonstration passes on the clean tree; with the patch the",
       "project builds, the unedited suite passes and the demonstration fails). `result.txt` is `tools/mutant.sh` (patch applied to /repo's",
       "working tree, the property's own check at the quick tier, /repo restored). %d of %d are caught as the machinery stands at the end of" % (caught, len(rows)),
       "the session; 10 of them were caught by the checks as they stood before the round, 10 only after a widening (note column; DESIGN.md 11.6).", "",
       "| change | what it does | what it needs to manifest | verdict | confirmation | note |", "|---|---|---|---|---|---|"] + rows
open(os.path.join(root, "seeded4", "RESULTS.md"), "w").write("\n".join(out) + "\n")
print(caught, "of", len(rows), "caught")
