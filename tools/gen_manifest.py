#!/usr/bin/env python3
"""Writes /verif/MANIFEST.json from the table below (run by hand; keeps the manifest consistent)."""
import json, os
root = os.path.dirname(os.path.dirname(os.path.abspath(__file__)))
ALL = ["C%02d" % i for i in range(1, 20)]
EXPL = "exploration"
checks = {
 "C01": dict(engine="wgen+wref+spvx", technique="runtime monitoring: differential execution of naga's SPIR-V in a trapping interpreter against a WGSL reference evaluator on generated programs",
   text="Held on the executions observed: every generated program x input x SPIR-V option set is compiled by the real naga, executed in an independent SPIR-V interpreter with undefined-behaviour monitors (poison, out-of-object access, undefined operations), and every output leaf is compared with an independent WGSL reference evaluator. Sampled programs and inputs, not a proof.",
   note="Trusted base: wref (WGSL semantics, DESIGN Appendix A), spvx (SPIR-V semantics), wlayout (WGSL layout). Constructs that hit a listed known finding are gated out of the random campaign and replayed from committed witnesses.", ref="DESIGN.md §4 C01"),
 "C02": dict(engine="wgen+spvval", technique="runtime monitoring: independent structural SPIR-V validator (73 rule ids) run on every module naga emits for generated programs and the corpus across option sets",
   text="Held on the modules observed: each emitted binary is decoded and checked against universal SPIR-V and Vulkan-environment rules by a validator that shares no code with naga; per-rule counters show which rules were exercised non-vacuously.",
   note="Trusted base: spvval's reading of the SPIR-V specification (calibrated silent on the corpus that upstream reports spirv-val clean, apart from listed known findings). No spirv-val binary exists in the sandbox.", ref="DESIGN.md §4 C02"),
 "C08": dict(engine="wgen", technique="runtime monitoring: every stage and backend of the real compiler is driven with generated valid programs under many option sets; any error value or panic is the observed violation",
   text="Held on the programs observed: valid-by-construction programs were accepted by parse, lower, validate, the one-call API and all four backends under every option set tried.",
   note="Assumes the generator only produces valid WGSL (type-directed construction; const-expressions pre-evaluated; alias and uniformity rules respected). Known rejections of valid programs are listed findings replayed from witnesses.", ref="DESIGN.md §4 C08"),
 "C09": dict(engine="wgen+irstrict", technique="runtime monitoring: strict IR validator with an independent typifier run on every module LowerWithSource returns for generated programs and the corpus",
   text="Held on the modules observed: each lowered module is checked against 18 rule groups of the IR contract (handles, typing vs an independent typifier, emit coverage/order, returns, stores, calls, bindings, layout, ir.Validate); per-rule and per-expression-kind counters show what was exercised.",
   note="Trusted base: irstrict (second implementation of upstream's typifier/validator rules). Pervasive deviations of the pinned tree (literals inside Emit ranges, empty Splat types) are listed known findings attributed per finding class, so other rules stay live on the same modules.", ref="DESIGN.md §4 C09"),
 "C11": dict(engine="wgen(inject)", technique="runtime monitoring: single rule-breaking injections (AST- and token-level) into valid generated programs; the compiler's verdict and reported position are checked against the known injection site",
   text="Held on the (program, rule, site) triples observed: every injected error was rejected before output with a position inside the source / the enclosing declaration / at the first offending token.",
   note="The uninjected program is checked to compile; each injection is the only error by construction. Diagnosed classes the pinned tree misses are listed known findings keyed by the injected variant.", ref="DESIGN.md §4 C11"),
 "C13": dict(engine="wgen+irx+irstrict+verif hook", technique="runtime monitoring: differential execution of the IR before/after each pass in an independent IR interpreter, plus strict IR validation and idempotence by canonical dump",
   text="Held on the executions observed for the Compact*/DeduplicateEmits passes and for InlineUserFunctions outside the listed defect traits; the DXIL pre-emission passes (sroa/mem2reg/dce) are so defective in the pinned tree that only new symptom classes (panic, new rule) are distinguishable there.",
   note="Trusted base: irx (IR semantics incl. Alias/Phi), cross-checked against wref on every baseline execution; irstrict. Uses the verif hook dxil.VerifPrepareModule / VerifRunOptPasses / VerifRunPass.", ref="DESIGN.md §4 C13"),
 "C18": dict(engine="wgen+dxbcx", technique="runtime monitoring: independent DXBC container / DxilContainer parts / LLVM 3.7 bitstream reader with hash recomputation run on every dxil.Compile output; double compilation for determinism",
   text="Held on the containers observed for container, signature, PSV0, program-header, bitstream and module-table rules; function-level operand typing (rule F3) is a listed known finding of the experimental emitter.",
   note="Trusted base: dxbcx's reading of the public DXBC/DxilContainer/LLVM-3.7 formats. No IDxcValidator is available offline; only well-formedness and self-consistency are judged.", ref="DESIGN.md §4 C18"),
 "C19": dict(engine="wgen(edit)", technique="runtime monitoring: meaning-neutral source edits (blankspace/line-break variants, comments, parentheses, trailing commas, renaming) applied to generated and corpus sources; all artefacts of the edited source are compared with the original's",
   text="Held on the (source, edit sequence) pairs observed: acceptance unchanged, canonical IR dump identical (names blanked), SPIR-V bytes and HLSL/MSL/GLSL text identical.",
   note="An independent mini-lexer finds token boundaries in corpus files; edits never touch the inside of a token.", ref="DESIGN.md §4 C19"),
 "C03": dict(engine="wgen+wref+hlslx", technique="runtime monitoring: differential execution of naga's HLSL text in an independent HLSL interpreter (byte-address buffers, cbuffer packing, UB monitors, identifier/typing monitors) against the WGSL reference evaluator",
   text="Held on the executions observed within the gated program profile; the emitted text is parsed, statically checked and executed under several shader models / option sets.",
   note="Trusted base: wref, hlslx (HLSL semantics as read from the language reference), wlayout. Constructs that hit listed HLSL findings (matCx2 accessors, arrays of arrays, private arrays, bit helpers, float sign, inverse hyperbolics, whole-struct loads) are gated off and replayed from witnesses.", ref="DESIGN.md §4 C03"),
 "C04": dict(engine="wgen+wref+mslx", technique="runtime monitoring: differential execution of naga's MSL text in an independent MSL/C++14 interpreter (Metal ABI layout, references, UB monitors incl. signed overflow) against the WGSL reference evaluator",
   text="Held on the executions observed within the gated program profile under several language versions and bounds-check policies.",
   note="Trusted base: wref, mslx, wlayout. Listed MSL findings (missing parentheses around select / inline operands, integer dot overflow, round, firstLeadingBit, pointers to checked elements) are gated off and replayed from witnesses.", ref="DESIGN.md §4 C04"),
 "C05": dict(engine="wgen+wref+glslx", technique="runtime monitoring: differential execution of naga's GLSL text in an independent GLSL interpreter (std430/std140 layout, UB monitors) against the WGSL reference evaluator; executions on which GLSL itself is undefined are classified out of scope, as the property states",
   text="Held on the GLSL-defined executions observed within the gated program profile for core 4.30/4.50 and ES 3.10 outputs.",
   note="Trusted base: wref, glslx, wlayout. Listed GLSL findings (vector select, block layout without offsets, atomicSub of a negative literal, constant folding of non-arithmetic operators, continue in nested switch) are gated off and replayed from witnesses.", ref="DESIGN.md §4 C05"),
 "C10": dict(engine="hostile inputs + vworker", technique="runtime monitoring: process-level monitors (recovered panics, fatal runtime errors attributed through a BEGIN log, CPU-time and peak-RSS budgets, RLIMIT_AS) around every public entry point fed with hostile inputs in isolated worker processes",
   text="Held on the inputs observed: random bytes and token soup, token mutations and splices of valid programs, deep / wide / numeric / semantic stress templates up to 64 KiB; known crash and blow-up sites are listed findings keyed by input template and site.",
   note="Budgets are CPU time (10 s) and resident memory (768 MiB) per input, confirmed by a solo re-run; wall clock only protects the run.", ref="DESIGN.md §4 C10"),
 "C12": dict(engine="wgen+irstrict+vworker+race detector", technique="runtime monitoring: byte equality across fresh processes, backend orders on a shared module and a reused spirv.Backend; canonical module dump before/after every backend; Go race detector over concurrent compilations with output comparison",
   text="Held on the histories and schedules observed: all 24 orders of four backends for part of the programs, random orders otherwise, 2/4/16 goroutines behind a start barrier on separate and shared modules.",
   note="dxil.Compile and the PipelineConstants paths mutate their input module (finding F57, whose repair would break a golden that encodes the history dependence); they are exercised as a witness only. Schedules are sampled, not enumerated.", ref="DESIGN.md §4 C12"),
 "C06": dict(engine="wgen+wref+spvx", technique="runtime monitoring: the same expression tree is compiled in compile-time positions (module const, function const, const_assert, array size, workgroup size, switch selector, initialiser) and in a run-time position fed from a buffer; both are executed in the SPIR-V interpreter and compared with the WGSL reference evaluator",
   text="Held on the (expression, embedding) pairs observed: the compile-time value equals the run-time value where WGSL defines both identically, a shader-creation error is reported exactly when the reference evaluator says the const-expression is one.",
   note="Trusted base: wref (const- and run-time evaluation rules incl. abstract numerics), spvx. Listed findings (module-scope builtins, const matrix +/-, abstract-int range, switch / array-size / workgroup-size forms) are attributed per embedding class or gated.", ref="DESIGN.md §4 C06"),
 "C07": dict(engine="wgen+wlayout+spvx+text interpreters", technique="runtime monitoring: for randomly built host-shareable type trees, (a) member offsets, spans and strides of the lowered IR are compared with an independent WGSL layout calculator, (b) a write probe stores a sentinel into every scalar leaf and a read probe copies every leaf of an offset-coded buffer; both are compiled by all four backends and executed in the matching interpreter, which addresses memory by the target's own rules: each sentinel must land at the WGSL byte offset of its leaf",
   text="Held on the type trees observed (nested structs, arrays, matrices, vec3 tails, @size/@align within the gated subset) in storage and uniform address spaces.",
   note="Trusted base: wlayout (WGSL §13.4), spvx and the text interpreters' own layout engines (std430/std140, Metal ABI, HLSL byte addresses).", ref="DESIGN.md §4 C07"),
 "C14": dict(engine="wgen+wref+irx+spvx+text interpreters", technique="runtime monitoring: generated programs with overrides x value maps x resolution paths (ir.ProcessOverrides + IR interpreter / SPIR-V / HLSL / MSL / GLSL interpreters, glsl and msl PipelineConstants options); buffers compared with the reference evaluator binding the same values; canonical-dump monitor on the caller's module; hostile value maps; template campaign for derived workgroup sizes and module-scope initialisers",
   text="Held on the executions observed inside the operator subset naga's float64 override evaluator implements; four defects found by this check were repaired (fix: commits), the remaining ones (initialisers mentioning constants, non-arithmetic operators in initialisers, overrides in @workgroup_size, backend options with an empty map, MSL compound defaults, caller-module mutation) are listed findings.",
   note="Trusted base: wref (override-expressions evaluated as pipeline-creation constants: an overflow makes the case out of scope), irx, spvx, text interpreters.", ref="DESIGN.md §4 C14"),
 "C15": dict(engine="wgen(hostile)+wref(policy)+spvx+text interpreters", technique="runtime monitoring: programs in a hostile profile (unguarded dynamic indices taken from buffer data, raw shift amounts, raw float-to-int conversions, run-time divisors, reads of variables without initialiser) x boundary-biased 32-bit inputs, compiled with each backend's protective options and executed in trapping interpreters; every trap is the violation, results are compared with the reference evaluator applying the same bounds-check policy",
   text="Held on the executions observed in four lanes: SPIR-V (default wrappers, zero-init), MSL (Restrict and ReadZeroSkipWrite), HLSL (RestrictIndexing on function/private/workgroup data), GLSL (operators only; this naga has no GLSL index policy). Unprotected paths found (SPIR-V shifts and conversions, HLSL storage indexing, MSL runtime-array globals in helpers, GLSL division) are listed findings with witnesses.",
   note="Trusted base: the interpreters' trap monitors (out-of-object access, poison read, division by zero/overflow, out-of-range conversion, oversized shift) and wref's policy semantics (restrict = clamp to last element, rzsw = read zero / skip write).", ref="DESIGN.md §4 C15"),
 "C16": dict(engine="adversarial name pool + text interpreters' scope resolvers + wref", technique="runtime monitoring: (1) every (word, declaration position) pair from a pool of adversarial names (reserved words / type names / intrinsics of the three targets taken from the interpreters' specification tables, naga's own helper and temporary spellings, case / digit / underscore variants, Unicode identifiers) in a template with known result, (2) injective adversarial renamings of generated programs; each emitted HLSL / MSL / GLSL text is scope-resolved by an independent front end (reserved identifier, redeclaration, unresolved reference = static trap), the entry point is looked up through EntryPointNames and the code is executed and compared with the expected result",
   text="Held on the (word, position, backend) triples observed (quick: a PRNG-chosen slice, thorough: the whole pool x 10 positions x 3 backends) outside five listed finding groups (gl_ prefix, HLSL sampler keywords, MSL simd/ulong, user functions named like texture built-ins, collisions with generated helper names).",
   note="Words whose status depends on compiler / language version / a using-directive (HLSL intrinsics and *_t types, metal:: type names, GLSL 4.60-only keywords, names containing __) are counted as not judged rather than as violations.", ref="DESIGN.md §4 C16"),
 "C17": dict(engine="interface module generator + spvx decoder + annotation readers", technique="runtime monitoring: generated modules with 1-4 entry points of mixed stages, shared and unshared buffer resources, struct and bare stage interfaces, all stage builtins, random locations / interpolation / workgroup sizes and random binding maps per backend; the emitted SPIR-V binary is decoded independently and its entry points, execution modes, decorations, storage classes and interface lists are compared with the generator's records; register / [[buffer]] / binding / location / semantic annotations of the HLSL, MSL and GLSL text and the reported entry-point names are read back and compared with the supplied maps",
   text="Held on the modules observed for buffer resources and stage interfaces; the missing Invariant decoration in SPIR-V is a listed finding.",
   note="The generator's own records are the oracle. Text annotations are read with regular expressions anchored on unique identifier stems. Textures, samplers, binding arrays and the GLSL texture-sampler reflection are not generated (see DESIGN.md §4 C17).", ref="DESIGN.md §4 C17"),
}
pending = {}
for p in ALL:
    if p not in checks:
        pending[p] = "check not wired yet in this commit (work in progress; see DESIGN.md §10 build order)"
m = {
 "version": 1,
 "setup_cmd": "cd /verif && ./build.sh",
 "hooks": {"guard": "verif", "enable": "go build -tags verif (checks build /repo through the replace directive in /verif/go.mod)",
           "baseline_off_cmd": "cd /repo && GOFLAGS=-mod=mod GOPROXY=off go test -vet=off -count=1 -timeout 25m ./...", "source_commits": ["c0562c9"], "add_only": True},
 "engines": [
  {"name": "wgen", "path": "internal/wgen", "serves_properties": ALL, "kind_free_text": "type-directed generator of well-typed WGSL compute modules: typed AST, printer with token table, reducer, feature gates"},
  {"name": "wref", "path": "internal/wref", "serves_properties": ["C01","C03","C04","C05","C06","C07","C14","C15","C16"], "kind_free_text": "WGSL reference evaluator over the wgen AST (specification side of the differential monitors)"},
  {"name": "wlayout", "path": "internal/wlayout", "serves_properties": ["C01","C07"], "kind_free_text": "WGSL memory layout calculator"},
  {"name": "spvx", "path": "internal/spvx", "serves_properties": ["C01","C06","C07","C14","C15"], "kind_free_text": "SPIR-V reader and trapping interpreter"},
  {"name": "spvval", "path": "internal/spvval", "serves_properties": ["C02","C17"], "kind_free_text": "independent structural SPIR-V validator"},
  {"name": "irx", "path": "internal/irx", "serves_properties": ["C13","C14"], "kind_free_text": "naga IR interpreter"},
  {"name": "irstrict", "path": "internal/irstrict", "serves_properties": ["C09","C12","C13"], "kind_free_text": "strict IR validator, independent typifier, canonical module dump"},
  {"name": "dxbcx", "path": "internal/dxbcx", "serves_properties": ["C18"], "kind_free_text": "DXBC container / LLVM 3.7 bitstream reader and checker"},
  {"name": "glslx/mslx/hlslx", "path": "internal/{glslx,mslx,hlslx}", "serves_properties": ["C03","C04","C05","C15","C16","C17"], "kind_free_text": "front-ends and trapping interpreters for the emitted GLSL, MSL and HLSL"},
 ],
 "checks": [],
 "not_applicable": [{"property_id": p, "reason": r} for p, r in sorted(pending.items())],
 "notes": "All checks are runtime monitors over executions of the real compiler (DESIGN.md, section 11 = as built). Listed genuine defects: KNOWN_FINDINGS (+ witnesses in findings/); repaired ones are fix: commits in /repo. Seeded changes and what catches them: seeded/RESULTS.md.",
}
for p in sorted(checks):
    c = checks[p]
    m["checks"].append({
        "property_id": p, "quick_cmd": f"./check {p} quick", "thorough_cmd": f"./check {p} thorough",
        "evidence_file": f"/verif/evidence/{p}.json", "replay_cmd_template": f"./check {p} quick --replay {{path}}",
        "engine": c["engine"], "technique": c["technique"],
        "level_claimed": {"category": EXPL, "text": c["text"], "design_ref": c["ref"]}, "level_note": c["note"]})
json.dump(m, open(os.path.join(root, "MANIFEST.json"), "w"), indent=1)
print("checks:", [c["property_id"] for c in m["checks"]], "pending:", len(pending))
