#!/bin/bash
# tools/confirm_mutant.sh <seeded/<prop>/<m> dir>: applies the seeded change in a scratch worktree of /repo (outside /repo and
# /verif), confirms that it builds and that the unedited test suite passes; writes <dir>/confirm.txt. The worktree is removed.
set -u
cd "$(dirname "$0")/.."
dir=$PWD/$1
wt=/tmp/confirm-wt-$$
git -C /repo worktree add -q --detach $wt HEAD || exit 2
trap 'git -C /repo worktree remove --force '$wt' >/dev/null 2>&1' EXIT
cd $wt
export GOFLAGS=-mod=mod GOPROXY=off
{
  echo "base commit: $(git rev-parse --short HEAD)"
  if git apply "$dir/patch.diff"; then echo "apply: ok"; else echo "apply: FAILED"; fi
  git diff --stat | tail -3
  if go build ./... 2>&1 | tail -3; then echo "build: done"; fi
  out=$(go test -vet=off -count=1 ./... 2>&1)
  echo "test packages ok: $(echo "$out" | grep -c '^ok')  failing: $(echo "$out" | grep -c '^FAIL\|^---\ FAIL')"
  echo "$out" | grep '^FAIL\|^--- FAIL' | head -5
} > "$dir/confirm.txt" 2>&1
cat "$dir/confirm.txt"
