#!/usr/bin/env python3
"""Rewrites the 'Appendix E' block of DESIGN.md from KNOWN_FINDINGS (one row per finding id)."""
import re, os, collections
root = os.path.dirname(os.path.dirname(os.path.abspath(__file__)))
known = collections.OrderedDict()
fixed = collections.OrderedDict()
for line in open(os.path.join(root, "KNOWN_FINDINGS")):
    line = line.strip()
    if not line or line.startswith("#"):
        continue
    kind = line.split(":", 1)[0]
    head, _, what = line.partition("::")
    m = re.search(r"finding=(F\d+\w*)", head)
    p = re.search(r"property=(C\d+)", head)
    if not m or not p:
        continue
    fid, prop = m.group(1), p.group(1)
    if kind == "fixed":
        c = re.search(r"property=C\d+\s+([0-9a-f]{7})", head)
        fixed.setdefault(fid, [set(), c.group(1) if c else "", what.strip()])[0].add(prop)
    elif kind == "known":
        known.setdefault(fid, [set(), what.strip()])[0].add(prop)
def num(f):
    return int(re.sub(r"\D", "", f) or 0)
out = ["## Appendix E — findings on the pinned tree (generated from KNOWN_FINDINGS by tools/gen_findings_md.py)", "",
       "### E.1 Repaired in /repo (`fix:` commits); their witnesses are replayed on every run and report a VIOLATION if the defect returns", "",
       "| finding | properties | commit | what failed |", "|---|---|---|---|"]
for f in sorted(fixed, key=num):
    props, commit, what = fixed[f]
    out.append("| %s | %s | %s | %s |" % (f, " ".join(sorted(props)), commit, what.replace("|", "\\|")[:400]))
out += ["", "### E.2 Recorded, not repaired (printed as KNOWN-FINDING lines; attributed by witness, class and match strings only)", "",
        "| finding | properties | what fails |", "|---|---|---|"]
for f in sorted(known, key=num):
    if f in fixed and not known[f][0] - fixed[f][0]:
        continue
    props, what = known[f]
    out.append("| %s | %s | %s |" % (f, " ".join(sorted(props)), what.replace("|", "\\|")[:400]))
block = "\n".join(out) + "\n"
p = os.path.join(root, "DESIGN.md")
s = open(p).read()
marker = "## Appendix E — findings on the pinned tree"
if marker in s:
    s = s[:s.index(marker)]
s = s.rstrip("\n") + "\n\n" + block
open(p, "w").write(s)
print("known findings:", len(known), "fixed:", len(fixed))
