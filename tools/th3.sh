#!/bin/bash
cd "$1"
for p in C05 C10; do
  out=$(VERIF_SEED=1 ./check $p thorough 2>&1); rc=$?
  echo "seed=1 $p rc=$rc $(echo "$out" | grep '^SUMMARY' | cut -c1-160)"
  echo "$out" | grep '^VIOLATION' | cut -c1-300 | head -6
done
./tools/sweep.sh quick 1 2 3 5 8
