#!/bin/bash
# tools/mutant.sh <seeded/<prop>/<mutant> dir> <check id>...
# Applies the seeded change to /repo, runs the given checks (quick; thorough when quick stays silent), restores /repo.
# Writes <dir>/result.txt. Never commits anything in /repo.
set -u
cd "$(dirname "$0")/.."
dir=$1; shift
if [ -n "$(git -C /repo status --porcelain)" ]; then echo "/repo is not clean"; exit 2; fi
if ! git -C /repo apply --check "$PWD/$dir/patch.diff" 2>/dev/null; then echo "patch does not apply: $dir"; exit 2; fi
git -C /repo apply "$PWD/$dir/patch.diff"
trap 'git -C /repo checkout -- . ; git -C /repo clean -fdq -- . >/dev/null 2>&1' EXIT
: > "$dir/result.txt"
for p in "$@"; do
  for tier in quick thorough; do
    out=$(VERIF_SEED=${SEED:-1} VERIF_REDUCE=2 timeout 3000 ./check $p $tier 2>&1); rc=$?
    v=$(echo "$out" | grep -c '^VIOLATION')
    echo "$p $tier rc=$rc violations=$v $(echo "$out" | grep '^SUMMARY' | cut -c1-150)" | tee -a "$dir/result.txt"
    echo "$out" | grep '^VIOLATION' | head -4 | cut -c1-330 | tee -a "$dir/result.txt"
    if [ $rc -ne 0 ]; then break; fi
    if [ "${NOTHOROUGH:-}" != "" ]; then break; fi
  done
done
