#!/usr/bin/env python3
"""Writes seeded2/RESULTS.md from the meta.json / confirm.txt / result.txt files of the second round of seeded changes."""
import json, os, re, glob
root = os.path.dirname(os.path.dirname(os.path.abspath(__file__)))
notes = {
 "C09/m2": "caught after type aliases were added to the generator (also by C13, C02, C01)",
 "C14/m1": "caught after derived / zero-valued overrides were added to the C14 templates",
 "C06/m2": "caught by C14 after unsigned overrides on both sides of 2^31 were added",
 "C10/m1": "caught after the vector-size-mismatch hostile templates",
 "C11/m2": "caught after the C11 call grid",
 "C16/m1": "caught after the escape-pair templates",
 "C12/m2": "caught after node-kind classification of module mutations (msl F57 line removed)",
 "C17/m2": "caught after the MSL partial-map lane",
 "C15/m1": "caught after the entry-graph campaign",
 "C09/m1": "caught after pointer lets + ReuseLocalNames (also by C08)",
 "C19/m2": "caught after pointer lets + ReuseLocalNames (also by C08)",
 "C02/m1": "caught after the workgroup-composite templates",
 "C01/m2": "caught after the pointer-argument grid",
 "C01/m1": "caught by C06 (module-scope constant evaluation), not by C01",
 "C04/m2": "caught by C14 (pipeline constants lane)",
 "C02/m2": "caught at the thorough tier only (the numeric coincidence of type ids needs thousands of modules); signature templates were added to raise the rate",
 "C03/m1": "missed: needs matCx2 values in HLSL (gated off for a known finding)",
 "C03/m2": "caught at the thorough tier only (dynamic column index of a non-square matrix under RestrictIndexing)",
 "C05/m1": "caught after the continue-in-switch gate was narrowed to the F78 shape and the control-nesting profile with nesting scripts was added",
 "C06/m1": "caught after f32 % was admitted in the constant contexts of C06 (kept out of the run-time form, F31)",
 "C15/m2": "caught after split MSL policies (Index unchecked, Buffer protected) and ptr<storage>-parameter access-path templates were added",
 "C18/m2": "missed: indistinguishable from F58 (whole-class line)",
}
rows = []
for d in sorted(glob.glob(os.path.join(root, "seeded2", "C*", "m*"))):
    key = "/".join(d.split("/")[-2:])
    meta = json.load(open(os.path.join(d, "meta.json")))
    what = (meta.get("mutant") or meta.get("title") or "").replace("|", "/").replace("\n", " ")[:170]
    conf = "-"
    cf = os.path.join(d, "confirm.txt")
    if os.path.exists(cf):
        t = open(cf).read()
        m = re.search(r"test packages ok: (\d+)\s+failing: (\d+)", t)
        conf = ("apply ok, " if "apply: ok" in t else "apply FAILED, ") + (f"{m.group(1)} packages ok / {m.group(2)} failing" if m else "?")
    caught = []
    for fn in ("result.txt", "result.own.txt"):
        rf = os.path.join(d, fn)
        if not os.path.exists(rf): continue
        for l in open(rf):
            m = re.match(r"(C\d\d) (quick|thorough) rc=(\d+)", l)
            if m and m.group(3) == "1" and (m.group(1), m.group(2)) not in caught:
                caught.append((m.group(1), m.group(2)))
    verdict = "caught" if caught else "not caught"
    by = ", ".join(f"{c} {t}" for c, t in caught) or "-"
    rows.append(f"| {key} | {what} | {verdict} | {by} | {conf} | {notes.get(key, '')} |")
n = sum(1 for r in rows if "| caught |" in r)
out = f"""# Second round of seeded changes

Same procedure as `seeded/RESULTS.md`: fresh sub-agents, each given only one property's text and its own scratch worktree of
/repo under /tmp. `result.txt` is the output of `tools/mutant.sh` (patch applied to /repo's working tree, checks run at the
quick tier, /repo restored); `confirm.txt` is `tools/confirm_mutant.sh` (patch applied in a scratch worktree at /repo HEAD,
build, unedited test suite). {n} of {len(rows)} are caught by the machinery as it stands at the end of the session; the
"note" column says which were caught only after a widening (DESIGN.md 11.6, second round).

| change | what it breaks | verdict | check(s) that reported it | confirmation | note |
|---|---|---|---|---|---|
""" + "\n".join(rows) + "\n"
open(os.path.join(root, "seeded2", "RESULTS.md"), "w").write(out)
print(n, "of", len(rows), "caught")
