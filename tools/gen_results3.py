#!/usr/bin/env python3
"""Writes seeded3/RESULTS.md from the meta.json / confirm.txt / result.txt files of the second round of seeded changes."""
import json, os, re, glob
root = os.path.dirname(os.path.dirname(os.path.abspath(__file__)))
notes = {
 "C01/m2": "caught after the const-bits templates (literals compared by bit pattern)",
 "C03/m1": "caught at quick after the workload widenings (dynamic column index of a non-square matrix under RestrictIndexing)",
 "C04/m2": "caught by C14 after the ordering campaign got expressions over override-derived lets",
 "C06/m1": "caught after mixed abstract-int / abstract-float operands were generated",
 "C06/m2": "caught by C14 (unsigned overrides on both sides of 2^31), not by C06",
 "C07/m1": "caught after uniform arrays of matCx3 were generated",
 "C09/m2": "caught after the dense array-type templates",
 "C10/m1": "caught after the const-index-end templates (index exactly one past the end)",
 "C10/m2": "caught after the diamond-calls templates (the unchanged tree's dxil.Compile is exponential there too: F148)",
 "C11/m2": "caught after a third of the injections were re-encoded with CR LF behind a multi-line block comment",
 "C13/m2": "caught after plain-helper programs (no listed inliner trait applies) were added to C13",
 "C14/m2": "caught after the ordering campaign (pointer-tail variant: the last expression of the function is a load)",
 "C15/m2": "caught after the nested-index templates",
 "C19/m1": "caught after AddParens covered statement heads",
 "C19/m2": "caught after dead abstract constants were generated (with ReuseLocalNames); also by C08",
 "C13/m1": "missed: mem2reg is under a whole-class known line (F51 / F53)",
 "C18/m2": "missed: indistinguishable from F58 (whole-class line), as in rounds one and two",
}
rows = []
for d in sorted(glob.glob(os.path.join(root, "seeded3", "C*", "m*"))):
    key = "/".join(d.split("/")[-2:])
    meta = json.load(open(os.path.join(d, "meta.json")))
    what = (meta.get("mutant") or meta.get("title") or "").replace("|", "/").replace("\n", " ")[:170]
    conf = "-"
    cf = os.path.join(d, "confirm.txt")
    if os.path.exists(cf):
        t = open(cf).read()
        m = re.search(r"test packages ok: (\d+)\s+failing: (\d+)", t)
        conf = ("apply ok, " if "apply: ok" in t else "apply FAILED, ") + (f"{m.group(1)} packages ok / {m.group(2)} failing" if m else "?")
    caught = []
    for fn in ("result.txt", "result.own.txt"):
        rf = os.path.join(d, fn)
        if not os.path.exists(rf): continue
        for l in open(rf):
            m = re.match(r"(C\d\d) (quick|thorough) rc=(\d+)", l)
            if m and m.group(3) == "1" and (m.group(1), m.group(2)) not in caught:
                caught.append((m.group(1), m.group(2)))
    verdict = "caught" if caught else "not caught"
    by = ", ".join(f"{c} {t}" for c, t in caught) or "-"
    rows.append(f"| {key} | {what} | {verdict} | {by} | {conf} | {notes.get(key, '')} |")
n = sum(1 for r in rows if "| caught |" in r)
out = f"""# Third round of seeded changes

Same procedure as `seeded/RESULTS.md`: fresh sub-agents, each given only one property's text and its own scratch worktree of
/repo under /tmp. `result.txt` is the output of `tools/mutant.sh` (patch applied to /repo's working tree, checks run at the
quick tier, /repo restored); `confirm.txt` is `tools/confirm_mutant.sh` (patch applied in a scratch worktree at /repo HEAD,
build, unedited test suite). {n} of {len(rows)} are caught by the machinery as it stands at the end of the session; the
"note" column says which were caught only after a widening (DESIGN.md 11.6, third round).

| change | what it breaks | verdict | check(s) that reported it | confirmation | note |
|---|---|---|---|---|---|
""" + "\n".join(rows) + "\n"
open(os.path.join(root, "seeded3", "RESULTS.md"), "w").write(out)
print(n, "of", len(rows), "caught")
