#!/bin/bash
# tools/sweep.sh <tier> <seed>... : run every claimed check at the given seeds; print one line per run (+ VIOLATION lines)
cd "$(dirname "$0")/.."
tier=$1; shift
for s in "$@"; do
  for p in $(python3 -c "import json;print(' '.join(c['property_id'] for c in json.load(open('MANIFEST.json'))['checks']))"); do
    out=$(VERIF_SEED=$s ./check $p $tier 2>&1); rc=$?
    echo "seed=$s $p rc=$rc $(echo "$out" | grep '^SUMMARY' | cut -c1-160)"
    echo "$out" | grep '^VIOLATION' | cut -c1-260 | head -5
  done
done
# known witnesses that no longer reproduce (to be turned into fixed / withdrawn)
grep -ho "known finding F[0-9a-z]* no longer reproduces[^\"]*" evidence/*.json 2>/dev/null | sort | uniq -c
