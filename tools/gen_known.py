#!/usr/bin/env python3
"""Regenerates the `known:` section of /verif/KNOWN_FINDINGS from the witness headers in /verif/findings (run by hand before committing;
the checks never write this file). `fixed:` lines are kept as they are."""
import glob, os, re
root = os.path.dirname(os.path.dirname(os.path.abspath(__file__)))
path = os.path.join(root, "KNOWN_FINDINGS")
head, fixed = [], []
for l in open(path):
    if l.startswith("#"): head.append(l)
    elif l.startswith("fixed:"): fixed.append(l)
    elif l.startswith("known:") and " class=" in l: fixed.append(l)  # hand-written attribution lines (corpus inputs) are kept
known = []
for f in sorted(glob.glob(os.path.join(root, "findings", "*.wgsl"))):
    lines = open(f).read().split("\n")
    h = dict(kv.split("=", 1) for kv in lines[0][2:].split() if "=" in kv)
    if h.get("status") != "known": continue
    what = lines[1][2:].strip()
    for p in h["property"].split(","):
        known.append(f"known: property={p} finding={h['finding']} kind={h.get('kind','accept')} witness=findings/{os.path.basename(f)} :: {what}\n")
open(path, "w").write("".join(head) + "".join(fixed) + "".join(sorted(known)))
print(len(known), "known lines,", len(fixed), "fixed lines")
