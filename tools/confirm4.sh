#!/bin/bash
# tools/confirm4.sh <seeded4/<prop>/<m> dir>: in a scratch worktree of /repo (outside /repo and /verif): the demonstration
# passes on the clean tree; with patch.diff applied the project builds, the unedited suite passes and the demonstration
# fails. Writes <dir>/confirm.txt; the worktree is removed.
set -u
cd "$(dirname "$0")/.."
dir=$PWD/$1
wt=/tmp/confirm4-wt-$$
git -C /repo worktree add -q --detach $wt HEAD || exit 2
trap 'git -C /repo worktree remove --force '$wt' >/dev/null 2>&1' EXIT
cd $wt
export GOFLAGS=-mod=mod GOPROXY=off
unset GOSUMDB
ddir=$(python3 -c "import json,sys;print(json.load(open('$dir/meta.json')).get('demo_dir','.'))")
ddir=${ddir#./}; [ -z "$ddir" ] && ddir=.
ddir=$(echo "$ddir" | awk '{print $1}')
[ -d "$ddir" ] || ddir=.
cp "$dir/demo_test.go" "$ddir/zz_demo_test.go"
{
  echo "base commit: $(git rev-parse --short HEAD)  demo dir: $ddir"
  out=$(go test -vet=off -count=1 -run 'Demo|C[0-9][0-9]M[0-9]|R4' ./$ddir/ 2>&1); rc=$?
  echo "demo on clean tree: rc=$rc $(echo "$out" | tail -1)"
  if git apply "$dir/patch.diff"; then echo "apply: ok"; else echo "apply: FAILED"; fi
  git diff --stat | tail -3
  go build ./... 2>&1 | tail -3; echo "build: rc=$?"
  out=$(go test -vet=off -count=1 -run 'Demo|C[0-9][0-9]M[0-9]|R4' ./$ddir/ 2>&1); rc=$?
  echo "demo with change: rc=$rc"; echo "$out" | grep -m3 -- "--- FAIL\|^FAIL\|panic"
  rm -f "$ddir/zz_demo_test.go"
  out=$(go test -vet=off -count=1 ./... 2>&1)
  echo "suite with change: packages ok: $(echo "$out" | grep -c '^ok')  failing: $(echo "$out" | grep -c '^FAIL\|^---\ FAIL')"
  echo "$out" | grep '^FAIL\|^--- FAIL' | head -5
} > "$dir/confirm.txt" 2>&1
cat "$dir/confirm.txt"
