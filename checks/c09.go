package checks

import (
	"fmt"

	"verif/internal/cases"
	"verif/internal/irstrict"
	"verif/internal/run"
	"verif/internal/wgen"
)

func init() { register("C09", C09) }

func C09(c *run.Ctx) int {
	replayWitnesses(c, map[string]func(witness) string{"ir-strict": witnessIRStrictWith(c)})
	corpus := loadCorpus()
	nGen := c.N(1200, 20000)
	c.SetExtra("rules_implemented", irstrict.RuleIDs())
	c.Each(nGen+len(corpus), func(i int) (string, run.Outcome) {
		if i < len(corpus) {
			id := "corpus-" + corpus[i].Name
			o := c09Eval(c, id, corpus[i].Src, map[string]int{"corpus:" + corpus[i].Name: 1}, true)
			if o.V == run.Violated {
				o.Reason = id + ": " + o.Reason
			}
			return id, o
		}
		seed := run.CaseSeed(c.Seed, "accept", i-len(corpus))
		prog := cases.Generate(seed, wgen.Config{Off: wgen.SafeOff()})
		id := fmt.Sprintf("prog-%d", i-len(corpus))
		feats := cases.FeatKeys(prog.Feat)
		src := wgen.Print(prog.M).Src
		o := c09Eval(c, id, src, feats, false)
		if o.V == run.Violated && c.TakeReduceSlot() {
			class := o.Class
			wgen.Reduce(prog.M, func() bool {
				r := c09Eval(c, id, wgen.Print(prog.M).Src, feats, false)
				return r.V == run.Violated && r.Class == class
			}, 6)
			if r := c09Eval(c, id, wgen.Print(prog.M).Src, feats, false); r.V == run.Violated && r.Class == class {
				r.Witness["reduced"] = true
				r.Witness["wgsl_unreduced"] = src
				o = r
			}
		}
		if o.V == run.Violated {
			o.Reason = id + ": " + o.Reason
		}
		return id, o
	})
	return c.Finish("every module returned by LowerWithSource for generated programs and the corpus is checked by an independent strict IR validator (rules R1-R18: handle ranges, backward references, no abstract types, type uniqueness, recorded expression types vs an independent typifier, emit coverage and ordering, result binding, returns, store/call typing, control-flow placement, access typing, entry-point bindings, layout, plus naga's own ir.Validate); "+
		"counters give per-rule evaluations and expression types compared by kind; distinct = distinct (feature set | corpus shader)",
		[]string{"irstrict's typifier is a second implementation of upstream naga's proc::typifier rules; it shares no code with ir.ResolveExpressionType"})
}

func c09Eval(kc *run.Ctx, caseID, src string, feats map[string]int, isCorpus bool) run.Outcome {
	var mod *irModule
	var stage string
	var err error
	if st, pan := run.Catch(func() { mod, stage, err = lowerSrc(src) }); pan {
		return run.Outcome{V: run.Inconclusive, Reason: "front-end panic (C10 territory): " + st[:min(80, len(st))]}
	}
	if err != nil {
		return run.Outcome{V: run.Inconclusive, Reason: "front-end rejected the program (" + stage + ")"}
	}
	rep := irstrict.Check(mod, irstrict.Lowered)
	cov := map[string]int{}
	for k, v := range rep.Fired {
		cov["rule:"+k] += v
	}
	for k, v := range rep.TypesCompared {
		cov["types:"+k] += v
	}
	for _, f := range rep.Findings {
		class := f.Rule + ":" + normErr(f.Detail)
		if kc != nil && kc.KnownMatch(class, caseID+": "+f.Detail) {
			cov["known-finding-instances"]++
			continue
		}
		return run.Outcome{V: run.Violated, Class: f.Rule + ":" + normErr(f.Detail), Reason: fmt.Sprintf("%s at %s: %s (%d findings)", f.Rule, f.Where, f.Detail, len(rep.Findings)),
			Witness: map[string]any{"wgsl": src, "findings": fmt.Sprint(rep.Findings)}}
	}
	o := run.Outcome{V: run.Held, Sig: cases.FeatureSig(feats), Cov: cov}
	if !isCorpus {
		o.Sample = map[string]any{"wgsl": src, "expression_types_compared": len(rep.TypesCompared)}
	}
	return o
}
