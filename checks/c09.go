package checks

import (
	"fmt"
	"strings"

	"verif/internal/cases"
	"verif/internal/irstrict"
	"verif/internal/run"
	"verif/internal/wgen"
)

func init() { register("C09", C09) }

func C09(c *run.Ctx) int {
	replayWitnesses(c, map[string]func(witness) string{"ir-strict": witnessIRStrictWith(c)})
	corpus := loadCorpus()
	nGen := c.N(1200, 20000)
	c.SetExtra("rules_implemented", irstrict.RuleIDs())
	c.Each(nGen+len(corpus), func(i int) (string, run.Outcome) {
		if i < len(corpus) {
			id := "corpus-" + corpus[i].Name
			o := c09Eval(c, id, corpus[i].Src, map[string]int{"corpus:" + corpus[i].Name: 1}, true)
			if o.V == run.Violated {
				o.Reason = id + ": " + o.Reason
			}
			return id, o
		}
		seed := run.CaseSeed(c.Seed, "accept", i-len(corpus))
		prog := cases.Generate(seed, wgen.Config{Off: wgen.SafeOff()})
		id := fmt.Sprintf("prog-%d", i-len(corpus))
		feats := cases.FeatKeys(prog.Feat)
		src := wgen.Print(prog.M).Src
		o := c09Eval(c, id, src, feats, false)
		if o.V == run.Violated && c.TakeReduceSlot() {
			class := o.Class
			wgen.Reduce(prog.M, func() bool {
				r := c09Eval(c, id, wgen.Print(prog.M).Src, feats, false)
				return r.V == run.Violated && r.Class == class
			}, 6)
			if r := c09Eval(c, id, wgen.Print(prog.M).Src, feats, false); r.V == run.Violated && r.Class == class {
				r.Witness["reduced"] = true
				r.Witness["wgsl_unreduced"] = src
				o = r
			}
		}
		if o.V == run.Violated {
			o.Reason = id + ": " + o.Reason
		}
		return id, o
	})
	// many fixed-size array types over a few 4-byte element types: type-deduplication keys see many (element handle,
	// length, stride) triples whose renderings are close to one another ((1,12) / (11,2), (3,4) / (34, ...))
	nArr := c.N(120, 2000)
	c.Each(nArr, func(i int) (string, run.Outcome) {
		r := run.NewRng(run.CaseSeed(c.Seed, "c09-arrays", i))
		id := fmt.Sprintf("arrays-%d", i)
		var sb strings.Builder
		elems := []string{"u32", "i32", "f32", "atomic<u32>", "atomic<i32>", "vec2<f32>", "vec4<u32>", "vec3<f32>"}
		// a random prefix of struct / alias declarations moves the type handles around
		for k, np := 0, r.Intn(10)+(i%2)*r.Range(4, 30); k < np; k++ {
			fmt.Fprintf(&sb, "struct P%d { a: %s, b: array<%s, %d>, }\n", k, []string{"u32", "f32", "vec2<i32>", "mat2x2<f32>"}[r.Intn(4)], []string{"u32", "f32"}[r.Intn(2)], r.Range(2, 40))
		}
		sb.WriteString("@group(0) @binding(0) var<storage, read_write> o: array<u32, 64>;\n")
		nv := r.Range(6, 16)
		dense := i%2 == 1 // dense variant: every one-digit length over the atomics, many two-digit lengths over the scalars
		if dense {
			nv = 9 + 9 + 30
		}
		var body []string
		for k := 0; k < nv; k++ {
			el := elems[r.Intn(len(elems))]
			n := r.Range(1, 40)
			if r.Chance(1, 3) {
				n = []int{2, 3, 4, 11, 12, 13, 14, 21, 22, 23, 31, 32, 34, 41, 42}[r.Intn(15)]
			}
			if dense {
				switch {
				case k < 9:
					el, n = "atomic<u32>", k+1
				case k < 18:
					el, n = "atomic<i32>", k-8
				default:
					el, n = []string{"u32", "i32", "f32"}[r.Intn(3)], r.Range(10, 99)
				}
			}
			space := "workgroup"
			if !strings.HasPrefix(el, "atomic") && r.Bool() {
				space = "private"
			}
			fmt.Fprintf(&sb, "var<%s> a%d: array<%s, %d>;\n", space, k, el, n)
			ix := r.Intn(n)
			switch {
			case strings.HasPrefix(el, "atomic<u32>"):
				body = append(body, fmt.Sprintf("o[%d] = atomicAdd(&a%d[%d], 1u);", k, k, ix))
			case strings.HasPrefix(el, "atomic<i32>"):
				body = append(body, fmt.Sprintf("o[%d] = u32(atomicAdd(&a%d[%d], 1i));", k, k, ix))
			case el == "u32":
				body = append(body, fmt.Sprintf("a%d[%d] = 7u; o[%d] = a%d[%d] + 1u;", k, ix, k, k, ix))
			case el == "i32":
				body = append(body, fmt.Sprintf("a%d[%d] = 7i; o[%d] = u32(a%d[%d] + 1i);", k, ix, k, k, ix))
			case el == "f32":
				body = append(body, fmt.Sprintf("a%d[%d] = 7.0f; o[%d] = u32(a%d[%d] + 1.0f);", k, ix, k, k, ix))
			case el == "vec2<f32>":
				body = append(body, fmt.Sprintf("a%d[%d] = vec2<f32>(1.0f, 2.0f); o[%d] = u32(a%d[%d].y);", k, ix, k, k, ix))
			case el == "vec3<f32>":
				body = append(body, fmt.Sprintf("a%d[%d] = vec3<f32>(1.0f, 2.0f, 3.0f); o[%d] = u32(a%d[%d].z);", k, ix, k, k, ix))
			default:
				body = append(body, fmt.Sprintf("a%d[%d] = vec4<u32>(1u, 2u, 3u, 4u); o[%d] = a%d[%d].w;", k, ix, k, k, ix))
			}
		}
		fmt.Fprintf(&sb, "@compute @workgroup_size(1) fn main() {\n    %s\n}\n", strings.Join(body, "\n    "))
		o := c09Eval(c, id, sb.String(), map[string]int{"template:arrays": 1, fmt.Sprintf("arrays:%d-variables", nv): 1}, false)
		if o.V == run.Violated {
			o.Reason = id + ": " + o.Reason
		}
		return id, o
	})
	// typed access grid: every matrix shape (and a vector / array / nested array of each) held BY VALUE - as a parameter, a
	// let, a call result, a struct member of a by-value struct - and indexed with a run-time index, a constant index and
	// both in sequence; the recorded expression types are compared with the independent typifier (R5) and with the
	// declared result type of the enclosing helper (R9). Non-square shapes distinguish rows from columns.
	type accessCase struct{ id, src string }
	var grid []accessCase
	for cols := 2; cols <= 4; cols++ {
		for rows := 2; rows <= 4; rows++ {
			mt := fmt.Sprintf("mat%dx%d<f32>", cols, rows)
			vt := fmt.Sprintf("vec%d<f32>", rows)
			zero := mt + "()"
			holders := []struct{ name, decl, expr string }{
				{"param", "fn colp(m: " + mt + ", i: u32) -> " + vt + " { return m[i]; }\nfn elp(m: " + mt + ", i: u32, j: u32) -> f32 { return m[i][j]; }\nfn mixp(m: " + mt + ", i: u32) -> f32 { return m[1][i] + m[i][1] + m[i].y; }\n", "colp(" + zero + ", k).x + elp(" + zero + ", k, k) + mixp(" + zero + ", k)"},
				{"let", "fn coll(i: u32) -> " + vt + " { let m = " + zero + "; return m[i]; }\nfn ell(i: u32) -> f32 { let m = " + zero + "; let c = m[i]; return c[i] + m[i][0]; }\n", "coll(k).y + ell(k)"},
				{"call-result", "fn mk() -> " + mt + " { return " + zero + "; }\nfn colr(i: u32) -> " + vt + " { return mk()[i]; }\n", "colr(k).x + mk()[k][1]"},
				{"struct-member", "struct H { pad: f32, m: " + mt + " }\nfn cols(h: H, i: u32) -> " + vt + " { return h.m[i]; }\n", "cols(H(), k).y"},
				{"array-of", "fn cola(a: array<" + mt + ", 2>, i: u32) -> " + vt + " { return a[i][i]; }\nfn ma(a: array<" + mt + ", 2>, i: u32) -> " + mt + " { return a[i]; }\n", "cola(array<" + mt + ", 2>(), k).x + ma(array<" + mt + ", 2>(), k)[1].y"},
				{"variable", "var<private> pm: " + mt + ";\nfn colv(i: u32) -> " + vt + " { return pm[i]; }\nfn colf(i: u32) -> " + vt + " { var m = " + zero + "; m[i] = " + vt + "(1.0); return m[i]; }\n", "colv(k).x + colf(k).y"},
			}
			for _, h := range holders {
				src := "@group(0) @binding(0) var<storage, read_write> o: array<f32, 8>;\n" + h.decl +
					"@compute @workgroup_size(1) fn main(@builtin(local_invocation_index) k: u32) {\n    o[0] = " + h.expr + ";\n}\n"
				grid = append(grid, accessCase{fmt.Sprintf("access-grid:%s:%s", mt, h.name), src})
			}
		}
	}
	c.Each(len(grid), func(i int) (string, run.Outcome) {
		g := grid[i]
		o := c09Eval(c, g.id, g.src, map[string]int{"template:access-grid": 1, g.id: 1}, false)
		if o.V == run.Violated {
			o.Reason = g.id + ": " + o.Reason
		}
		return g.id, o
	})
	return c.Finish("every module returned by LowerWithSource for generated programs and the corpus is checked by an independent strict IR validator (rules R1-R18: handle ranges, backward references, no abstract types, type uniqueness, recorded expression types vs an independent typifier, emit coverage and ordering, result binding, returns, store/call typing, control-flow placement, access typing, entry-point bindings, layout, plus naga's own ir.Validate); "+
		"plus modules declaring 6-16 fixed-size array variables (lengths 1-40, scalar / atomic / vector elements) behind a random prefix of other types; plus a typed access grid (9 matrix shapes x 6 ways of holding the matrix by value or in a variable, indexed by run-time and constant indices); counters give per-rule evaluations and expression types compared by kind; distinct = distinct (feature set | corpus shader)",
		[]string{"irstrict's typifier is a second implementation of upstream naga's proc::typifier rules; it shares no code with ir.ResolveExpressionType"})
}

func c09Eval(kc *run.Ctx, caseID, src string, feats map[string]int, isCorpus bool) run.Outcome {
	var mod *irModule
	var stage string
	var err error
	if st, pan := run.Catch(func() { mod, stage, err = lowerSrc(src) }); pan {
		return run.Outcome{V: run.Inconclusive, Reason: "front-end panic (C10 territory): " + st[:min(80, len(st))]}
	}
	if err != nil {
		return run.Outcome{V: run.Inconclusive, Reason: "front-end rejected the program (" + stage + ")"}
	}
	rep := irstrict.Check(mod, irstrict.Lowered)
	cov := map[string]int{}
	for k, v := range rep.Fired {
		cov["rule:"+k] += v
	}
	for k, v := range rep.TypesCompared {
		cov["types:"+k] += v
	}
	for _, f := range rep.Findings {
		class := f.Rule + ":" + normErr(f.Detail)
		if kc != nil && kc.KnownMatch(class, caseID+": "+f.Detail) {
			cov["known-finding-instances"]++
			continue
		}
		return run.Outcome{V: run.Violated, Class: f.Rule + ":" + normErr(f.Detail), Reason: fmt.Sprintf("%s at %s: %s (%d findings)", f.Rule, f.Where, f.Detail, len(rep.Findings)),
			Witness: map[string]any{"wgsl": src, "findings": fmt.Sprint(rep.Findings)}}
	}
	o := run.Outcome{V: run.Held, Sig: cases.FeatureSig(feats), Cov: cov}
	if !isCorpus {
		o.Sample = map[string]any{"wgsl": src, "expression_types_compared": len(rep.TypesCompared)}
	}
	return o
}
