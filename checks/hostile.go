package checks

import (
	"fmt"
	"strings"

	"verif/internal/cases"
	"verif/internal/run"
	"verif/internal/wgen"
)

// hostileInputs builds the fixed (seed, tier)-determined list of hostile sources for C10.
type hostileInput struct {
	ID   string
	Kind string
	Src  string
}

var tokenDict = []string{"fn", "var", "let", "const", "struct", "if", "else", "loop", "for", "while", "switch", "case", "default", "break", "continue", "continuing", "return",
	"(", ")", "{", "}", "[", "]", "<", ">", ",", ";", ":", ".", "@", "->", "=", "+", "-", "*", "/", "%", "&", "|", "^", "!", "~", "&&", "||", "<<", ">>", "==", "!=", "<=", ">=",
	"i32", "u32", "f32", "bool", "vec3", "vec4<f32>", "mat4x4<f32>", "array", "atomic", "ptr", "function", "private", "storage", "uniform", "workgroup", "read_write",
	"0", "1", "4294967295", "0x7fffffff", "1e39", "1.0", "1u", "-1", "true", "x", "y", "_", "main", "@compute", "@workgroup_size(1)", "@group(0)", "@binding(0)", "@builtin(position)", "@location(0)",
	"override", "alias", "const_assert", "enable", "f16", "bitcast<u32>", "arrayLength", "textureSample", "discard", "/*", "*/", "//", "\n", "\x00", "\xff", "é", " "}

func mutateTokens(src string, r *run.Rng, other string) string {
	toks := wgen.LexWGSL(src)
	if len(toks) < 4 {
		return src + tokenDict[r.Intn(len(tokenDict))]
	}
	n := 1 + r.Intn(4)
	parts := make([]string, len(toks))
	for i, t := range toks {
		parts[i] = t.Text
	}
	for k := 0; k < n; k++ {
		i := r.Intn(len(parts))
		switch r.Intn(7) {
		case 0: // delete
			parts = append(parts[:i], parts[i+1:]...)
		case 1: // duplicate
			parts = append(parts[:i+1], parts[i:]...)
		case 2: // swap
			j := r.Intn(len(parts))
			parts[i], parts[j] = parts[j], parts[i]
		case 3: // replace by dictionary token
			parts[i] = tokenDict[r.Intn(len(tokenDict))]
		case 4: // insert dictionary token
			parts = append(parts[:i], append([]string{tokenDict[r.Intn(len(tokenDict))]}, parts[i:]...)...)
		case 5: // splice with another program
			ot := wgen.LexWGSL(other)
			if len(ot) > 4 {
				j := r.Intn(len(ot))
				tail := make([]string, 0, len(ot)-j)
				for _, t := range ot[j:] {
					tail = append(tail, t.Text)
				}
				parts = append(parts[:i], tail...)
			}
		default: // truncate
			parts = parts[:i]
		}
		if len(parts) == 0 {
			break
		}
	}
	s := strings.Join(parts, " ")
	if len(s) > 65536 {
		s = s[:65536]
	}
	return s
}

func rep(s string, n int) string { return strings.Repeat(s, n) }

const hostilePrelude = "@group(0) @binding(0) var<storage, read_write> o: array<u32, 4>;\n"

// stressTemplates returns deep / wide / numeric / semantic stress sources (all <= 64 KiB).
func stressTemplates(thorough bool) []hostileInput {
	var out []hostileInput
	add := func(kind, src string) {
		if len(src) > 65536 {
			src = src[:65536]
		}
		out = append(out, hostileInput{Kind: kind, Src: src})
	}
	depths := []int{100, 1000, 10000, 30000}
	entry := func(body string) string {
		return hostilePrelude + "@compute @workgroup_size(1) fn main() {\n" + body + "\n}\n"
	}
	for _, d := range depths {
		add(fmt.Sprintf("nest-paren-%d", d), entry("o[0] = "+rep("(", d)+"1u"+rep(")", d)+";"))
		add(fmt.Sprintf("nest-unary-%d", d), entry("let x = "+rep("- ", d)+"1;"))
		add(fmt.Sprintf("nest-not-%d", d), entry("let x = "+rep("!", d)+"true;"))
		add(fmt.Sprintf("nest-index-%d", d), entry("o[0] = o"+rep("[o", min(d, 20000))+"[0]"+rep("]", min(d, 20000))+";"))
		add(fmt.Sprintf("nest-block-%d", d), entry(rep("{", min(d, 30000))+rep("}", min(d, 30000))))
		add(fmt.Sprintf("nest-if-%d", d), entry(rep("if true { ", min(d, 6000))+rep("}", min(d, 6000))))
		add(fmt.Sprintf("ladder-else-if-%d", d), entry("if false {}"+rep(" else if false {}", min(d, 3800))))
		add(fmt.Sprintf("nest-loop-%d", d), entry(rep("loop { ", min(d, 8000))+"break;"+rep("}", min(d, 8000))))
		add(fmt.Sprintf("nest-switch-%d", d), entry(rep("switch 1 { default: { ", min(d, 2800))+rep("}}", min(d, 2800))))
		add(fmt.Sprintf("nest-array-type-%d", d), "var<private> a: "+rep("array<", min(d, 9000))+"u32"+rep(",1>", min(d, 9000))+";\n"+entry(""))
		add(fmt.Sprintf("nest-call-args-%d", d), entry("o[0] = "+rep("min(1u,", min(d, 8000))+"1u"+rep(")", min(d, 8000))+";"))
		add(fmt.Sprintf("binary-chain-%d", d), entry("o[0] = 1u"+rep(" + 1u", min(d, 12000))+";"))
		add(fmt.Sprintf("member-chain-%d", d), entry("let v = vec4<f32>(1.0); let w = v"+rep(".xyzw", min(d, 12000))+";"))
		add(fmt.Sprintf("open-only-%d", d), entry("o[0] = "+rep("(", d)))
		add(fmt.Sprintf("template-open-%d", d), "var<private> a: "+rep("vec2<", min(d, 12000))+";")
	}
	// struct / call / alias chains
	for _, d := range []int{50, 500, 2000} {
		var sb strings.Builder
		sb.WriteString("struct S0 { a: u32 }\n")
		for i := 1; i < d; i++ {
			fmt.Fprintf(&sb, "struct S%d { a: S%d }\n", i, i-1)
		}
		add(fmt.Sprintf("struct-chain-%d", d), sb.String()+fmt.Sprintf("var<private> p: S%d;\n", d-1)+entry(""))
		sb.Reset()
		sb.WriteString("fn f0() -> u32 { return 1u; }\n")
		for i := 1; i < d; i++ {
			fmt.Fprintf(&sb, "fn f%d() -> u32 { return f%d() + 1u; }\n", i, i-1)
		}
		add(fmt.Sprintf("call-chain-%d", d), sb.String()+entry(fmt.Sprintf("o[0] = f%d();", d-1)))
		sb.Reset()
		sb.WriteString("alias A0 = u32;\n")
		for i := 1; i < d; i++ {
			fmt.Fprintf(&sb, "alias A%d = A%d;\n", i, i-1)
		}
		add(fmt.Sprintf("alias-chain-%d", d), sb.String()+fmt.Sprintf("var<private> p: A%d;\n", d-1)+entry(""))
		sb.Reset()
		sb.WriteString("const c0 = 1u;\n")
		for i := 1; i < d; i++ {
			fmt.Fprintf(&sb, "const c%d = c%d + 1u;\n", i, i-1)
		}
		add(fmt.Sprintf("const-chain-%d", d), sb.String()+entry(fmt.Sprintf("o[0] = c%d;", d-1)))
	}
	// width
	add("wide-statements", entry(rep("o[0] = o[1] + 1u;\n", 3000)))
	add("wide-args", entry("let a = array<u32, 6000>("+rep("1u,", 5999)+"1u);"))
	{
		var sb strings.Builder
		sb.WriteString("struct W {\n")
		for i := 0; i < 4000; i++ {
			fmt.Fprintf(&sb, "m%d: u32,\n", i)
		}
		sb.WriteString("}\nvar<private> w: W;\n")
		add("wide-struct", sb.String()+entry("o[0] = w.m3999;"))
		sb.Reset()
		sb.WriteString("switch o[0] {\n")
		for i := 0; i < 4000; i++ {
			fmt.Fprintf(&sb, "case %du: { o[1] = %du; }\n", i, i)
		}
		sb.WriteString("default: {}\n}")
		add("wide-switch", entry(sb.String()))
		sb.Reset()
		for i := 0; i < 3000; i++ {
			fmt.Fprintf(&sb, "var v%d = %du;\n", i, i)
		}
		add("wide-locals", entry(sb.String()))
	}
	add("long-identifier", entry("let "+rep("a", 60000)+" = 1u;"))
	add("long-line-comment", "//"+rep("x", 65000)+"\n"+entry(""))
	add("long-block-comment", "/*"+rep("/* x */", 9000)+"*/"+entry(""))
	add("unterminated-block-comment", entry("")+"/*"+rep("/*", 20000))
	add("long-literal", entry("let x = "+rep("9", 60000)+";"))
	add("long-float-literal", entry("let x = 0."+rep("0", 60000)+"1;"))
	// numeric
	for i, lit := range []string{"1e999999999", "1e-999999999", "0x1p999999", "0x1.ffffffffffffffffp-9999", "340282366920938463463374607431768211456", "0xFFFFFFFFFFFFFFFFFFFFFFFF", "4294967296u", "2147483648i", "-2147483649i", "1e39f", "65505.0h", "0x", "1e", "1.e+", "0b101", "00012", "1_000", ".e1", "1..2", "1.0.0"} {
		add(fmt.Sprintf("literal-%d", i), entry("let x = "+lit+";"))
	}
	for i, sz := range []string{"4294967295", "4294967296", "2147483648", "1073741824", "65536 * 65536", "0xFFFFFFFF", "1 << 31", "1 << 32", "1u << 31u"} {
		add(fmt.Sprintf("array-size-%d", i), "var<private> a: array<u32, "+sz+">;\n"+entry("o[0] = a[0];"))
		add(fmt.Sprintf("array-size-local-%d", i), entry("var a: array<u32, "+sz+">; o[0] = a[0];"))
		add(fmt.Sprintf("array-size-wg-%d", i), "var<workgroup> a: array<u32, "+sz+">;\n"+entry("o[0] = a[0];"))
	}
	add("array-3d-huge", entry("var big: array<array<array<u32,1024>,1024>,1024>; o[0] = big[1][2][3];"))
	add("array-3d-huge-private", "var<private> big: array<array<array<u32,1024>,1024>,1024>;\n"+entry("o[0] = big[1][2][3];"))
	add("array-of-mat-huge", entry("var big: array<mat4x4<f32>, 100000000>; o[0] = u32(big[1][2][3]);"))
	for i, wg := range []string{"0", "4294967295", "65536, 65536, 65536", "1, 1, 1, 1", "-1", "1.5", "true"} {
		add(fmt.Sprintf("workgroup-size-%d", i), hostilePrelude+"@compute @workgroup_size("+wg+") fn main() { o[0] = 1u; }")
	}
	for i, a := range []string{"@align(0)", "@align(3)", "@align(4294967296)", "@size(0)", "@size(4294967295)", "@align(1073741824) @size(1073741824)", "@location(4294967295)", "@location(-1)"} {
		add(fmt.Sprintf("attr-value-%d", i), "struct S { "+a+" m: vec4<f32>, n: u32 }\n@group(0) @binding(1) var<storage, read_write> s: S;\n"+entry("s.n = 1u;"))
	}
	for i, gb := range []string{"@group(4294967295) @binding(4294967295)", "@group(-1) @binding(0)", "@group(1e9) @binding(0)", "@group(0) @binding(0) @group(1)"} {
		add(fmt.Sprintf("binding-value-%d", i), gb+" var<storage, read_write> q: array<u32, 4>;\n@compute @workgroup_size(1) fn main() { q[0] = 1u; }")
	}
	// semantic
	// arity / component-type mistakes that used to crash the lowerer (F127, F128)
	add("vector-of-vector", "alias FVec3 = vec3<f32>;\n"+entry("let d = FVec3(vec2<FVec3>(0.0), 0.0); let m = mat2x2<FVec3>(); o[0] = u32(d.x);"))
	add("matrix-of-struct", "struct S { a: f32 }\n"+entry("let m = mat2x2<S>(); let v = vec3<S>();"))
	for i, call := range []string{"textureSample(&o, 1.5)", "textureSample(o)", "textureSampleLevel(o, o)", "textureLoad(o)", "textureStore(o)", "textureDimensions()", "textureGather(1)", "textureSampleCompare(o, o)", "textureSampleGrad(o, o, o)", "textureNumLayers()", "atomicAdd()", "atomicStore(&o)", "select(1)", "bitcast<u32>()", "arrayLength()", "workgroupUniformLoad()", "dot()", "clamp(1)", "mix()", "vec4<f32>(1.0, 2.0, 3.0, 4.0, 5.0)", "array<u32, 2>(1u, 2u, 3u)"} {
		add(fmt.Sprintf("call-arity-%d", i), entry("let zz = "+call+";"))
		add(fmt.Sprintf("call-arity-stmt-%d", i), entry(call+";"))
	}
	// constant vectors of different sizes under every binary operator (a type error; the constant folder must not index past the shorter one)
	for oi, op := range []string{"+", "-", "*", "/", "%", "&", "|", "^", "==", "<", "<<"} {
		for _, lr := range [][2]int{{3, 2}, {4, 3}, {4, 2}, {2, 3}, {2, 4}} {
			mk := func(n int, f string) string {
				el := []string{"1", "2", "3", "4"}[:n]
				return fmt.Sprintf("vec%d(%s)", n, strings.Join(el, f+", ")+f)
			}
			for fi, f := range []string{"", ".0", "u"} {
				if (op == "%" || op == "&" || op == "|" || op == "^" || op == "<<") && f == ".0" {
					continue
				}
				add(fmt.Sprintf("vector-size-mismatch-%d-%d%d-%d", oi, lr[0], lr[1], fi), entry("let zz = "+mk(lr[0], f)+" "+op+" "+mk(lr[1], f)+";"))
			}
		}
	}
	add("recursive-struct", "struct S { a: S }\nvar<private> p: S;\n"+entry(""))
	add("mutual-struct", "struct A { b: B }\nstruct B { a: A }\nvar<private> p: A;\n"+entry(""))
	add("recursive-alias", "alias A = array<A, 2>;\nvar<private> p: A;\n"+entry(""))
	add("mutual-alias", "alias A = B;\nalias B = A;\nvar<private> p: A;\n"+entry(""))
	add("recursive-fn", "fn f() -> u32 { return f(); }\n"+entry("o[0] = f();"))
	add("mutual-fn", "fn f() -> u32 { return g(); }\nfn g() -> u32 { return f(); }\n"+entry("o[0] = f();"))
	add("recursive-const", "const a = a + 1;\n"+entry("o[0] = u32(a);"))
	add("mutual-const", "const a = b;\nconst b = a;\n"+entry("o[0] = u32(a);"))
	add("recursive-override", "override a: u32 = a;\n"+entry("o[0] = a;"))
	add("mutual-override", "override a: u32 = b;\noverride b: u32 = a;\n"+entry("o[0] = a;"))
	// self reference below every operator form an override initialiser may take
	for i, init := range []string{"-a", "~a", "a + 1u", "1u + a", "a * a", "(a)", "-(-a)", "1u - (2u * a)", "u32(a)", "min(a, 1u)", "select(a, 1u, true)"} {
		add(fmt.Sprintf("recursive-override-%d", i), "override a: u32 = "+init+";\n"+entry("o[0] = a;"))
	}
	add("recursive-override-bool", "override e: bool = true;\noverride b: bool = e && !b;\n"+entry("o[0] = u32(b);"))
	add("recursive-override-i32", "override a: i32 = -a;\n"+entry("o[0] = u32(a);"))
	add("recursive-override-chain", "override a: u32 = b + 1u;\noverride b: u32 = c * 2u;\noverride c: u32 = ~a;\n"+entry("o[0] = a;"))
	// constant indices outside the object (a shader-creation error in WGSL; whatever the front end does, no stage may crash)
	for i, body := range []string{"let c = vec4<f32>(1.0); let p = c[5]; o[0] = u32(p);", "var t = vec3<f32>(1.0); t[4] = 1.0; o[0] = u32(t[4]);", "let c = vec2<u32>(1u); o[0] = c[7];",
		"let m = mat2x2<f32>(1.0, 2.0, 3.0, 4.0); o[0] = u32(m[3][0]);", "let m = mat2x2<f32>(1.0, 2.0, 3.0, 4.0); o[0] = u32(m[1][9]);", "var a = array<u32, 3>(1u, 2u, 3u); o[0] = a[3]; a[100] = 1u;",
		"o[0] = o[4294967295u];", "let c = vec4<i32>(1); o[0] = u32(c[-1]);", "var a: array<u32, 2>; o[0] = a[1u << 31u];"} {
		add(fmt.Sprintf("const-index-oob-%d", i), entry(body))
	}
	// the same with the index exactly one past the end, on every kind of constant composite (literal constructor, splat,
	// zero value, let-bound, module constant; vectors, arrays, matrices, nested)
	for i, body := range []string{"o[0] = u32(vec3(1.0, 2.0, 3.0)[3]);", "o[0] = vec4<u32>(7u)[4];", "o[0] = vec2<u32>()[2];", "o[0] = array(1u, 2u, 3u)[3];", "o[0] = array<u32, 2>()[2];",
		"let v = vec3(1u, 2u, 3u); o[0] = v[3];", "o[0] = u32(mat2x2(1.0, 2.0, 3.0, 4.0)[2][0]);", "o[0] = u32(mat2x3<f32>()[1][3]);", "o[0] = array(vec2(1u, 2u), vec2(3u, 4u))[2].x;", "o[0] = array(vec2(1u, 2u), vec2(3u, 4u))[1][2];",
		"o[0] = CW[3];", "o[0] = u32(CV[3]);", "o[0] = CA[2][0];", "o[0] = CA[1][2];", "const k = 3; o[0] = CW[k];", "o[0] = CW[1 + 2];", "o[0] = vec3(1u, 2u, 3u).xyz[3];"} {
		add(fmt.Sprintf("const-index-end-%d", i), "const CW = array(1u, 2u, 3u);\nconst CV = vec3(1.0, 2.0, 3.0);\nconst CA = array(array(1u, 2u), array(3u, 4u));\n"+entry(body))
	}
	// call graphs in which every function calls its predecessor twice: linear in size, 2^n paths
	for _, n := range []int{12, 16, 20, 24, 32, 48} {
		var sb strings.Builder
		sb.WriteString("fn g0() -> u32 { return 1u; }\n")
		for i := 1; i <= n; i++ {
			fmt.Fprintf(&sb, "fn g%d() -> u32 { return g%d() + g%d(); }\n", i, i-1, i-1)
		}
		add(fmt.Sprintf("diamond-calls-%d", n), sb.String()+entry(fmt.Sprintf("o[0] = g%d();", n)))
	}
	add("const-index-oob-builtin", hostilePrelude+"@compute @workgroup_size(1) fn main(@builtin(global_invocation_id) gid: vec3<u32>) { o[0] = gid[7]; }")
	// shared sub-expressions: a chain of lets each used twice (expression DAG of depth n, tree size 2^n)
	chain := []int{24, 28}
	if thorough {
		chain = append(chain, 40)
	}
	for _, n := range chain {
		var sb strings.Builder
		sb.WriteString("let a0 = o[1];\n")
		for i := 1; i <= n; i++ {
			fmt.Fprintf(&sb, "let a%d = a%d + a%d;\n", i, i-1, i-1)
		}
		fmt.Fprintf(&sb, "o[0] = a%d;", n)
		add(fmt.Sprintf("let-chain-doubling-%d", n), entry(sb.String()))
	}
	add("const-self-array", "const n = 4;\nvar<private> a: array<u32, n * n * n * n * n * n * n * n * n * n * n * n * n * n * n * n>;\n"+entry("o[0] = a[0];"))
	add("nul-bytes", entry("o[0] = 1u;\x00\x00 o[1] = 2u;"))
	add("invalid-utf8", entry("let \xff\xfe = 1u; // \xc3\x28"))
	add("bom", "\xef\xbb\xbf"+entry("o[0] = 1u;"))
	add("only-attrs", rep("@", 30000))
	add("only-semis", rep(";", 60000))
	add("shadow-builtin-types", "struct vec3 { f32: u32 }\nalias i32 = u32;\nfn min(a: u32) -> u32 { return a; }\n"+entry("let u32 = 1; o[0] = min(2u);"))
	add("deep-ptr-type", "fn f(p: "+rep("ptr<function, ", 5000)+"u32"+rep(">", 5000)+") {}\n"+entry(""))
	add("switch-huge-selector", entry("switch o[0] { case 4294967295u, 0xFFFFFFFFu: {} default: {} }"))
	add("override-array-size", "override n: u32 = 4000000000u;\nvar<workgroup> w: array<u32, n>;\n"+entry("o[0] = w[0];"))
	add("continue-in-continuing", entry("loop { continuing { continue; } }"))
	add("return-in-continuing", entry("loop { continuing { return; } }"))
	add("break-if-outside", entry("break if true;"))
	add("many-entry-points", func() string {
		var sb strings.Builder
		sb.WriteString(hostilePrelude)
		for i := 0; i < 2000; i++ {
			fmt.Fprintf(&sb, "@compute @workgroup_size(1) fn e%d() { o[0] = %du; }\n", i, i)
		}
		return sb.String()
	}())
	_ = thorough
	return out
}

// buildHostileInputs: deterministic in (seed, tier).
func buildHostileInputs(c *run.Ctx) []hostileInput {
	var out []hostileInput
	r := run.NewRng(run.CaseSeed(c.Seed, "hostile", 0))
	nRand := c.N(300, 20000)
	nMut := c.N(1500, 110000)
	// random bytes / random token soup
	for i := 0; i < nRand; i++ {
		var sb strings.Builder
		n := r.Intn(2000)
		switch i % 3 {
		case 0:
			for k := 0; k < n; k++ {
				sb.WriteByte(byte(r.Intn(256)))
			}
		case 1:
			alpha := "abcxyz_019 \n\t(){}[]<>,;:.@=+-*/%&|^!~\"'#$\\?`é"
			for k := 0; k < n; k++ {
				sb.WriteByte(alpha[r.Intn(len(alpha))])
			}
		default:
			for k := 0; k < n/3; k++ {
				sb.WriteString(tokenDict[r.Intn(len(tokenDict))])
				sb.WriteByte(' ')
			}
		}
		out = append(out, hostileInput{Kind: "random", Src: sb.String()})
	}
	// mutations of generated and corpus programs
	corpus := loadCorpus()
	var gen []string
	for i := 0; i < 60; i++ {
		p := cases.Generate(run.CaseSeed(c.Seed, "accept", i), wgen.Config{Off: wgen.SafeOff()})
		gen = append(gen, wgen.Print(p.M).Src)
	}
	for i := 0; i < nMut; i++ {
		var base, other string
		if i%2 == 0 {
			base = gen[r.Intn(len(gen))]
			other = corpus[r.Intn(len(corpus))].Src
		} else {
			base = corpus[r.Intn(len(corpus))].Src
			other = gen[r.Intn(len(gen))]
		}
		if len(base) > 40000 {
			base = base[:40000]
		}
		out = append(out, hostileInput{Kind: "mutation", Src: mutateTokens(base, r, other)})
	}
	out = append(out, stressTemplates(!c.Quick())...)
	for i := range out {
		out[i].ID = fmt.Sprintf("h%05d-%s", i, out[i].Kind)
	}
	return out
}
