package checks

import (
	"fmt"
	"strings"

	"verif/internal/run"
)

// c11Templates: a grid of (ill-typed call form) x (syntactic position in the caller) x (callee declared before / after
// the caller). The generated-program injections put a broken call wherever the generator happened to place a call;
// this grid makes sure every statement position that can hold an expression is visited, with both declaration orders
// (WGSL module-scope declarations are order-independent, so the diagnosis may not depend on it).
func c11Templates(c *run.Ctx) {
	bad := []struct{ name, call string }{
		{"too-many", "callee(i, 1u, 2u)"},
		{"too-few", "callee(i)"},
		{"no-args", "callee()"},
		{"wrong-type", "callee(i, f32(i))"},
		{"wrong-type-literal", "callee(i, 1.5f)"},
		{"wrong-type-vector", "callee(vec2<u32>(i, i), 1u)"},
		{"wrong-vector-kind", "cv(vf + vec2<f32>(1.0, 2.0))"},
		{"wrong-vector-kind-variable", "cv(vf)"},
		{"wrong-vector-size", "cv(vec3<u32>(i, i, i))"},
		{"undeclared", "nowhere(i, 1u)"},
		{"wrong-struct", "cs(sa)"},
		{"wrong-array-length", "ca(arr2)"},
		{"wrong-array-element", "ca(arrf)"},
	}
	pos := []struct{ name, body string }{
		{"let", "let x = CALL; o[0] = x;"},
		{"var", "var x = CALL; o[0] = x;"},
		{"assign", "o[0] = CALL;"},
		{"compound-assign", "o[0] += CALL;"},
		{"for-init", "for (var j = CALL; j < 4u; j++) { o[j] = j; }"},
		{"for-cond", "for (var j = 0u; j < CALL; j++) { o[j] = j; }"},
		{"for-update", "for (var j = 0u; j < 4u; j = CALL) { o[j] = j; }"},
		{"for-update-compound", "for (var j = 0u; j < 4u; j += CALL) { o[j] = j; }"},
		{"while-cond", "var j = 0u; while j < CALL { j++; }"},
		{"if-cond", "if CALL > 2u { o[0] = 1u; }"},
		{"else-if-cond", "if i > 2u { o[0] = 1u; } else if CALL > 1u { o[0] = 2u; }"},
		{"switch-selector", "switch CALL { case 1u: { o[0] = 1u; } default: { } }"},
		{"switch-case-body", "switch i { case 1u: { o[0] = CALL; } default: { } }"},
		{"loop-continuing", "var j = 0u; loop { if j > 3u { break; } continuing { j = CALL; } }"},
		{"loop-break-if", "var j = 0u; loop { j++; continuing { break if CALL > j; } }"},
		{"index", "o[CALL] = 1u;"},
		{"nested-argument", "o[0] = min(CALL, 3u);"},
		{"call-argument", "o[0] = other(CALL);"},
		{"call-statement", "CALL;"},
		{"return", "o[0] = 1u; if i > 100u { return; } let q = vec2<u32>(CALL, 1u); o[1] = q.x;"},
		{"unary", "o[0] = ~CALL;"},
		{"phony", "_ = CALL;"},
		{"nested-block", "{ { o[0] = CALL; } }"},
	}
	callee := "fn callee(a: u32, b: u32) -> u32 { return a + b; }\nfn other(a: u32) -> u32 { return a * 2u; }\nfn cv(a: vec2<u32>) -> u32 { return a.x + a.y; }\nvar<private> vf: vec2<f32> = vec2<f32>(1.0, 2.0);\n" +
		"struct SA { x: u32 }\nstruct SB { y: u32 }\nfn cs(b: SB) -> u32 { return b.y; }\nvar<private> sa: SA;\nfn ca(a: array<u32, 4>) -> u32 { return a[3]; }\nvar<private> arr2: array<u32, 2>;\nvar<private> arrf: array<f32, 4>;\n"
	type tcase struct{ id, src, rule string }
	var list []tcase
	for _, b := range bad {
		for _, p := range pos {
			body := strings.ReplaceAll(p.body, "CALL", b.call)
			caller := "@compute @workgroup_size(1) fn main(@builtin(local_invocation_index) i: u32) {\n" + body + "\n}\n"
			for _, after := range []bool{false, true} {
				src := hostilePrelude
				if after {
					src += caller + callee
				} else {
					src += callee + caller
				}
				list = append(list, tcase{fmt.Sprintf("call-grid:%s:%s:callee-after=%v", b.name, p.name, after), src, b.name})
			}
		}
	}
	c.Each(len(list), func(i int) (string, run.Outcome) {
		t := list[i]
		w := map[string]any{"wgsl": t.src, "case": t.id}
		viol := func(class, msg string) run.Outcome {
			o := run.Outcome{V: run.Violated, Class: class, Reason: t.id + ": " + msg, Witness: w}
			if c.KnownMatch(o.Class, o.Reason) {
				return run.Outcome{V: run.Held, Sig: "known:" + class, Trivial: true, Cov: map[string]int{"known-finding-instances": 1}}
			}
			return o
		}
		// the well-formed sibling must compile, otherwise the case says nothing
		good := strings.NewReplacer("callee(i, 1u, 2u)", "callee(i, 1u)", "callee(i)", "callee(i, 1u)", "callee()", "callee(i, 1u)", "callee(i, 1.5f)", "callee(i, 1u)", "callee(i, f32(i))", "callee(i, 1u)", "cv(vf + vec2<f32>(1.0, 2.0))", "callee(i, 1u)", "cv(vf)", "callee(i, 1u)", "cv(vec3<u32>(i, i, i))", "callee(i, 1u)",
			"callee(vec2<u32>(i, i), 1u)", "callee(i, 1u)", "nowhere(i, 1u)", "callee(i, 1u)", "cs(sa)", "callee(i, 1u)", "ca(arr2)", "callee(i, 1u)", "ca(arrf)", "callee(i, 1u)").Replace(t.src)
		if st, msg := rejectedBy(good); st != "" {
			return t.id, run.Outcome{V: run.Inconclusive, Reason: "well-formed sibling rejected (" + st + "): " + oneLine(msg)}
		}
		stage, msg := rejectedBy(t.src)
		switch stage {
		case "":
			return t.id, viol("accepted:call-grid:"+t.rule, "compiled to output")
		case "panic":
			return t.id, viol("panic:call-grid:"+t.rule, msg)
		case "backend":
			return t.id, viol("late-rejection:call-grid:"+t.rule, "only the backend failed: "+oneLine(msg))
		}
		l, col, has := errPos(msg)
		lines := strings.Count(t.src, "\n") + 1
		if !has {
			return t.id, viol("no-position:call-grid:"+stage, "error carries no source position: "+oneLine(msg))
		}
		if l < 1 || l > lines || col < 1 {
			return t.id, viol("position-outside-source:call-grid", fmt.Sprintf("position %d:%d outside the %d-line source: %s", l, col, lines, oneLine(msg)))
		}
		return t.id, run.Outcome{V: run.Held, Sig: t.id, Cov: map[string]int{"call-grid:rejected:" + stage: 1, "call-grid:form:" + t.rule: 1},
			Sample: map[string]any{"case": t.id, "stage": stage}}
	})
}
