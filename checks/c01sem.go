package checks

import (
	"encoding/binary"
	"fmt"
	"strings"

	"verif/internal/run"
)

// c01SemTemplates: three families of programs whose expected buffer image is computed here, by construction, and not by
// the reference evaluator (so they also cross-check it):
//
//   - short-circuit: `L && R` / `L || R` where L is a literal, a module constant, a let of one, a negation or a run-time
//     value and R calls a helper that records its execution in a bit mask; R must run exactly when WGSL says so,
//     whatever the form of L and the statement position (if / else-if / while / let / select argument / return).
//   - workgroup-pointer: helpers that store through ptr<workgroup, T> parameters (whole variable, array, struct member
//     access inside the helper); the stores must be visible to the caller afterwards.
//   - workgroup-zero: large and nested workgroup arrays (both dimensions on either side of the 256-element threshold
//     where writers switch from a constructor to loops) are zero before the first store: off-diagonal, first and last
//     elements are read.
func c01SemTemplates(c *run.Ctx, lanes []string) {
	type prog struct {
		id, family, src string
		want          map[int]uint32
	}
	var list []prog
	// ---- short-circuit ----
	nSC := c.N(24, 200)
	for i := 0; i < nSC; i++ {
		r := run.NewRng(run.CaseSeed(c.Seed, "c01-short-circuit", i))
		var body []string
		want := map[int]uint32{}
		var mask uint32
		k := r.Range(5, 9)
		for j := 0; j < k; j++ {
			lhsVal := r.Chance(1, 2)
			var lhs string
			switch r.Intn(7) {
			case 0:
				lhs = fmt.Sprint(lhsVal)
			case 1:
				lhs = map[bool]string{true: "T", false: "F"}[lhsVal]
			case 2:
				body = append(body, fmt.Sprintf("let l%d = %v;", j, lhsVal))
				lhs = fmt.Sprintf("l%d", j)
			case 3:
				lhs = map[bool]string{true: "!F", false: "!T"}[lhsVal]
			case 4:
				lhs = map[bool]string{true: "(o[29] == 0u)", false: "(o[29] != 0u)"}[lhsVal]
			case 5:
				lhs = map[bool]string{true: "(T || F)", false: "(T && F)"}[lhsVal]
			default:
				lhs = map[bool]string{true: "(1 < 2)", false: "(2u < 1u)"}[lhsVal]
			}
			op := []string{"&&", "||"}[r.Intn(2)]
			rhsVal := r.Chance(1, 2)
			bit := uint32(1) << uint(j)
			rhs := fmt.Sprintf("bump(%du, %v)", bit, rhsVal)
			runs := (op == "&&" && lhsVal) || (op == "||" && !lhsVal)
			if runs {
				mask |= bit
			}
			var val bool
			if op == "&&" {
				val = lhsVal && rhsVal
			} else {
				val = lhsVal || rhsVal
			}
			cond := lhs + " " + op + " " + rhs
			if r.Chance(1, 4) { // the short-circuit expression as left operand of another one whose right side must / must not run
				bit2 := uint32(1) << uint(j+16)
				op2 := []string{"&&", "||"}[r.Intn(2)]
				cond = "(" + cond + ") " + op2 + fmt.Sprintf(" bump(%du, true)", bit2)
				if (op2 == "&&" && val) || (op2 == "||" && !val) {
					mask |= bit2
					val = true
				}
			}
			a, b := uint32(100+j), uint32(200+j)
			switch r.Intn(6) {
			case 0:
				body = append(body, fmt.Sprintf("if %s { o[%d] = %du; } else { o[%d] = %du; }", cond, j, a, j, b))
			case 1:
				body = append(body, fmt.Sprintf("let b%d = %s; o[%d] = select(%du, %du, b%d);", j, cond, j, b, a, j))
			case 2:
				body = append(body, fmt.Sprintf("o[%d] = select(%du, %du, %s);", j, b, a, cond))
			case 3:
				body = append(body, fmt.Sprintf("o[%d] = %du; var w%d = 0u; while w%d == 0u && (%s) { o[%d] = %du; w%d = 1u; }", j, b, j, j, cond, j, a, j))
				// `w == 0u && (...)`: the run-time left operand is true on the first test; on the second test it is false and
				// the right side (and its bump) must not run again
			case 4:
				body = append(body, fmt.Sprintf("if o[29] != 0u { o[%d] = 7u; } else if %s { o[%d] = %du; } else { o[%d] = %du; }", j, cond, j, a, j, b))
			default:
				body = append(body, fmt.Sprintf("o[%d] = pick(%s, %du, %du);", j, cond, a, b))
			}
			if val {
				want[j] = a
			} else {
				want[j] = b
			}
		}
		want[30] = mask
		src := "@group(0) @binding(0) var<storage, read_write> o: array<u32, 32>;\nconst T = true;\nconst F = false;\n" +
			"fn bump(k: u32, r: bool) -> bool { o[30] = o[30] | k; return r; }\n" +
			"fn pick(c: bool, a: u32, b: u32) -> u32 { if c { return a; } return b; }\n" +
			"@compute @workgroup_size(1) fn main() {\n    " + strings.Join(body, "\n    ") + "\n}\n"
		list = append(list, prog{fmt.Sprintf("short-circuit-%d", i), "short-circuit", src, want})
	}
	// ---- workgroup pointer parameters ----
	wgp := []struct{ name, decls, body string }{
		{"array", "var<workgroup> wa: array<u32, 4>;\nfn set_slot(p: ptr<workgroup, array<u32, 4>>, i: u32, v: u32) { (*p)[i] = v; }\n",
			"set_slot(&wa, 2u, 9u); set_slot(&wa, 0u, 4u); o[0] = wa[2]; o[1] = wa[0]; o[2] = wa[1] + 1u;"},
		{"scalar", "var<workgroup> ws: u32;\nfn inc(p: ptr<workgroup, u32>, d: u32) -> u32 { *p = *p + d; return *p; }\n",
			"let r1 = inc(&ws, 5u); let r2 = inc(&ws, 4u); o[0] = ws; o[1] = r1 - 1u; o[2] = r2 - 8u;"},
		{"struct", "struct WS { a: u32, v: vec2<u32>, t: array<u32, 3> }\nvar<workgroup> wst: WS;\nfn fill(p: ptr<workgroup, WS>, k: u32) { (*p).a = k; (*p).v.y = k + 1u; (*p).t[2] = k + 2u; }\n",
			"fill(&wst, 7u); o[0] = wst.t[2]; o[1] = wst.a - 3u; o[2] = wst.v.y - 7u + wst.v.x;"},
		{"nested-call", "var<workgroup> wn: array<u32, 4>;\nfn inner(p: ptr<workgroup, array<u32, 4>>, i: u32) { (*p)[i] = (*p)[i] + 3u; }\nfn outer(p: ptr<workgroup, array<u32, 4>>) { inner(p, 1u); inner(p, 1u); inner(p, 3u); }\n",
			"outer(&wn); o[0] = wn[1] + wn[3]; o[1] = wn[1] - 2u; o[2] = wn[0] + 1u;"},
		{"vector", "var<workgroup> wv: vec4<u32>;\nfn setv(p: ptr<workgroup, vec4<u32>>, i: u32, v: u32) { (*p)[i] = v; }\n",
			"setv(&wv, 1u, 9u); setv(&wv, 3u, 4u); o[0] = wv.y; o[1] = wv.w; o[2] = wv.x + 1u;"},
	}
	for _, t := range wgp {
		src := "@group(0) @binding(0) var<storage, read_write> o: array<u32, 32>;\n" + t.decls + "@compute @workgroup_size(1) fn main() {\n    " + t.body + "\n}\n"
		list = append(list, prog{"workgroup-pointer-" + t.name, "workgroup-pointer", src, map[int]uint32{0: 9, 1: 4, 2: 1}})
	}
	// ---- workgroup zero initialisation of large / nested arrays ----
	dims := [][2]int{{256, 256}, {257, 300}, {4, 256}, {256, 4}, {255, 255}, {1, 256}, {300, 1}}
	for _, d := range dims {
		a, b := d[0], d[1]
		src := fmt.Sprintf("@group(0) @binding(0) var<storage, read_write> o: array<u32, 32>;\nvar<workgroup> grid: array<array<u32, %d>, %d>;\n@compute @workgroup_size(1) fn main() {\n"+
			"    o[0] = grid[%d][%d] + 9u; o[1] = grid[%d][%d] + 4u; o[2] = grid[0][0] + grid[%d][%d] + 1u;\n    grid[%d][0] = 5u; o[3] = grid[%d][0] + grid[0][%d];\n}\n",
			b, a, (a-1)/2, b-1, a-1, (b-1)/3, a-1, b-1, a-1, a-1, b-1)
		want := map[int]uint32{0: 9, 1: 4, 2: 1, 3: 5}
		if a == 1 && b == 1 {
			continue
		}
		if a-1 == 0 && b-1 == 0 {
			want[3] = 10
		}
		list = append(list, prog{fmt.Sprintf("workgroup-zero-%dx%d", a, b), "workgroup-zero", src, want})
	}
	// array of structs holding a large array, and a 3-level nest
	list = append(list, prog{"workgroup-zero-struct", "workgroup-zero",
		"@group(0) @binding(0) var<storage, read_write> o: array<u32, 32>;\nstruct Row { tag: u32, cells: array<u32, 256> }\nvar<workgroup> rows: array<Row, 256>;\n@compute @workgroup_size(1) fn main() {\n" +
			"    o[0] = rows[3].cells[7] + 9u; o[1] = rows[255].cells[1] + 4u; o[2] = rows[17].tag + rows[0].cells[255] + 1u;\n    rows[9].cells[2] = 5u; o[3] = rows[9].cells[2] + rows[2].cells[9];\n}\n",
		map[int]uint32{0: 9, 1: 4, 2: 1, 3: 5}})
	list = append(list, prog{"workgroup-zero-3-level", "workgroup-zero",
		"@group(0) @binding(0) var<storage, read_write> o: array<u32, 32>;\nvar<workgroup> cube: array<array<array<u32, 256>, 2>, 256>;\n@compute @workgroup_size(1) fn main() {\n" +
			"    o[0] = cube[3][1][7] + 9u; o[1] = cube[255][0][1] + 4u; o[2] = cube[17][1][255] + 1u;\n    cube[9][1][2] = 5u; o[3] = cube[9][1][2] + cube[2][1][9];\n}\n",
		map[int]uint32{0: 9, 1: 4, 2: 1, 3: 5}})
	c.Each(len(list), func(i int) (string, run.Outcome) {
		p := list[i]
		return p.id, execTemplateLanes(c, p.id, p.family, p.src, lanes, func(buf []byte) string {
			for j := 0; j < 32; j++ {
				w, ok := p.want[j]
				if !ok {
					continue
				}
				if got := binary.LittleEndian.Uint32(buf[4*j:]); got != w {
					return fmt.Sprintf("o[%d] = %d (0x%X), WGSL prescribes %d (0x%X)", j, got, got, w, w)
				}
			}
			return ""
		})
	})
}
