package checks

import (
	"bytes"
	"fmt"
	"os"
	"sort"

	"github.com/gogpu/naga/dxil"
	"github.com/gogpu/naga/ir"
	"verif/internal/cases"
	"verif/internal/irstrict"
	"verif/internal/irx"
	"verif/internal/run"
	"verif/internal/wgen"
	"verif/internal/wref"
	"verif/internal/xrt"
)

func init() { register("C13", C13) }

type irPass struct {
	name    string
	profile irstrict.Profile
	apply   func(m *ir.Module, r *run.Rng) (*ir.Module, error)
}

func inPlace(f func(m *ir.Module)) func(m *ir.Module, r *run.Rng) (*ir.Module, error) {
	return func(m *ir.Module, r *run.Rng) (*ir.Module, error) { f(m); return m, nil }
}

var irPasses = []irPass{
	{"CompactUnused", irstrict.PostPass, inPlace(ir.CompactUnused)},
	{"CompactTypes+ReorderTypes", irstrict.PostPass, inPlace(func(m *ir.Module) { ir.CompactTypes(m); ir.ReorderTypes(m) })},
	{"CompactConstants", irstrict.PostPass, inPlace(ir.CompactConstants)},
	{"CompactExpressions", irstrict.PostPass, inPlace(ir.CompactExpressions)},
	{"DeduplicateEmits", irstrict.PostPass, inPlace(ir.DeduplicateEmits)},
	{"InlineAll", irstrict.PostPass, func(m *ir.Module, r *run.Rng) (*ir.Module, error) {
		return m, ir.InlineUserFunctions(m, func(*ir.Function) bool { return true })
	}},
	{"InlineSome", irstrict.PostPass, func(m *ir.Module, r *run.Rng) (*ir.Module, error) {
		pick := map[string]bool{}
		for i := range m.Functions {
			pick[m.Functions[i].Name] = r.Bool()
		}
		return m, ir.InlineUserFunctions(m, func(f *ir.Function) bool { return pick[f.Name] })
	}},
	{"dxil.prepare", irstrict.PostPass, func(m *ir.Module, r *run.Rng) (*ir.Module, error) { return dxil.VerifPrepareModule(m) }},
	{"dxil.prepare+opt", irstrict.PostMem2Reg, func(m *ir.Module, r *run.Rng) (*ir.Module, error) {
		p, err := dxil.VerifPrepareModule(m)
		if err != nil {
			return nil, err
		}
		return p, dxil.VerifRunOptPasses(p)
	}},
	{"sroa", irstrict.PostMem2Reg, func(m *ir.Module, r *run.Rng) (*ir.Module, error) { return m, dxil.VerifRunPass("sroa", m) }},
	{"mem2reg", irstrict.PostMem2Reg, func(m *ir.Module, r *run.Rng) (*ir.Module, error) { return m, dxil.VerifRunPass("mem2reg", m) }},
	{"dce", irstrict.PostMem2Reg, func(m *ir.Module, r *run.Rng) (*ir.Module, error) { return m, dxil.VerifRunPass("dce", m) }},
}

var c13K *run.Ctx

func C13(c *run.Ctx) int {
	c13K = c
	n := c.N(300, 5000)
	nIn := c.N(2, 3)
	c.Each(n, func(i int) (string, run.Outcome) {
		seed := run.CaseSeed(c.Seed, "exec", i)
		id := fmt.Sprintf("prog-%d", i)
		cfg := c13Cfg()
		if i%2 == 1 {
			// plain helpers: no var locals, no loops, no early returns, scalar parameters only - none of the listed
			// inliner defects (F52, F54, F101) applies, so every inliner mismatch on these programs is reported
			for _, g := range []string{"helper.locals", "helper.loops", "helper.aggregate-params", "early-return"} {
				cfg.Off[g] = true
			}
			cfg.Helpers = 3
		}
		prog := cases.Generate(seed, cfg)
		o := c13Eval(c, id, prog, seed, nIn, "")
		if o.V == run.Violated && c.TakeReduceSlotFor(o.Class) {
			class := o.Class
			orig := wgen.Print(prog.M).Src
			wgen.Reduce(prog.M, func() bool {
				r := c13Eval(nil, id, prog, seed, nIn, class)
				return r.V == run.Violated && r.Class == class
			}, 5)
			if r := c13Eval(nil, id, prog, seed, nIn, class); r.V == run.Violated && r.Class == class {
				r.Witness["reduced"] = true
				r.Witness["wgsl_unreduced"] = orig
				o = r
			} else if os.Getenv("VERIF_DEBUG") != "" {
				fmt.Fprintf(os.Stderr, "reduce lost the violation: %v %s %s\n%s\n", r.V, r.Class, r.Reason, wgen.Print(prog.M).Src)
			}
		}
		return id, o
	})
	return c.Finish("generated compute programs x inputs; the lowered module is executed by an independent IR interpreter (irx) before and after each pass (CompactUnused, CompactTypes+ReorderTypes, CompactConstants, CompactExpressions, DeduplicateEmits, InlineUserFunctions all/random subset, dxil prepare, dxil prepare+sroa+mem2reg+dce, and sroa / mem2reg / dce alone via the verif hook); "+
		"after-pass modules are also checked by the strict IR validator and pass(pass(m)) is compared with pass(m) by canonical dump; the baseline execution is cross-checked against the wref WGSL reference; "+
		"distinct = distinct (generator features + IR statement/expression kinds executed); non-trivial = at least one pass comparison changed an output leaf from its initial value",
		[]string{"irx implements the IR semantics documented in ir/ (Emit-driven evaluation, Alias/Phi after mem2reg)", "byte-exact equality of all writable storage buffers is demanded before/after a pass"})
}

func c13Cfg() wgen.Config {
	cfg := wgen.Config{Off: wgen.SafeOff()}
	cfg.Helpers = 2
	return cfg
}

type passKey struct{ pass, what string }

// c13Eval: onlyClass != "" restricts the work to the pass named in the class (used by the reducer).
func c13Eval(c *run.Ctx, id string, prog *wgen.Program, seed uint64, nIn int, onlyClass string) run.Outcome {
	src := wgen.Print(prog.M).Src
	lower := func() *ir.Module {
		m, _, err := lowerSrc(src)
		if err != nil {
			return nil
		}
		return m
	}
	m0 := lower()
	if m0 == nil {
		return run.Outcome{V: run.Inconclusive, Reason: "front-end rejected the program (C08 territory)"}
	}
	entry := prog.M.Entries()[0]
	r := run.NewRng(seed ^ 0x13)
	cov := map[string]int{}
	type inputCase struct {
		in   wref.Input
		base xrt.Buffers
	}
	var ins []inputCase
	for k := 0; k < nIn; k++ {
		in := cases.MakeInput(prog.M, r.Split())
		bufs := cases.Buffers(prog.M, in)
		res, err := irx.Run(m0, entry.Name, bufs, irx.Config{})
		if err != nil {
			return run.Outcome{V: run.Inconclusive, Reason: "irx baseline: " + oneLine(err.Error())}
		}
		if len(res.Traps) > 0 {
			return run.Outcome{V: run.Inconclusive, Reason: "irx baseline trap: " + oneLine(res.Traps[0].Error())}
		}
		for k, v := range res.Cov {
			cov["ir:"+k] += v
		}
		// cross-check the baseline with the WGSL reference
		if exp, werr := wref.Run(prog.M, entry, in); werr == nil {
			diffs, st := cases.Compare(prog.M, in, exp, func(g *wgen.Var) []byte { return bufs[cases.SlotOf(g)] })
			cov["baseline.leaves-vs-wref"] += st.Exact + st.Tolerant
			cov["baseline.changed-leaves"] += st.Changed
			if len(diffs) > 0 {
				cov["baseline.disagrees-with-wref"]++
				return run.Outcome{V: run.Inconclusive, Reason: "baseline IR execution disagrees with wref (front-end or irx issue, not a pass issue): " + diffs[0].String()}
			}
		}
		ins = append(ins, inputCase{in, bufs})
	}
	known := func(class, reason string) bool {
		if c != nil {
			return c.KnownMatch(class, reason)
		}
		return c13K != nil && c13K.KnownPeek(class, reason) // while reducing: same attribution, not counted
	}
	changedAny := false
	var firstViol *run.Outcome
	note := func(o run.Outcome) {
		if known(o.Class, o.Reason) {
			cov["known-finding-instances:"+o.Class]++
			return
		}
		if firstViol == nil {
			firstViol = &o
		}
	}
passes:
	for pi, p := range irPasses {
		if onlyClass != "" && !bytes.HasPrefix([]byte(onlyClass), []byte(p.name+":")) {
			continue
		}
		m1 := lower()
		var m2 *ir.Module
		var perr error
		if st, pan := run.Catch(func() { m2, perr = p.apply(m1, run.NewRng(seed^uint64(pi))) }); pan {
			note(c13Viol(c, id, p.name, "panic", st[:min(300, len(st))], src, prog))
			continue
		}
		if perr != nil {
			note(c13Viol(c, id, p.name, "error", perr.Error(), src, prog))
			continue
		}
		cov["pass:"+p.name]++
		// well-formedness after the pass
		rep := irstrict.Check(m2, p.profile)
		for _, f := range rep.Findings {
			class := f.Rule + ":" + normErr(f.Detail)
			if known("C09-inherited:"+class, "") {
				continue
			}
			if known(p.name+":ill-formed:"+f.Rule, id+": "+f.Detail) {
				continue
			}
			if isLoweringFinding(class) {
				continue // already reported by C09 on the un-transformed module
			}
			note(c13Viol(c, id, p.name, "ill-formed:"+f.Rule, f.String(), src, prog))
			break
		}
		// behaviour
		for _, ic := range ins {
			bufs := ic.base.Clone()
			// rerun from the initial images
			fresh := cases.Buffers(prog.M, ic.in)
			res, err := irx.Run(m2, entry.Name, fresh, irx.Config{})
			if err != nil {
				if _, ok := err.(*xrt.Unsupported); ok {
					cov["after-pass-unsupported:"+p.name]++
					continue
				}
				note(c13Viol(c, id, p.name, "exec-error", err.Error(), src, prog))
				continue passes
			}
			if len(res.Traps) > 0 {
				note(c13Viol(c, id, p.name, "exec-trap", res.Traps[0].Error(), src, prog))
				continue passes
			}
			for _, g := range prog.M.Globals() {
				if g.Space != "storage" || g.Access != "read_write" {
					continue
				}
				s := cases.SlotOf(g)
				if !bytes.Equal(bufs[s], fresh[s]) {
					off := 0
					for off < len(bufs[s]) && bufs[s][off] == fresh[s][off] {
						off++
					}
					note(c13Viol(c, id, p.name, "result-mismatch", fmt.Sprintf("buffer %s differs at byte %d: before-pass %x after-pass %x", g.Name, off, bufs[s][off&^3:off&^3+4], fresh[s][off&^3:off&^3+4]), src, prog))
					continue passes
				}
				init := cases.Image(g, ic.in.Bufs[g], ic.in.RT[g])
				if !bytes.Equal(init, fresh[s]) {
					changedAny = true
				}
			}
			cov["compared:"+p.name]++
		}
		// idempotence
		if p.name != "InlineSome" {
			d1 := irstrict.Dump(m2, false)
			var m3 *ir.Module
			var e2 error
			if _, pan := run.Catch(func() { m3, e2 = p.apply(m2, run.NewRng(seed^uint64(pi))) }); !pan && e2 == nil && m3 != nil {
				if d2 := irstrict.Dump(m3, false); d1 != d2 && !notIdempotentByDesign[p.name] {
					note(c13Viol(c, id, p.name, "not-idempotent", "Dump(pass(pass(m))) != Dump(pass(m))", src, prog))
					continue
				}
				cov["idempotent:"+p.name]++
			}
		}
	}
	if firstViol != nil {
		return *firstViol
	}
	parts := cases.FeatKeys(prog.Feat)
	for k := range cov {
		parts[k] = 1
	}
	return run.Outcome{V: run.Held, Sig: cases.FeatureSig(parts), Trivial: !changedAny, Cov: cov, Sample: map[string]any{"wgsl": src, "passes": len(irPasses), "inputs": nIn}}
}

// dxil.prepare clones the module; running it twice on an already-inlined module is still the identity, so all passes are
// expected to be idempotent. (kept as a table in case a pass is documented otherwise)
var notIdempotentByDesign = map[string]bool{}

func isLoweringFinding(class string) bool {
	for _, p := range []string{"R6:Literal expression is inside an Emit range", "R5:ExpressionTypes entry for Splat is empty"} {
		if len(class) >= len(p) && class[:len(p)] == p {
			return true
		}
	}
	return false
}

func traits(prog *wgen.Program) string {
	var t []string
	has := func(prefix string) bool {
		for k := range prog.Feat {
			if len(k) >= len(prefix) && k[:len(prefix)] == prefix {
				return true
			}
		}
		return false
	}
	if has("stmt.for") || has("stmt.while") || has("stmt.loop") {
		t = append(t, "loop")
	}
	if has("stmt.switch") {
		t = append(t, "switch")
	}
	if has("stmt.if") {
		t = append(t, "if")
	}
	// precise AST traits used to attribute known inliner defects
	helperRetInCF, helperLocals, callInLoop, helperCall, voidCall := false, false, false, false, false
	aggParamEffects := false
	for _, f := range prog.M.Funcs() {
		if f.Stage == "" {
			agg := false
			for _, p := range f.Params {
				if p.Ty != nil && !p.Ty.IsScalar() && p.Ty.Kind != wgen.KPtr {
					agg = true
				}
			}
			if agg && funcHasEffects(f.Body) {
				aggParamEffects = true
			}
		}
		var walk func(b []wgen.Stmt, inCF, inLoop bool)
		walk = func(b []wgen.Stmt, inCF, inLoop bool) {
			for _, st := range b {
				switch x := st.(type) {
				case *wgen.Return:
					if inCF && f.Stage == "" {
						helperRetInCF = true
					}
				case *wgen.VarDecl:
					if x.V.Kind == wgen.VLocal && f.Stage == "" {
						helperLocals = true
					}
				case *wgen.CallS:
					if x.C.F.Ret == nil {
						voidCall = true
					}
				}
				for _, sl := range wgen.StmtExprSlots(st) {
					wgen.WalkExpr(*sl, func(e wgen.Expr) {
						if _, ok := e.(*wgen.CallE); ok {
							helperCall = true
							if inLoop {
								callInLoop = true
							}
						}
					})
				}
				if cs, ok := st.(*wgen.CallS); ok {
					_ = cs
					helperCall = true
					if inLoop {
						callInLoop = true
					}
				}
				_, isLoop := st.(*wgen.Loop)
				_, isFor := st.(*wgen.For)
				_, isWhile := st.(*wgen.While)
				_, isSwitch := st.(*wgen.Switch)
				loop := isLoop || isFor || isWhile
				if ff, ok := st.(*wgen.For); ok && ff.Init != nil {
					walk([]wgen.Stmt{ff.Init}, inCF, inLoop)
				}
				for _, nb := range wgen.StmtBlocks(st) {
					walk(*nb, inCF || loop || isSwitch, inLoop || loop)
				}
			}
		}
		walk(f.Body, false, false)
	}
	if helperCall {
		t = append(t, "call")
	}
	if voidCall {
		t = append(t, "void-call")
	}
	if helperRetInCF {
		t = append(t, "helper-return-in-loop-or-switch")
	}
	if helperLocals && callInLoop {
		t = append(t, "helper-locals+call-in-loop")
	}
	if aggParamEffects {
		t = append(t, "helper-aggregate-param+effects")
	}
	sort.Strings(t)
	return fmt.Sprint(t)
}

func c13Viol(c *run.Ctx, id, pass, kind, detail, src string, prog *wgen.Program) run.Outcome {
	return run.Outcome{V: run.Violated, Class: pass + ":" + kind, Reason: fmt.Sprintf("%s traits=%s pass %s: %s: %s", id, traits(prog), pass, kind, detail),
		Witness: map[string]any{"wgsl": src, "pass": pass}}
}

// funcHasEffects: the body assigns through something other than a plain local reference, or calls a helper
// (which may do so): the conditions under which re-reading an aliased aggregate argument can observe a change (F101).
func funcHasEffects(b []wgen.Stmt) bool {
	found := false
	var walk func(b []wgen.Stmt)
	walk = func(b []wgen.Stmt) {
		for _, st := range b {
			switch x := st.(type) {
			case *wgen.Assign:
				if x.LHS != nil {
					found = true
				}
			case *wgen.IncDec, *wgen.CallS:
				found = true
			}
			for _, sl := range wgen.StmtExprSlots(st) {
				wgen.WalkExpr(*sl, func(e wgen.Expr) {
					if _, ok := e.(*wgen.CallE); ok {
						found = true
					}
				})
			}
			for _, nb := range wgen.StmtBlocks(st) {
				walk(*nb)
			}
		}
	}
	walk(b)
	return found
}
