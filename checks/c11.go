package checks

import (
	"fmt"
	"regexp"
	"strconv"
	"strings"

	"github.com/gogpu/naga"
	"verif/internal/cases"
	"verif/internal/run"
	"verif/internal/wgen"
)

func init() { register("C11", C11) }

var posRe1 = regexp.MustCompile(`line (\d+), column (\d+)`)
var posRe2 = regexp.MustCompile(`(?:^|[\s(])(\d+):(\d+): `)

func errPos(msg string) (line, col int, ok bool) {
	if m := posRe1.FindStringSubmatch(msg); m != nil {
		l, _ := strconv.Atoi(m[1])
		c, _ := strconv.Atoi(m[2])
		return l, c, true
	}
	if m := posRe2.FindStringSubmatch(msg); m != nil {
		l, _ := strconv.Atoi(m[1])
		c, _ := strconv.Atoi(m[2])
		return l, c, true
	}
	return 0, 0, false
}

// rejectedBy runs the one-call API and the staged API; it returns the stage that rejected the source ("" = compiled to output).
func rejectedBy(src string) (stage, msg string) {
	var out []byte
	var err error
	if st, pan := run.Catch(func() { out, err = naga.Compile(src) }); pan {
		return "panic", st[:min(300, len(st))]
	}
	if err == nil && len(out) > 0 {
		return "", ""
	}
	msg = err.Error()
	switch {
	case strings.HasPrefix(msg, "parse error"):
		stage = "parse"
	case strings.HasPrefix(msg, "lowering error"):
		stage = "lower"
	case strings.HasPrefix(msg, "validation"):
		stage = "validate"
	default:
		stage = "backend"
	}
	return stage, msg
}

func C11(c *run.Ctx) int {
	replayWitnesses(c, map[string]func(witness) string{"must-reject": witnessMustReject})
	n := c.N(300, 5000)
	perProg := c.N(14, 40)
	c.Each(n, func(i int) (string, run.Outcome) {
		seed := run.CaseSeed(c.Seed, "accept", i)
		prog := cases.Generate(seed, wgen.Config{Off: wgen.SafeOff(), Helpers: 2})
		id := fmt.Sprintf("prog-%d", i)
		return id, c11Eval(c, id, prog, run.NewRng(seed^0x11), perProg)
	})
	c11Templates(c)
	c11ScopeAndSwizzleGrid(c)
	return c.Finish("valid generated programs, each subjected to single rule-breaking injections (undeclared identifier / function / type / member, call arity and argument type, discarded @must_use result, false const_assert incl. float and builtin conditions, @group without @binding and vice versa, array size 0 / negative (literal and const), swizzle mixing or exceeding width, missing @workgroup_size, constant division by zero in several const contexts, missing semicolon, removed closing delimiter) at random applicable sites, a third of them re-encoded with CR LF line endings behind a multi-line block comment (nested blocks, continuing blocks, helpers, entry points, const initialisers, builtin arguments); "+
		"oracle: the one-call compile API must return an error and no output; the reported position must lie inside the source, inside the enclosing module-scope declaration for semantic errors, and at the first token that cannot continue the grammar for syntax errors; "+
		"plus a fixed grid of ill-typed / undeclared calls (6 forms) x 23 statement positions (let, for init / condition / update, while, if, switch selector and body, continuing, break-if, index, nested argument, ...) x callee declared before / after the caller, each next to its well-formed sibling that must compile; "+
		"distinct = distinct (rule, variant, site context) triples observed rejected; counters per rule",
		[]string{"the uninjected program is valid (checked: it must compile, otherwise the case is inconclusive)", "an injection is the only error in the program by construction"})
}

func c11Eval(c *run.Ctx, id string, prog *wgen.Program, r *run.Rng, k int) run.Outcome {
	pr := wgen.Print(prog.M)
	if st, msg := rejectedBy(pr.Src); st != "" {
		return run.Outcome{V: run.Inconclusive, Reason: "base program rejected (" + st + "): " + oneLine(msg)}
	}
	cov := map[string]int{}
	triples := map[string]int{}
	var first *run.Outcome
	note := func(o run.Outcome) {
		if c.KnownMatch(o.Class, o.Reason) {
			cov["known-finding-instances"]++
			return
		}
		if first == nil {
			first = &o
		}
	}
	for j := 0; j < k; j++ {
		rule := wgen.InjectRules[r.Intn(len(wgen.InjectRules))]
		var inj wgen.Injection
		var ok bool
		var src string
		var span [2]int
		if rule == "missing-semicolon" || rule == "unbalanced-delimiter" {
			inj, ok = wgen.InjectToken(pr, r, rule)
			if !ok {
				continue
			}
			src = inj.Src
			if inj.Decl >= 0 && inj.Decl < len(pr.DeclSpan) {
				span = pr.DeclSpan[inj.Decl]
			}
		} else {
			inj, ok = wgen.Inject(prog.M, r, rule)
			if !ok {
				continue
			}
			p2 := wgen.Print(prog.M)
			inj.Undo()
			src = p2.Src
			if inj.Decl >= 0 && inj.Decl < len(p2.DeclSpan) {
				span = p2.DeclSpan[inj.Decl]
			}
		}
		if r.Chance(1, 3) {
			// the same source with CR LF line endings behind a three-line block comment: WGSL counts CR LF as one line
			// break, so every position moves down by exactly three lines
			src = "/* c11\r\n   line-ending\r\n   probe */\r\n" + strings.ReplaceAll(src, "\n", "\r\n")
			if span[0] > 0 {
				span[0] += 3
				span[1] += 3
			}
			if inj.ExpLine > 0 {
				inj.ExpLine += 3
			}
			cov["crlf-variant"]++
		}
		cov["injected:"+rule]++
		stage, msg := rejectedBy(src)
		vkey := inj.Variant
		if i := strings.Index(vkey, "zz_"); i >= 0 {
			vkey = digits.ReplaceAllString(vkey, "N")
		}
		if stage == "" || stage == "backend" {
			cov["ACCEPTED-VARIANT:"+rule+":"+vkey]++
		} else {
			cov["rejected-variant:"+rule+":"+vkey]++
		}
		w := map[string]any{"wgsl": src, "rule": rule, "variant": inj.Variant, "site": inj.Ctx}
		desc := fmt.Sprintf("%s rule %s (%s) at %s", id, rule, inj.Variant, inj.Ctx)
		switch {
		case stage == "":
			note(run.Outcome{V: run.Violated, Class: "accepted:" + rule, Reason: desc + ": compiled to output", Witness: w})
			continue
		case stage == "panic":
			note(run.Outcome{V: run.Violated, Class: "panic:" + rule, Reason: desc + ": " + msg, Witness: w})
			continue
		case stage == "backend":
			note(run.Outcome{V: run.Violated, Class: "late-rejection:" + rule, Reason: desc + ": only the backend failed: " + oneLine(msg), Witness: w})
			continue
		}
		cov["rejected:"+rule+":"+stage]++
		lines := strings.Count(src, "\n") + 1
		l, col, has := errPos(msg)
		switch {
		case !has:
			note(run.Outcome{V: run.Violated, Class: "no-position:" + rule + ":" + stage, Reason: desc + ": error carries no source position: " + oneLine(msg), Witness: w})
			continue
		case l < 1 || l > lines || col < 1:
			note(run.Outcome{V: run.Violated, Class: "position-outside-source:" + rule, Reason: fmt.Sprintf("%s: position %d:%d outside the %d-line source: %s", desc, l, col, lines, oneLine(msg)), Witness: w})
			continue
		}
		if inj.ExpLine > 0 {
			if l != inj.ExpLine || col != inj.ExpCol {
				note(run.Outcome{V: run.Violated, Class: "wrong-syntax-position:" + rule, Reason: fmt.Sprintf("%s: reported %d:%d, first token that cannot continue the grammar is at %d:%d: %s", desc, l, col, inj.ExpLine, inj.ExpCol, oneLine(msg)), Witness: w})
				continue
			}
			cov["position-exact:"+rule]++
		} else if rule != "missing-semicolon" && rule != "unbalanced-delimiter" && span[0] > 0 {
			if l < span[0] || l > span[1] {
				note(run.Outcome{V: run.Violated, Class: "position-outside-declaration:" + rule + ":" + stage, Reason: fmt.Sprintf("%s: reported line %d, enclosing declaration spans lines %d-%d: %s", desc, l, span[0], span[1], oneLine(msg)), Witness: w})
				continue
			}
			cov["position-in-declaration:"+rule]++
		}
		triples[rule+"|"+inj.Variant+"|"+inj.Ctx]++
	}
	if first != nil {
		first.Cov = cov
		return *first
	}
	if len(triples) == 0 {
		return run.Outcome{V: run.Inconclusive, Reason: "no injection applicable"}
	}
	return run.Outcome{V: run.Held, Sig: cases.FeatureSig(triples), Cov: cov, Sample: map[string]any{"case": id, "triples": len(triples)}}
}

// witnessMustReject: the source must be rejected by the one-call API.
func witnessMustReject(w witness) string {
	if st, _ := rejectedBy(w.Src); st == "" {
		return "compiled to output"
	}
	return ""
}
