package checks

import (
	"bufio"
	"encoding/json"
	"fmt"
	"io"
	"os"
	"os/exec"
	"path/filepath"
	"runtime"
	"strings"
	"sync"
	"syscall"
	"time"

	"verif/internal/run"
)

func init() { register("C10", C10) }

const (
	cpuBudgetMs  = 10_000     // CPU time per input over all stages
	rssBudgetKB  = 768 * 1024 // peak resident set growth attributed to one input
	wallKillSecs = 45         // protects the run; decided afterwards by CPU time, never by wall clock
)

type wStage struct {
	Stage  string `json:"stage"`
	Status string `json:"status"`
	Detail string `json:"detail"`
	Top    string `json:"top"`
	CPUms  int64  `json:"cpu_ms"`
}
type wResult struct {
	ID       string   `json:"id"`
	Stages   []wStage `json:"stages"`
	MaxRSSKB int64    `json:"maxrss_kb"`
}

type worker struct {
	cmd     *exec.Cmd
	in      io.WriteCloser
	out     *bufio.Reader
	log     string
	errlog  string
	prevRSS int64
}

func startWorker(c *run.Ctx, idx int) (*worker, error) {
	dir := filepath.Join(c.Verif, "tmpwork", "c10")
	os.MkdirAll(dir, 0o755)
	w := &worker{log: filepath.Join(dir, fmt.Sprintf("w%d-%d.log", os.Getpid(), idx)), errlog: filepath.Join(dir, fmt.Sprintf("w%d-%d.err", os.Getpid(), idx))}
	os.Remove(w.log)
	ef, err := os.Create(w.errlog)
	if err != nil {
		return nil, err
	}
	w.cmd = exec.Command(filepath.Join(c.Verif, "bin", "vworker"), w.log)
	w.cmd.Stderr = ef
	w.cmd.Env = append(os.Environ(), "GOTRACEBACK=all", "GOMAXPROCS=2")
	w.in, _ = w.cmd.StdinPipe()
	so, _ := w.cmd.StdoutPipe()
	w.out = bufio.NewReaderSize(so, 1<<20)
	if err := w.cmd.Start(); err != nil {
		return nil, err
	}
	ef.Close()
	return w, nil
}

func (w *worker) stop() {
	if w.cmd.Process != nil {
		w.in.Close()
		w.cmd.Process.Kill()
		w.cmd.Wait()
	}
	os.Remove(w.log)
	os.Remove(w.errlog)
}

// lastBegin returns the stage named by the last BEGIN line of the worker log.
func lastBegin(path string) (id, stage string) {
	b, _ := os.ReadFile(path)
	lines := strings.Split(strings.TrimSpace(string(b)), "\n")
	if len(lines) == 0 {
		return "", ""
	}
	f := strings.Fields(lines[len(lines)-1])
	if len(f) == 3 {
		return f[1], f[2]
	}
	return "", ""
}

// fatalSummary extracts the fatal kind and the top naga frame from a Go crash dump.
func fatalSummary(errlog string) (kind, top, excerpt string) {
	b, _ := os.ReadFile(errlog)
	s := string(b)
	if len(s) > 1<<20 {
		s = s[:1<<20]
	}
	kind = "killed"
	for _, l := range strings.Split(s, "\n") {
		if strings.HasPrefix(l, "fatal error:") || strings.HasPrefix(l, "runtime:") && strings.Contains(l, "stack exceeds") || strings.HasPrefix(l, "SIGQUIT") {
			kind = strings.TrimSpace(l)
			break
		}
	}
	// top naga frame: most frequent naga function among the first frames of the running goroutine
	cnt := map[string]int{}
	n := 0
	for _, l := range strings.Split(s, "\n") {
		if strings.HasPrefix(l, "github.com/gogpu/naga") {
			f := l
			if i := strings.LastIndex(f, "("); i > 0 {
				f = f[:i]
			}
			cnt[f]++
			n++
			if n > 200 {
				break
			}
		}
	}
	best := 0
	for f, k := range cnt {
		if k > best {
			best, top = k, f
		}
	}
	if len(s) > 1500 {
		s = s[:1500]
	}
	return kind, top, s
}

// runOne sends one input to the worker and classifies the outcome. dead=true when the worker must be replaced.
func (w *worker) runOne(h hostileInput) (res *wResult, viol *run.Outcome, dead bool) {
	if _, err := fmt.Fprintf(w.in, "%s %d\n%s", h.ID, len(h.Src), h.Src); err != nil {
		dead = true
	}
	type reply struct {
		line string
		err  error
	}
	ch := make(chan reply, 1)
	go func() {
		l, err := w.out.ReadString('\n')
		ch <- reply{l, err}
	}()
	wit := map[string]any{"input_kind": h.Kind, "source_bytes": len(h.Src), "source_head": trunc(h.Src, 600), "wgsl": h.Src}
	select {
	case rp := <-ch:
		if rp.err != nil {
			// the worker died: fatal runtime error or signal
			w.cmd.Wait()
			_, stage := lastBegin(w.log)
			kind, top, excerpt := fatalSummary(w.errlog)
			wit["crash_excerpt"] = excerpt
			return nil, &run.Outcome{V: run.Violated, Class: "fatal:" + stage + ":" + classKind(kind) + ":" + top, Reason: fmt.Sprintf("%s (%s): worker died in stage %s: %s at %s", h.ID, h.Kind, stage, kind, top), Witness: wit}, true
		}
		var r wResult
		if err := json.Unmarshal([]byte(rp.line), &r); err != nil {
			return nil, &run.Outcome{V: run.Inconclusive, Reason: "MONITOR bad worker reply"}, true
		}
		return &r, nil, false
	case <-time.After(wallKillSecs * time.Second):
		// take a goroutine dump, then decide by CPU time actually consumed
		w.cmd.Process.Signal(syscall.SIGQUIT)
		time.Sleep(500 * time.Millisecond)
		w.cmd.Process.Kill()
		w.cmd.Wait()
		var cpu time.Duration
		if st := w.cmd.ProcessState; st != nil {
			cpu = st.UserTime() + st.SystemTime()
		}
		_, stage := lastBegin(w.log)
		_, top, excerpt := fatalSummary(w.errlog)
		wit["crash_excerpt"] = excerpt
		if cpu >= cpuBudgetMs*time.Millisecond {
			return nil, &run.Outcome{V: run.Violated, Class: "hang", Reason: fmt.Sprintf("%s (%s): no result after %ds wall and %.0fs CPU in stage %s at %s", h.ID, h.Kind, wallKillSecs, cpu.Seconds(), stage, top), Witness: wit}, true
		}
		return nil, &run.Outcome{V: run.Inconclusive, Reason: "wall-clock watchdog fired with little CPU consumed (machine load)"}, true
	}
}

func classKind(k string) string {
	switch {
	case strings.Contains(k, "stack"):
		return "stack-overflow"
	case strings.Contains(k, "out of memory") || strings.Contains(k, "cannot allocate"):
		return "out-of-memory"
	case strings.Contains(k, "concurrent map"):
		return "concurrent-map"
	}
	return normErr(k)
}

func C10(c *run.Ctx) int {
	inputs := buildHostileInputs(c)
	c.SetExtra("inputs", len(inputs))
	nw := runtime.GOMAXPROCS(0)
	if nw > 16 {
		nw = 16
	}
	var wg sync.WaitGroup
	next := make(chan hostileInput, 64)
	go func() {
		for _, h := range inputs {
			next <- h
		}
		close(next)
	}()
	for wi := 0; wi < nw; wi++ {
		wg.Add(1)
		go func(wi int) {
			defer wg.Done()
			w, err := startWorker(c, wi)
			if err != nil {
				c.Note("cannot start worker: %v", err)
				return
			}
			defer func() { w.stop() }()
			for h := range next {
				o := c10Case(c, &w, wi, h)
				c.Record(h.ID, o)
			}
		}(wi)
	}
	wg.Wait()
	os.RemoveAll(filepath.Join(c.Verif, "tmpwork", "c10"))
	return c.Finish("hostile inputs up to 64 KiB (random bytes and token soup, token-level mutations and splices of generated and corpus programs, deep-nesting / wide / numeric / semantic stress templates) fed to every public entry point (tokenize, parse+lower, one-call compile, validate, SPIR-V x2, HLSL x2, MSL x2, GLSL x2 per entry point, DXIL, ProcessOverrides, CompactUnused) inside isolated worker processes; "+
		"monitors: recovered panics (with top naga frame), worker death (Go fatal error / signal, attributed through a BEGIN log), CPU time per input (10 s budget), peak-RSS growth per input (768 MiB budget), RLIMIT_AS 6 GiB; "+
		"distinct = distinct (input kind, set of stages reached, set of stage statuses); non-trivial = at least the tokenizer and parser ran to completion",
		[]string{"budgets are CPU time and resident memory, not wall clock; a budget excess is confirmed by re-running the input alone in a fresh worker", "inputs larger than 64 KiB are out of scope"})
}

func c10Case(c *run.Ctx, wp **worker, wi int, h hostileInput) run.Outcome {
	w := *wp
	res, viol, dead := w.runOne(h)
	if dead {
		w.stop()
		if nw, err := startWorker(c, wi); err == nil {
			*wp = nw
		}
	}
	if viol != nil {
		if viol.V == run.Violated && c.KnownMatch(viol.Class, viol.Reason) {
			return run.Outcome{V: run.Held, Sig: "known:" + viol.Class, Cov: map[string]int{"known-finding-instances": 1}}
		}
		return *viol
	}
	cov := map[string]int{}
	var cpu int64
	sig := map[string]bool{"kind:" + h.Kind: true}
	var firstViol *run.Outcome
	for _, s := range res.Stages {
		cpu += s.CPUms
		cov["stage:"+s.Stage+":"+s.Status]++
		sig[s.Stage+"="+s.Status] = true
		if s.Status == "panic" {
			o := run.Outcome{V: run.Violated, Class: "panic:" + s.Top + ":" + s.Stage, Reason: fmt.Sprintf("%s (%s): panic in stage %s at %s: %s", h.ID, h.Kind, s.Stage, s.Top, s.Detail),
				Witness: map[string]any{"input_kind": h.Kind, "source": trunc(h.Src, 4000), "source_bytes": len(h.Src)}}
			if c.KnownMatch(o.Class, o.Reason) {
				cov["known-finding-instances"]++
				continue
			}
			if firstViol == nil {
				firstViol = &o
			}
		}
	}
	grow := res.MaxRSSKB - w.prevRSS
	if res.MaxRSSKB > w.prevRSS {
		w.prevRSS = res.MaxRSSKB
	}
	over := ""
	if cpu > cpuBudgetMs {
		over = fmt.Sprintf("CPU %d ms", cpu)
	} else if grow > rssBudgetKB {
		over = fmt.Sprintf("peak RSS grew by %d MiB", grow>>10)
	}
	if over != "" && firstViol == nil {
		// confirm alone in a fresh worker
		if sw, err := startWorker(c, 1000+wi); err == nil {
			r2, v2, _ := sw.runOne(h)
			sw.stop()
			if v2 != nil {
				firstViol = v2
			} else if r2 != nil {
				var cpu2 int64
				for _, s := range r2.Stages {
					cpu2 += s.CPUms
				}
				if cpu2 > cpuBudgetMs || r2.MaxRSSKB > rssBudgetKB {
					slow := ""
					for _, s := range r2.Stages {
						if s.CPUms > cpu2/3 {
							slow = s.Stage
						}
					}
					o := run.Outcome{V: run.Violated, Class: "budget", Reason: fmt.Sprintf("%s (%s): %s (alone: CPU %d ms, peak RSS %d MiB, slowest stage %s), %d source bytes", h.ID, h.Kind, over, cpu2, r2.MaxRSSKB>>10, slow, len(h.Src)),
						Witness: map[string]any{"input_kind": h.Kind, "source": trunc(h.Src, 4000), "source_bytes": len(h.Src)}}
					if !c.KnownMatch(o.Class, o.Reason) {
						firstViol = &o
					}
				} else {
					return run.Outcome{V: run.Inconclusive, Reason: "budget excess not confirmed when run alone"}
				}
			}
		}
	}
	if firstViol != nil {
		firstViol.Cov = cov
		return *firstViol
	}
	cov["cpu-ms-total"] = int(cpu)
	trivial := true
	for _, s := range res.Stages {
		if s.Stage == "parse+lower" {
			trivial = false
		}
	}
	return run.Outcome{V: run.Held, Sig: run.SigOf(sig), Trivial: trivial, Cov: cov, Sample: map[string]any{"id": h.ID, "kind": h.Kind, "bytes": len(h.Src), "stages": len(res.Stages), "cpu_ms": cpu, "head": trunc(h.Src, 160)}}
}
