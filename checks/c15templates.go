package checks

import (
	"encoding/binary"
	"fmt"
	"strings"

	"verif/internal/run"
	"verif/internal/xrt"
)

// c15Templates: access-path shapes the random campaign rarely builds - an atomic read-modify-write whose pointer goes
// through an array of structs and then an array of atomics, in storage and in workgroup memory - with hostile values
// for BOTH indices, under every index policy a lane has. Expected memory is computed from the policy directly:
// restrict clamps each index to its last element, read-zero-skip-write drops the operation when any index is out of range.
func c15Templates(c *run.Ctx) {
	vals := []uint32{0, 1, 2, 3, 4, 7, 0x7FFFFFFF, 0x80000000, 0xFFFFFFFF}
	type tcase struct {
		space  string
		i, j   uint32
		op     string
		viaPtr bool // the access happens in a helper that receives the buffer as ptr<storage, ...>
	}
	var tcs []tcase
	for _, sp := range []string{"storage", "workgroup"} {
		for _, op := range []string{"atomicAdd", "atomicMax", "atomicExchange", "atomicStore"} {
			for _, i := range vals {
				for _, j := range vals {
					tcs = append(tcs, tcase{sp, i, j, op, false})
					if sp == "storage" && (i+j)%3 == 0 {
						tcs = append(tcs, tcase{sp, i, j, op, true})
					}
				}
			}
		}
	}
	r0 := run.NewRng(run.CaseSeed(c.Seed, "c15-templates", 0))
	for k := len(tcs) - 1; k > 0; k-- {
		j := r0.Intn(k + 1)
		tcs[k], tcs[j] = tcs[j], tcs[k]
	}
	n := c.N(160, len(tcs))
	if n > len(tcs) {
		n = len(tcs)
	}
	c.Each(n, func(ti int) (string, run.Outcome) {
		tc := tcs[ti]
		id := fmt.Sprintf("template %s %s cells[%d].bins[%d]", tc.space, tc.op, tc.i, tc.j)
		if tc.viaPtr {
			id += " via ptr<storage> parameter"
		}
		const nCells, nBins = 3, 4
		// i = idx[1] * Ki + Ci with idx[1] == 1 in the pattern buffer: a run-time value equal to the wanted index
		call := fmt.Sprintf("%s(&g.cells[i].bins[j], 100u)", tc.op)
		stmt := call + ";"
		if tc.op != "atomicStore" {
			stmt = "o[20] = " + call + ";" // the returned old value is observed too
		}
		var src string
		if tc.viaPtr {
			helper := fmt.Sprintf("fn op(p: ptr<storage, Grid, read_write>, i: u32, j: u32) -> u32 { return %s(&(*p).cells[i].bins[j], 100u); }", tc.op)
			use := "o[20] = op(&g, i, j);"
			if tc.op == "atomicStore" {
				helper = "fn op(p: ptr<storage, Grid, read_write>, i: u32, j: u32) { atomicStore(&(*p).cells[i].bins[j], 100u); }"
				use = "op(&g, i, j);"
			}
			src = fmt.Sprintf(`struct Cell { bins: array<atomic<u32>, %d>, tag: u32, }
struct Grid { cells: array<Cell, %d>, }
@group(0) @binding(0) var<storage, read_write> o: array<u32, 64>;
@group(0) @binding(1) var<storage, read_write> g: Grid;
%s
@compute @workgroup_size(1) fn main() {
    let i = o[1] * %du;
    let j = o[1] * %du;
    %s
}
`, nBins, nCells, helper, tc.i, tc.j, use)
		} else if tc.space == "storage" {
			src = fmt.Sprintf(`struct Cell { bins: array<atomic<u32>, %d>, tag: u32, }
struct Grid { cells: array<Cell, %d>, }
@group(0) @binding(0) var<storage, read_write> o: array<u32, 64>;
@group(0) @binding(1) var<storage, read_write> g: Grid;
@compute @workgroup_size(1) fn main() {
    let i = o[1] * %du;
    let j = o[1] * %du;
    %s
}
`, nBins, nCells, tc.i, tc.j, stmt)
		} else {
			src = fmt.Sprintf(`struct Cell { bins: array<atomic<u32>, %d>, tag: u32, }
struct Grid { cells: array<Cell, %d>, }
@group(0) @binding(0) var<storage, read_write> o: array<u32, 64>;
var<workgroup> g: Grid;
@compute @workgroup_size(1) fn main() {
    let i = o[1] * %du;
    let j = o[1] * %du;
    %s
    for (var a = 0u; a < %du; a++) {
        for (var b = 0u; b < %du; b++) {
            o[30u + a * %du + b] = atomicLoad(&g.cells[a].bins[b]);
        }
    }
}
`, nBins, nCells, tc.i, tc.j, stmt, nCells, nBins, nBins)
		}
		mod, stage, err := lowerSrc(src)
		if err != nil {
			return id, run.Outcome{V: run.Inconclusive, Reason: "front end rejected the template: " + stage + ": " + oneLine(err.Error())}
		}
		cov := map[string]int{}
		var first *run.Outcome
		for _, ln := range []struct {
			be  textBackend
			sub string
			pol string
		}{{mslBackend, "policy=2", "restrict"}, {mslBackend, "policy=1", "rzsw"}, {hlslBackend, "restrict=true", "restrict"},
			{mslBackend, "policy=0+buffer=2", "restrict"}, {mslBackend, "policy=0+buffer=1", "rzsw"}} {
			if strings.Contains(ln.sub, "+buffer=") && tc.space != "storage" {
				continue // with Index unchecked a hostile index into workgroup memory is outside the property
			}
			if ln.be.name == "hlsl" && tc.viaPtr {
				continue // the HLSL backend does not support atomics through a pointer parameter (a backend error, C08 territory)
			}
			if ln.be.name == "hlsl" && tc.space == "storage" {
				continue // finding F109: RestrictIndexing does not cover storage buffers
			}
			oi := -1
			for k := 0; k < ln.be.nopt(false); k++ {
				if strings.Contains(ln.be.optName(false, k), ln.sub) {
					oi = k
				}
			}
			if oi < 0 {
				continue
			}
			lane := ln.be.name + "/" + ln.pol
			if strings.Contains(ln.sub, "+buffer=") {
				lane += "(buffer-only)"
			}
			rs := resOfModule(mod)
			var tr textRun
			if st, pan := run.Catch(func() { tr = ln.be.run(mod, "main", rs, [3]uint32{1, 1, 1}, false, oi, true) }); pan {
				o := c16Viol(c, "template:"+lane+":panic", id+": "+oneLine(st[:min(200, len(st))]), map[string]any{"wgsl": src}, "")
				if o.V == run.Violated && first == nil {
					first = &o
				}
				continue
			}
			w := map[string]any{"wgsl": src, "lane": lane, "emitted": tr.text}
			report := func(class, msg string) {
				o := c16Viol(c, "template:"+lane+":"+class, id+": "+msg, w, "")
				if o.V == run.Violated && first == nil {
					first = &o
				} else if o.V != run.Violated {
					cov["known-finding-instances:template:"+lane+":"+class]++
				}
			}
			switch {
			case tr.err != nil:
				report("backend-error", oneLine(tr.err.Error()))
				continue
			case len(tr.static) > 0 && tr.parse == nil:
				// the templates use no adversarial names: a static monitor firing is a defect of the emitted text
				report("static:"+string(tr.static[0].Kind), oneLineN(tr.static[0].Error(), 300))
				continue
			case tr.parse != nil || (tr.runErr != nil && isUnsupported(tr.runErr)):
				cov["template-unsupported:"+lane]++
				continue
			case tr.runErr != nil:
				report("exec-error", oneLine(tr.runErr.Error()))
				continue
			}
			if len(tr.traps) > 0 {
				report("trap:"+string(tr.traps[0].Kind), oneLine(tr.traps[0].Error()))
				continue
			}
			// expected effect
			ci, bj, applies := tc.i, tc.j, true
			if ln.pol == "restrict" {
				if ci >= nCells {
					ci = nCells - 1
				}
				if bj >= nBins {
					bj = nBins - 1
				}
			} else if ci >= nCells || bj >= nBins {
				applies = false
			}
			get := func(res, word int) uint32 {
				b := tr.get(res)
				if len(b) < word*4+4 {
					return 0xDEADBEEF
				}
				return binary.LittleEndian.Uint32(b[word*4:])
			}
			for a := 0; a < nCells; a++ {
				for b := 0; b < nBins; b++ {
					var before, got uint32
					if tc.space == "storage" {
						before = uint32(a*5 + b) // pattern buffer: word k holds k
						got = get(1, a*5+b)
					} else {
						before = 0 // zero-initialised workgroup memory
						got = get(0, 30+a*nBins+b)
					}
					want := before
					if applies && uint32(a) == ci && uint32(b) == bj {
						switch tc.op {
						case "atomicAdd":
							want = before + 100
						case "atomicMax":
							if before < 100 {
								want = 100
							}
						default:
							want = 100
						}
					}
					if got != want {
						report("memory", fmt.Sprintf("[%s] cells[%d].bins[%d] = %d after the operation, the policy prescribes %d", lane, a, b, got, want))
					}
				}
			}
			if tc.space == "storage" {
				for a := 0; a < nCells; a++ {
					if got := get(1, a*5+4); got != uint32(a*5+4) {
						report("memory", fmt.Sprintf("[%s] cells[%d].tag was overwritten (%d)", lane, a, got))
					}
				}
			}
			cov["template-checked:"+lane]++
		}
		if first != nil {
			first.Cov = cov
			return id, *first
		}
		return id, run.Outcome{V: run.Held, Sig: id, Trivial: tc.i < 3 && tc.j < 4, Cov: cov, Sample: map[string]any{"wgsl": src}}
	})
	_ = xrt.Slot{}
}
