package checks

import (
	"fmt"
	"math"
	"sort"
	"strings"

	"github.com/gogpu/naga"
	"github.com/gogpu/naga/ir"
	"github.com/gogpu/naga/spirv"
	"verif/internal/cases"
	"verif/internal/run"
	"verif/internal/spvx"
	"verif/internal/wgen"
	"verif/internal/wlayout"
	"verif/internal/wref"
	"verif/internal/xrt"
)

func init() { register("C07", C07) }

// leafExprs enumerates one access expression per scalar leaf of root (same order as wlayout.Leaves).
func leafExprs(u *wgen.Universe, root wgen.Expr, t *wgen.Type) []wgen.Expr {
	switch t.Kind {
	case wgen.KI32, wgen.KU32, wgen.KF32:
		return []wgen.Expr{root}
	case wgen.KVec:
		var out []wgen.Expr
		for i := 0; i < t.N; i++ {
			out = append(out, &wgen.Swiz{X: root, Comps: []int{i}, Ty: t.Elem})
		}
		return out
	case wgen.KMat:
		var out []wgen.Expr
		ct := u.Vec(t.R, t.Elem)
		for c := 0; c < t.N; c++ {
			col := &wgen.Index{X: root, I: &wgen.Lit{Ty: wgen.I32, I: int64(c)}, Ty: ct}
			for r := 0; r < t.R; r++ {
				out = append(out, &wgen.Index{X: col, I: &wgen.Lit{Ty: wgen.U32, I: int64(r)}, Ty: t.Elem})
			}
		}
		return out
	case wgen.KArray:
		var out []wgen.Expr
		for i := 0; i < t.N; i++ {
			out = append(out, leafExprs(u, &wgen.Index{X: root, I: &wgen.Lit{Ty: wgen.U32, I: int64(i)}, Ty: t.Elem}, t.Elem)...)
		}
		return out
	case wgen.KStruct:
		var out []wgen.Expr
		for i, m := range t.Members {
			out = append(out, leafExprs(u, &wgen.Field{X: root, Idx: i, Ty: m.Type}, m.Type)...)
		}
		return out
	}
	return nil
}

// layoutTraits lists the layout features of a type tree (used to attribute known findings).
func layoutTraits(t *wgen.Type, nested bool, set map[string]bool) {
	switch t.Kind {
	case wgen.KStruct:
		for _, m := range t.Members {
			if m.Align != 0 {
				set["align-attr"] = true
				if nested {
					set["nested-align-attr"] = true
				}
			}
			if m.Size != 0 {
				set["size-attr"] = true
			}
			layoutTraits(m.Type, true, set)
		}
	case wgen.KArray:
		layoutTraits(t.Elem, true, set)
	case wgen.KMat:
		if t.R == 2 {
			set["matCx2"] = true
		}
		if t.R == 3 {
			set["matCx3"] = true
		}
	case wgen.KVec:
		if t.N == 3 {
			set["vec3"] = true
		}
	}
}

// structNeedsAlign: AlignOf(struct) exceeds the natural alignment of its members (only through @align).
func addSizeAttrs(t *wgen.Type, r *run.Rng) {
	if t.Kind == wgen.KArray {
		addSizeAttrs(t.Elem, r)
		return
	}
	if t.Kind != wgen.KStruct {
		return
	}
	for i := range t.Members {
		addSizeAttrs(t.Members[i].Type, r)
		if r.Chance(1, 8) && !t.Members[i].Type.HasRuntimeArray() {
			t.Members[i].Size = wlayout.SizeOf(t.Members[i].Type) + 4*r.Range(0, 5)
			if t.Members[i].AttrSuffix == "" {
				t.Members[i].AttrSuffix = []string{"", "", "u", "i"}[r.Intn(4)]
			}
		}
	}
}

func C07(c *run.Ctx) int {
	replayWitnesses(c, map[string]func(witness) string{"exec-spirv": witnessExecSpirv, "exec-glsl": witnessExecText(glslBackend)})
	n := c.N(2500, 40000)
	c.Each(n, func(i int) (string, run.Outcome) {
		seed := run.CaseSeed(c.Seed, "layout", i)
		id := fmt.Sprintf("tree-%d", i)
		return id, c07Case(c, id, seed)
	})
	return c.Finish("host-shareable type trees (scalars, vec2-4, all matCxR, arrays of arrays, nested structs <= depth 3 with @align and @size attributes) in the storage (read_write and read) and uniform address spaces; (a) member offsets, spans and array strides of the lowered IR are compared with an independent WGSL layout calculator; (b) a write probe stores a distinct sentinel into every scalar leaf and a read probe copies every leaf of an offset-coded buffer into a flat array; both are compiled by the SPIR-V, HLSL, MSL and GLSL backends and executed in the matching interpreter (which addresses memory by the target's own rules): each sentinel must land at the WGSL byte offset of its leaf; "+
		"distinct = distinct (address space, probe direction, layout-trait set of the tree); non-trivial = the tree has at least one struct or array level",
		[]string{"wlayout implements WGSL's AlignOf / SizeOf / OffsetOfMember / stride rules incl. @align and @size", "f16 leaves are not generated (the AST has no f16 values)"})
}

func c07Case(c *run.Ctx, id string, seed uint64) run.Outcome {
	r := run.NewRng(seed ^ 0xC07)
	space := []string{"storage-rw", "storage-ro", "uniform"}[r.Intn(3)]
	off := wgen.SafeOff()
	delete(off, "attr.align.nested")
	g := wgen.New(seed, wgen.Config{Off: off})
	u := g.U
	var t *wgen.Type
	for tries := 0; ; tries++ {
		t = g.HostStruct(r.Range(1, 3), space == "uniform")
		addSizeAttrs(t, r)
		if space != "uniform" || wlayout.UniformOK(t) {
			break
		}
		if tries > 20 {
			return run.Outcome{V: run.Inconclusive, Reason: "no uniform-legal tree found"}
		}
		g = wgen.New(seed+uint64(tries)+1, wgen.Config{Off: off})
		u = g.U
	}
	if n := len(wlayout.Leaves(t, 0)); n > 200 || n == 0 {
		return run.Outcome{V: run.Inconclusive, Reason: "tree too large / empty"}
	}
	traits := map[string]bool{"space:" + space: true}
	layoutTraits(t, false, traits)
	if traits["matCx2"] && space == "uniform" {
		traits["uniform-matCx2"] = true
	}
	var tl []string
	for k := range traits {
		tl = append(tl, k)
	}
	sort.Strings(tl)
	traitStr := "[" + strings.Join(tl, " ") + "]"
	leaves := wlayout.Leaves(t, 0)
	size := wlayout.SizeOf(t)

	// build the probe module
	m := g.M
	buf := &wgen.Var{Name: "buf", Kind: wgen.VGlobal, Ty: t, Group: 0, Binding: 0, Module: true}
	entry := &wgen.Func{Name: "main", Stage: "compute", WGDims: 1}
	for i := 0; i < 3; i++ {
		entry.WG[i] = &wgen.Materialize{X: &wgen.Lit{Ty: wgen.AbsInt, I: 1}, Ty: wgen.U32}
	}
	var out *wgen.Var
	paths := leafExprs(u, &wgen.Ref{V: buf}, t)
	sentinel := func(i int, k wgen.Kind) (wgen.Expr, uint32) {
		v := int64(1000 + i)
		switch k {
		case wgen.KF32:
			return &wgen.Lit{Ty: wgen.F32, F: float64(v)}, math.Float32bits(float32(v))
		case wgen.KI32:
			return &wgen.Lit{Ty: wgen.I32, I: v}, uint32(v)
		}
		return &wgen.Lit{Ty: wgen.U32, I: v}, uint32(v)
	}
	write := space == "storage-rw"
	in := wref.Input{Bufs: map[*wgen.Var][]wref.Sc{}, RT: map[*wgen.Var]int{}}
	if write {
		buf.Space, buf.Access = "storage", "read_write"
		for i, p := range paths {
			lit, _ := sentinel(i, leaves[i].Kind)
			entry.Body = append(entry.Body, &wgen.Assign{LHS: p, Op: "=", RHS: lit})
		}
		in.Bufs[buf] = make([]wref.Sc, len(leaves))
		m.Decls = append(m.Decls, wgen.Decl{Var: buf}, wgen.Decl{Func: entry})
	} else {
		if space == "uniform" {
			buf.Space = "uniform"
		} else {
			buf.Space, buf.Access = "storage", "read"
		}
		out = &wgen.Var{Name: "flat", Kind: wgen.VGlobal, Ty: u.Array(wgen.U32, len(leaves)), Space: "storage", Access: "read_write", Group: 0, Binding: 1, Module: true}
		cells := make([]wref.Sc, len(leaves))
		for i, p := range paths {
			_, bits := sentinel(i, leaves[i].Kind)
			cells[i] = wref.Sc{B: uint64(bits)}
			entry.Body = append(entry.Body, &wgen.Assign{LHS: &wgen.Index{X: &wgen.Ref{V: out}, I: &wgen.Lit{Ty: wgen.U32, I: int64(i)}, Ty: wgen.U32}, Op: "=", RHS: leafBits(p)})
		}
		in.Bufs[buf] = cells
		in.Bufs[out] = make([]wref.Sc, len(leaves))
		m.Decls = append(m.Decls, wgen.Decl{Var: buf}, wgen.Decl{Var: out}, wgen.Decl{Func: entry})
	}
	prog := &wgen.Program{M: m}
	src := wgen.Print(m).Src
	wit := map[string]any{"wgsl": src, "space": space, "traits": traitStr, "wgsl_size": size}
	cov := map[string]int{}
	var first *run.Outcome
	note := func(class, msg string) {
		o := run.Outcome{V: run.Violated, Class: class, Reason: fmt.Sprintf("%s traits=%s: %s", id, traitStr, msg), Witness: wit}
		if c.KnownMatch(o.Class, o.Reason) {
			cov["known-finding-instances:"+class]++
			return
		}
		if first == nil {
			first = &o
		}
	}
	mod, stage, err := lowerSrc(src)
	if err != nil {
		return run.Outcome{V: run.Inconclusive, Reason: "front-end rejected the probe (" + stage + "): " + oneLine(err.Error())}
	}
	// (a) IR layout
	if msg := compareIRLayout(mod, t); msg != "" {
		note("ir-layout", msg)
	} else {
		cov["ir-layout-agrees"]++
	}
	// (b) execution probes
	exp, werr := wref.Run(m, entry, in)
	if werr != nil {
		return run.Outcome{V: run.Inconclusive, Reason: "MONITOR wref: " + werr.Error()}
	}
	check := func(name string, get func(g *wgen.Var) []byte) {
		diffs, st := cases.Compare(m, in, exp, get)
		cov["leaves:"+name] += st.Exact
		if len(diffs) > 0 {
			note(name+":misplaced-leaf", fmt.Sprintf("%s (%d of %d leaves)", diffs[0], len(diffs), len(leaves)))
		}
	}
	// SPIR-V
	if bin, err := naga.GenerateSPIRV(mod, spirv.Options{Version: spirv.Version1_3}); err == nil {
		if sm, err := spvx.Parse(bin); err == nil {
			bufs := cases.Buffers(m, in)
			if _, rerr := spvx.Run(sm, "main", bufs, xrt.Options{}); rerr == nil {
				check("spirv", func(gv *wgen.Var) []byte { return bufs[cases.SlotOf(gv)] })
			} else if !isUnsupported(rerr) {
				note("spirv:exec-error", rerr.Error())
			}
		}
	} else {
		cov["backend-error:spirv"]++
	}
	for _, be := range []textBackend{hlslBackend, mslBackend, glslBackend} {
		rs, ridx := resOfProg(prog, in)
		var tr textRun
		if _, pan := run.Catch(func() { tr = be.run(mod, "main", rs, [3]uint32{1, 1, 1}, false, 0, false) }); pan {
			continue
		}
		switch {
		case tr.err != nil:
			cov["backend-error:"+be.name]++
			continue
		case tr.parse != nil && isUnsupported(tr.parse):
			cov["unsupported:"+be.name]++
			continue
		case tr.parse != nil:
			note(be.name+":emitted-text-invalid", oneLine(tr.parse.Error()))
			continue
		case len(tr.static) > 0:
			note(be.name+":static:"+string(tr.static[0].Kind), oneLine(tr.static[0].Error()))
			continue
		case tr.runErr != nil:
			if !isUnsupported(tr.runErr) {
				note(be.name+":exec-error", oneLine(tr.runErr.Error()))
			} else {
				cov["unsupported:"+be.name]++
			}
			continue
		}
		if len(tr.traps) > 0 {
			note(be.name+":trap:"+string(tr.traps[0].Kind), oneLine(tr.traps[0].Error()))
			continue
		}
		check(be.name, func(gv *wgen.Var) []byte {
			if i, ok := ridx[gv]; ok {
				return tr.get(i)
			}
			return nil
		})
	}
	if first != nil {
		first.Cov = cov
		return *first
	}
	sig := map[string]int{}
	for _, k := range tl {
		sig[k] = 1
	}
	return run.Outcome{V: run.Held, Sig: cases.FeatureSig(sig), Trivial: len(leaves) < 2, Cov: cov, Sample: map[string]any{"wgsl": src, "space": space, "leaves": len(leaves), "size": size}}
}

// compareIRLayout compares the lowered IR's struct offsets / spans / strides with wlayout, recursively from struct t.
func compareIRLayout(mod *ir.Module, t *wgen.Type) string {
	byName := map[string]ir.TypeHandle{}
	for i, ty := range mod.Types {
		if ty.Name != "" {
			byName[ty.Name] = ir.TypeHandle(i)
		}
	}
	var cmp func(wt *wgen.Type, h ir.TypeHandle, path string) string
	cmp = func(wt *wgen.Type, h ir.TypeHandle, path string) string {
		if int(h) >= len(mod.Types) {
			return path + ": type handle out of range"
		}
		inner := mod.Types[h].Inner
		switch wt.Kind {
		case wgen.KStruct:
			st, ok := inner.(ir.StructType)
			if !ok {
				return fmt.Sprintf("%s: IR type is %T, not a struct", path, inner)
			}
			if len(st.Members) != len(wt.Members) {
				return fmt.Sprintf("%s: %d members in IR, %d in WGSL", path, len(st.Members), len(wt.Members))
			}
			offs := wlayout.Offsets(wt)
			for i, mem := range wt.Members {
				if int(st.Members[i].Offset) != offs[i] {
					return fmt.Sprintf("%s.%s: IR offset %d, WGSL offset %d", path, mem.Name, st.Members[i].Offset, offs[i])
				}
				if msg := cmp(mem.Type, st.Members[i].Type, path+"."+mem.Name); msg != "" {
					return msg
				}
			}
			if int(st.Span) != wlayout.SizeOf(wt) {
				return fmt.Sprintf("%s: IR span %d, WGSL size %d", path, st.Span, wlayout.SizeOf(wt))
			}
		case wgen.KArray:
			at, ok := inner.(ir.ArrayType)
			if !ok {
				return fmt.Sprintf("%s: IR type is %T, not an array", path, inner)
			}
			if int(at.Stride) != wlayout.Stride(wt) {
				return fmt.Sprintf("%s: IR stride %d, WGSL stride %d", path, at.Stride, wlayout.Stride(wt))
			}
			return cmp(wt.Elem, at.Base, path+"[]")
		}
		if sz := int(ir.TypeSize(mod, h)); wt.Kind != wgen.KStruct && wt.Kind != wgen.KArray && sz != wlayout.SizeOf(wt) {
			return fmt.Sprintf("%s: ir.TypeSize %d, WGSL size %d", path, sz, wlayout.SizeOf(wt))
		}
		return ""
	}
	h, ok := byName[t.Name]
	if !ok {
		return "struct " + t.Name + " not found in the lowered module"
	}
	return cmp(t, h, t.Name)
}
