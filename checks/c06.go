package checks

import (
	"fmt"
	"math"

	"github.com/gogpu/naga"
	"github.com/gogpu/naga/ir"
	"github.com/gogpu/naga/spirv"
	"verif/internal/cases"
	"verif/internal/run"
	"verif/internal/spvx"
	"verif/internal/wgen"
	"verif/internal/wref"
	"verif/internal/xrt"
)

func init() { register("C06", C06) }

var c06Contexts = []string{"module-const", "fn-const", "let", "var-init", "inline", "runtime-form", "const-assert", "switch-case", "array-size", "workgroup-size"}

func C06(c *run.Ctx) int {
	replayWitnesses(c, map[string]func(witness) string{"exec-spirv": witnessExecSpirv, "must-reject": witnessMustReject})
	n := c.N(12000, 150000)
	c.Each(n, func(i int) (string, run.Outcome) {
		seed := run.CaseSeed(c.Seed, "const", i)
		id := fmt.Sprintf("expr-%d", i)
		return id, c06Case(c, id, seed)
	})
	return c.Finish("expression trees (depth <= 3) over typed and abstract literals of bool / i32 / u32 / f32 and vec2-4 of them, all operators and foldable builtins, boundary operands; each tree is placed in a const context (module const, function const, let, var initialiser, inline operand, const_assert, switch case selector, array size, workgroup_size) and in a run-time form whose leaves are loaded from a buffer; both programs are compiled by naga and executed in the SPIR-V interpreter and compared with the wref value; array sizes and workgroup sizes are read from the lowered module; trees that WGSL makes a definite shader-creation error (integer division by zero, non-representable abstract value, constant shift >= width) must be rejected; "+
		"distinct = distinct (context, result type, operator/builtin set of the tree); non-trivial = the tree contains at least one operator or builtin",
		[]string{"wref evaluates const-expressions in abstract-int (i64) / abstract-float (f64) / the concrete type as WGSL prescribes", "trees whose const evaluation overflows a concrete type are skipped (WGSL's rule for them is not asserted)"})
}

func c06Types(u *wgen.Universe, r *run.Rng) *wgen.Type {
	sc := []*wgen.Type{wgen.I32, wgen.U32, wgen.F32, wgen.Bool}[r.Pick([]int{4, 4, 4, 1})]
	if r.Chance(1, 3) {
		return u.Vec(r.Range(2, 4), sc)
	}
	return sc
}

// leafBits: expression producing the u32 bit pattern of scalar e.
func leafBits(e wgen.Expr) wgen.Expr {
	switch e.T().Kind {
	case wgen.KU32:
		return e
	case wgen.KBool:
		return &wgen.Builtin{Name: "select", Args: []wgen.Expr{&wgen.Lit{Ty: wgen.U32, I: 0}, &wgen.Lit{Ty: wgen.U32, I: 1}, e}, Ty: wgen.U32}
	}
	return &wgen.Builtin{Name: "bitcast", TArg: wgen.U32, Args: []wgen.Expr{e}, Ty: wgen.U32}
}

func opSet(e wgen.Expr) map[string]int {
	ops := map[string]int{}
	wgen.WalkExpr(e, func(x wgen.Expr) {
		switch x := x.(type) {
		case *wgen.Binary:
			ops["op"+x.Op+"."+x.L.T().ShapeName()]++
		case *wgen.Unary:
			ops["un"+x.Op+"."+x.X.T().ShapeName()]++
		case *wgen.Builtin:
			ops["fn."+x.Name]++
		case *wgen.Cons:
			ops["ctor."+x.Ty.ShapeName()]++
		case *wgen.Materialize:
			ops["abstract->"+x.Ty.ShapeName()]++
		case *wgen.Swiz:
			ops["swizzle"]++
		}
	})
	return ops
}

type c06Prog struct {
	m     *wgen.Module
	o     *wgen.Var
	inp   *wgen.Var
	entry *wgen.Func
}

func c06Skeleton(u *wgen.Universe) *c06Prog {
	p := &c06Prog{m: &wgen.Module{U: u, AliasOf: map[*wgen.Type]*wgen.Alias{}}}
	p.o = &wgen.Var{Name: "o", Kind: wgen.VGlobal, Ty: u.Array(wgen.U32, 8), Space: "storage", Access: "read_write", Group: 0, Binding: 0, Module: true}
	p.inp = &wgen.Var{Name: "inp", Kind: wgen.VGlobal, Ty: u.Array(wgen.U32, 64), Space: "storage", Access: "read", Group: 0, Binding: 1, Module: true}
	p.entry = &wgen.Func{Name: "main", Stage: "compute", WGDims: 1}
	for i := 0; i < 3; i++ {
		p.entry.WG[i] = &wgen.Materialize{X: &wgen.Lit{Ty: wgen.AbsInt, I: 1}, Ty: wgen.U32}
	}
	p.m.Decls = []wgen.Decl{{Var: p.o}, {Var: p.inp}, {Func: p.entry}}
	return p
}

// storeLeaves appends o[i] = bits(leaf_i(val)) for every scalar leaf of val (val must be cheap to repeat).
func (p *c06Prog) storeLeaves(u *wgen.Universe, val wgen.Expr) {
	t := val.T()
	n := 1
	if t.Kind == wgen.KVec {
		n = t.N
	}
	for i := 0; i < n; i++ {
		var leaf wgen.Expr = val
		if t.Kind == wgen.KVec {
			leaf = &wgen.Swiz{X: &wgen.Paren{X: val}, Comps: []int{i}, Ty: t.Elem}
			if _, isRef := val.(*wgen.Ref); isRef {
				leaf = &wgen.Swiz{X: val, Comps: []int{i}, Ty: t.Elem}
			}
		}
		lhs := &wgen.Index{X: &wgen.Ref{V: p.o}, I: &wgen.Lit{Ty: wgen.U32, I: int64(i)}, Ty: wgen.U32}
		p.entry.Body = append(p.entry.Body, &wgen.Assign{LHS: lhs, Op: "=", RHS: leafBits(leaf)})
	}
}

func c06Case(c *run.Ctx, id string, seed uint64) run.Outcome {
	// f32 % is generated here although the SPIR-V backend evaluates it wrongly at run time (finding F31): a tree that
	// contains it is only placed in contexts where the front end must fold it, never in the run-time form
	off := wgen.SafeOff("fn.select.vec-cond")
	delete(off, "op.%.f32")
	g := wgen.New(seed, wgen.Config{Off: off})
	u := g.U
	r := run.NewRng(seed ^ 0xC06)
	t := c06Types(u, r)
	e := g.ConstExpr(t, r.Range(1, 3))
	ops := opSet(e)
	ctx := c06Contexts[r.Intn(len(c06Contexts))]
	scalarInt := t == wgen.I32 || t == wgen.U32
	floatRem := false
	wgen.WalkExpr(e, func(x wgen.Expr) {
		if b, ok := x.(*wgen.Binary); ok && b.Op == "%" && b.Ty != nil && b.Ty.Scalar() == wgen.F32 {
			floatRem = true
		}
	})
	if !scalarInt && (ctx == "switch-case" || ctx == "array-size" || ctx == "workgroup-size") {
		ctx = c06Contexts[r.Intn(6)]
	}
	plain := true // literals, parentheses, negation, + - * / % and vector constructors of those only
	wgen.WalkExpr(e, func(x wgen.Expr) {
		switch y := x.(type) {
		case *wgen.Lit, *wgen.Paren, *wgen.Materialize:
		case *wgen.Unary:
			if y.Op != "-" {
				plain = false
			}
		case *wgen.Binary:
			switch y.Op {
			case "+", "-", "*", "/", "%":
			default:
				plain = false
			}
		case *wgen.Cons:
			for _, a := range y.Args {
				if a.T() == nil || !a.T().IsScalar() || a.T() != y.Ty.Scalar() {
					plain = false
				}
			}
		default:
			plain = false
		}
	})
	if floatRem && ctx == "runtime-form" {
		ctx = c06Contexts[r.Intn(5)]
	}
	if floatRem && !plain && ctx != "module-const" && ctx != "const-assert" {
		// only where the front end has to evaluate the tree: in a let / var initialiser / inline operand (and for a
		// function-scope const, which naga inlines) folding is optional, and unfolded f32 % runs into F31 at run time
		ctx = []string{"module-const", "const-assert"}[r.Intn(2)]
	}
	p := c06Skeleton(u)
	val, cerr := wref.ConstEval(p.m, e)
	definite := false
	if cerr != nil {
		ee, _ := cerr.(*wref.ExecError)
		if ee == nil || ee.Kind != wref.ErrConst {
			return run.Outcome{V: run.Inconclusive, Reason: "MONITOR wref const-eval: " + cerr.Error()}
		}
		if !ee.Definite {
			return run.Outcome{V: run.Inconclusive, Reason: "conservatively rejected const-expression (overflow class)"}
		}
		definite = true
		if ctx == "runtime-form" || ctx == "switch-case" || ctx == "array-size" || ctx == "workgroup-size" || ctx == "const-assert" {
			ctx = c06Contexts[r.Intn(5)]
		}
	} else {
		for _, s := range val.S {
			if s.Ind {
				return run.Outcome{V: run.Inconclusive, Reason: "const-expression with an implementation-defined float result"}
			}
		}
	}
	exprText := wgen.ExprString(p.m, e)
	traits := ""
	// trait for attribution (finding F149): an abstract-int sub-expression containing / or % that is converted to float
	wgen.WalkExpr(e, func(x wgen.Expr) {
		if m, ok := x.(*wgen.Materialize); ok && m.Ty != nil && m.Ty.Scalar() != nil && m.Ty.Scalar().IsFloat() && m.X.T() == wgen.AbsInt {
			wgen.WalkExpr(m.X, func(y wgen.Expr) {
				if b, ok := y.(*wgen.Binary); ok && (b.Op == "/" || b.Op == "%") {
					traits = " traits=[abstract-int-divmod-under-float]"
				}
			})
		}
	})
	wit := map[string]any{"expression": exprText, "type": t.String(), "context": ctx}
	sigParts := map[string]int{"ctx:" + ctx: 1, "type:" + t.ShapeName(): 1}
	for k := range ops {
		sigParts[k] = 1
	}
	trivial := len(ops) == 0
	var inputs []wref.Input
	mkInput := func(words map[int]uint32) wref.Input {
		cells := make([]wref.Sc, 64)
		for k, v := range words {
			cells[k] = wref.Sc{B: uint64(v)}
		}
		return wref.Input{Bufs: map[*wgen.Var][]wref.Sc{p.o: make([]wref.Sc, 8), p.inp: cells}, RT: map[*wgen.Var]int{}}
	}
	inputs = []wref.Input{mkInput(nil)}
	var irCheck func(mod *ir.Module) string
	mustRejectVariant := false
	switch ctx {
	case "module-const":
		k := &wgen.Var{Name: "K", Kind: wgen.VConst, Ty: t, HasType: true, Init: e, Module: true}
		p.m.Decls = append([]wgen.Decl{{Var: k}}, p.m.Decls...)
		p.storeLeaves(u, &wgen.Ref{V: k})
	case "fn-const":
		k := &wgen.Var{Name: "k", Kind: wgen.VConst, Ty: t, HasType: true}
		p.entry.Body = append(p.entry.Body, &wgen.VarDecl{V: k, Init: e})
		p.storeLeaves(u, &wgen.Ref{V: k})
	case "let":
		k := &wgen.Var{Name: "l", Kind: wgen.VLet, Ty: t, HasType: true}
		p.entry.Body = append(p.entry.Body, &wgen.VarDecl{V: k, Init: e})
		p.storeLeaves(u, &wgen.Ref{V: k})
	case "var-init":
		k := &wgen.Var{Name: "v", Kind: wgen.VLocal, Ty: t, Space: "function", HasType: true}
		p.entry.Body = append(p.entry.Body, &wgen.VarDecl{V: k, Init: e})
		p.storeLeaves(u, &wgen.Ref{V: k})
	case "inline":
		// the tree is an operand: T-typed identity wrapper keeps it inline in a larger expression
		var ie wgen.Expr = e
		if _, isMat := e.(*wgen.Materialize); isMat {
			ie = &wgen.Cons{Ty: t, Args: []wgen.Expr{e}} // a bare abstract tree is only typed by an explicit conversion here
		}
		p.storeLeaves(u, ie)
	case "runtime-form":
		words := map[int]uint32{}
		rt := c06RuntimeForm(p, e, words)
		if rt == nil {
			return run.Outcome{V: run.Inconclusive, Reason: "no run-time form for this tree"}
		}
		k := &wgen.Var{Name: "l", Kind: wgen.VLet, Ty: t, HasType: true}
		p.entry.Body = append(p.entry.Body, &wgen.VarDecl{V: k, Init: rt})
		p.storeLeaves(u, &wgen.Ref{V: k})
		inputs = []wref.Input{mkInput(words)}
		wit["runtime_form"] = wgen.ExprString(p.m, rt)
	case "const-assert":
		// E == value must hold; the negation must be rejected
		eq := c06EqualsValue(u, e, val)
		if eq == nil {
			return run.Outcome{V: run.Inconclusive, Reason: "no exact literal for the value"}
		}
		neg := r.Bool()
		if neg {
			eq = &wgen.Unary{Op: "!", X: &wgen.Paren{X: eq}, Ty: wgen.Bool}
			mustRejectVariant = true
		}
		p.m.Decls = append([]wgen.Decl{{Assert: &wgen.ConstAssert{X: &wgen.Paren{X: eq}}}}, p.m.Decls...)
		p.entry.Body = append(p.entry.Body, &wgen.Assign{LHS: &wgen.Index{X: &wgen.Ref{V: p.o}, I: &wgen.Lit{Ty: wgen.U32, I: 0}, Ty: wgen.U32}, Op: "=", RHS: &wgen.Lit{Ty: wgen.U32, I: 1}})
		wit["negated"] = neg
	case "switch-case":
		v := uint32(val.S[0].B)
		sel := &wgen.Builtin{Name: "bitcast", TArg: t, Args: []wgen.Expr{&wgen.Index{X: &wgen.Ref{V: p.inp}, I: &wgen.Lit{Ty: wgen.U32, I: 0}, Ty: wgen.U32}}, Ty: t}
		var selE wgen.Expr = sel
		if t == wgen.U32 {
			selE = &wgen.Index{X: &wgen.Ref{V: p.inp}, I: &wgen.Lit{Ty: wgen.U32, I: 0}, Ty: wgen.U32}
		}
		o0 := func(x int64) wgen.Stmt {
			return &wgen.Assign{LHS: &wgen.Index{X: &wgen.Ref{V: p.o}, I: &wgen.Lit{Ty: wgen.U32, I: 0}, Ty: wgen.U32}, Op: "=", RHS: &wgen.Lit{Ty: wgen.U32, I: x}}
		}
		p.entry.Body = append(p.entry.Body, &wgen.Switch{Sel: selE, Cases: []wgen.Case{{Sels: []wgen.Expr{e}, Body: []wgen.Stmt{o0(1)}}, {Default: true, Body: []wgen.Stmt{o0(2)}}}})
		inputs = []wref.Input{mkInput(map[int]uint32{0: v}), mkInput(map[int]uint32{0: v ^ 1}), mkInput(map[int]uint32{0: v + 1})}
	case "array-size", "workgroup-size":
		v := int64(int32(uint32(val.S[0].B)))
		if t == wgen.U32 {
			v = int64(uint32(val.S[0].B))
		}
		lim := int64(64)
		if ctx == "array-size" {
			lim = 4096
		}
		if v < 1 || v > lim {
			return run.Outcome{V: run.Inconclusive, Reason: "value outside the range usable as a size"}
		}
		if ctx == "array-size" {
			p.m.Decls = append([]wgen.Decl{{Raw: "var<private> sized: array<u32, " + exprText + ">;"}}, p.m.Decls...)
			p.entry.Body = append(p.entry.Body, &wgen.RawStmt{Text: "sized[0] = 1u;"}, &wgen.Assign{LHS: &wgen.Index{X: &wgen.Ref{V: p.o}, I: &wgen.Lit{Ty: wgen.U32, I: 0}, Ty: wgen.U32}, Op: "=", RHS: &wgen.Lit{Ty: wgen.U32, I: 1}})
			irCheck = func(mod *ir.Module) string {
				for _, g := range mod.GlobalVariables {
					if g.Name == "sized" {
						if at, ok := mod.Types[g.Type].Inner.(ir.ArrayType); ok {
							if at.Size.Constant == nil {
								return "array size is not a constant in the lowered module"
							}
							if int64(*at.Size.Constant) != v {
								return fmt.Sprintf("array size %d in the lowered module, WGSL value %d", *at.Size.Constant, v)
							}
							return ""
						}
					}
				}
				return "sized array not found in the lowered module"
			}
		} else {
			p.entry.WG[0] = e
			p.entry.Body = append(p.entry.Body, &wgen.Assign{LHS: &wgen.Index{X: &wgen.Ref{V: p.o}, I: &wgen.Lit{Ty: wgen.U32, I: 0}, Ty: wgen.U32}, Op: "=", RHS: &wgen.Lit{Ty: wgen.U32, I: 1}})
			irCheck = func(mod *ir.Module) string {
				if got := int64(mod.EntryPoints[0].Workgroup[0]); got != v {
					return fmt.Sprintf("workgroup_size.x %d in the lowered module, WGSL value %d", got, v)
				}
				return ""
			}
		}
	}
	src := wgen.Print(p.m).Src
	wit["wgsl"] = src
	viol := func(class, msg string) run.Outcome {
		o := run.Outcome{V: run.Violated, Class: ctx + ":" + class, Reason: fmt.Sprintf("%s [%s] %s%s: %s", id, ctx, trunc(exprText, 120), traits, msg), Witness: wit}
		if c.KnownMatch(o.Class, o.Reason) {
			return run.Outcome{V: run.Held, Sig: "known:" + o.Class, Trivial: true, Cov: map[string]int{"known-finding-instances": 1}}
		}
		return o
	}
	// compile
	var bin []byte
	var cerr2 error
	var mod *ir.Module
	if st, pan := run.Catch(func() {
		var stage string
		mod, stage, cerr2 = lowerSrc(src)
		_ = stage
		if cerr2 == nil {
			if ve, verr := naga.Validate(mod); verr != nil {
				cerr2 = verr
			} else if len(ve) > 0 {
				cerr2 = &ve[0]
			}
		}
		if cerr2 == nil {
			bin, cerr2 = naga.GenerateSPIRV(mod, spirv.Options{Version: spirv.Version1_3})
		}
	}); pan {
		return viol("panic", st[:min(200, len(st))])
	}
	if definite || mustRejectVariant {
		if cerr2 == nil {
			what := "a shader-creation error per WGSL"
			if definite {
				what += " (" + cerr.(*wref.ExecError).Msg + ")"
			} else {
				what = "a false const_assert"
			}
			return viol("accepted-error", "compiled although the expression is "+what)
		}
		return run.Outcome{V: run.Held, Sig: cases.FeatureSig(sigParts), Trivial: trivial, Cov: map[string]int{"rejected-as-required:" + ctx: 1}}
	}
	if cerr2 != nil {
		return viol("rejected-valid", "valid const-expression rejected: "+oneLine(cerr2.Error()))
	}
	cov := map[string]int{"compiled:" + ctx: 1}
	if irCheck != nil {
		if msg := irCheck(mod); msg != "" {
			return viol("wrong-value", msg)
		}
		cov["ir-size-checked"]++
	}
	sm, perr := spvx.Parse(bin)
	if perr != nil {
		return viol("spirv-unparseable", perr.Error())
	}
	prog := &wgen.Program{M: p.m}
	for _, in := range inputs {
		exp, werr := wref.Run(p.m, p.entry, in)
		if werr != nil {
			return run.Outcome{V: run.Inconclusive, Reason: "MONITOR wref run: " + werr.Error()}
		}
		bufs := cases.Buffers(p.m, in)
		res, rerr := spvx.Run(sm, "main", bufs, xrt.Options{TrapMode: ctx == "runtime-form"})
		if rerr != nil {
			if isUnsupported(rerr) {
				return run.Outcome{V: run.Inconclusive, Reason: "spvx: " + rerr.Error()}
			}
			return viol("exec-error", rerr.Error())
		}
		if len(res.Traps) > 0 && ctx == "runtime-form" {
			t0 := res.Traps[0]
			if !(t0.Kind == xrt.TrapF2I && exp.Cov["ind.f2i"] > 0) {
				return run.Outcome{V: run.Inconclusive, Reason: "run-time form hits a known hardening gap (C15 territory): " + string(t0.Kind)}
			}
		}
		diffs, st := cases.Compare(prog.M, in, exp, func(gv *wgen.Var) []byte { return bufs[cases.SlotOf(gv)] })
		cov["leaves-compared"] += st.Exact + st.Tolerant
		if len(diffs) > 0 {
			wit["diffs"] = fmt.Sprint(diffs)
			return viol("wrong-value", fmt.Sprintf("%s (%d leaves differ)", diffs[0], len(diffs)))
		}
	}
	return run.Outcome{V: run.Held, Sig: cases.FeatureSig(sigParts), Trivial: trivial, Cov: cov, Sample: map[string]any{"expression": exprText, "type": t.String(), "context": ctx}}
}

// c06RuntimeForm rewrites the tree so that every literal (and every purely abstract sub-tree) arrives from the input buffer.
func c06RuntimeForm(p *c06Prog, e wgen.Expr, words map[int]uint32) wgen.Expr {
	next := 0
	load := func(t *wgen.Type, bits uint32) wgen.Expr {
		if next >= 64 {
			return nil
		}
		k := next
		next++
		words[k] = bits
		var w wgen.Expr = &wgen.Index{X: &wgen.Ref{V: p.inp}, I: &wgen.Lit{Ty: wgen.U32, I: int64(k)}, Ty: wgen.U32}
		switch t.Kind {
		case wgen.KU32:
			return w
		case wgen.KBool:
			return &wgen.Binary{Op: "!=", L: w, R: &wgen.Lit{Ty: wgen.U32, I: 0}, Ty: wgen.Bool}
		}
		return &wgen.Builtin{Name: "bitcast", TArg: t, Args: []wgen.Expr{w}, Ty: t}
	}
	ok := true
	var rec func(x wgen.Expr) wgen.Expr
	rec = func(x wgen.Expr) wgen.Expr {
		switch x := x.(type) {
		case *wgen.Lit:
			var bits uint32
			switch x.Ty.Kind {
			case wgen.KF32:
				bits = math.Float32bits(float32(x.F))
			default:
				bits = uint32(x.I)
			}
			if x.Ty.IsAbstract() {
				ok = false
				return x
			}
			l := load(x.Ty, bits)
			if l == nil {
				ok = false
				return x
			}
			return l
		case *wgen.Materialize:
			if !x.Ty.IsScalar() {
				ok = false
				return x
			}
			v, err := wref.ConstEval(p.m, x)
			if err != nil || v.S[0].Tol > 0 || v.S[0].Ind {
				ok = false
				return x
			}
			l := load(x.Ty, uint32(v.S[0].B))
			if l == nil {
				ok = false
				return x
			}
			return l
		case *wgen.Paren:
			return &wgen.Paren{X: rec(x.X)}
		case *wgen.Unary:
			return &wgen.Unary{Op: x.Op, X: rec(x.X), Ty: x.Ty}
		case *wgen.Binary:
			return &wgen.Binary{Op: x.Op, L: rec(x.L), R: rec(x.R), Ty: x.Ty}
		case *wgen.Builtin:
			nb := &wgen.Builtin{Name: x.Name, Ty: x.Ty, TArg: x.TArg}
			for _, a := range x.Args {
				nb.Args = append(nb.Args, rec(a))
			}
			return nb
		case *wgen.Cons:
			nc := &wgen.Cons{Ty: x.Ty, Infer: x.Infer}
			for _, a := range x.Args {
				nc.Args = append(nc.Args, rec(a))
			}
			return nc
		case *wgen.Swiz:
			return &wgen.Swiz{X: rec(x.X), Comps: x.Comps, RGBA: x.RGBA, Ty: x.Ty}
		case *wgen.Index:
			return &wgen.Index{X: rec(x.X), I: x.I, Ty: x.Ty}
		}
		ok = false
		return x
	}
	out := rec(e)
	if !ok {
		return nil
	}
	return out
}

// c06EqualsValue builds `E == literal(value)` (all components for vectors) or nil when the value has no exact literal.
func c06EqualsValue(u *wgen.Universe, e wgen.Expr, v wref.Val) wgen.Expr {
	t := e.T()
	lit := func(sc *wgen.Type, s wref.Sc) wgen.Expr {
		if s.Tol > 0 || s.Ind {
			return nil
		}
		switch sc.Kind {
		case wgen.KBool:
			return &wgen.Lit{Ty: wgen.Bool, I: int64(s.B & 1)}
		case wgen.KI32:
			return &wgen.Lit{Ty: wgen.I32, I: int64(int32(uint32(s.B)))}
		case wgen.KU32:
			return &wgen.Lit{Ty: wgen.U32, I: int64(uint32(s.B))}
		case wgen.KF32:
			f := math.Float32frombits(uint32(s.B))
			if f != f || math.IsInf(float64(f), 0) {
				return nil
			}
			return &wgen.Lit{Ty: wgen.F32, F: float64(f)}
		}
		return nil
	}
	if t.IsScalar() {
		l := lit(t, v.S[0])
		if l == nil {
			return nil
		}
		return &wgen.Binary{Op: "==", L: &wgen.Paren{X: e}, R: l, Ty: wgen.Bool}
	}
	args := make([]wgen.Expr, t.N)
	for i := range args {
		args[i] = lit(t.Elem, v.S[i])
		if args[i] == nil {
			return nil
		}
	}
	cmp := &wgen.Binary{Op: "==", L: &wgen.Paren{X: e}, R: &wgen.Cons{Ty: t, Args: args}, Ty: u.Vec(t.N, wgen.Bool)}
	return &wgen.Builtin{Name: "all", Args: []wgen.Expr{cmp}, Ty: wgen.Bool}
}
