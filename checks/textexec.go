package checks

import (
	"fmt"
	"strings"

	"github.com/gogpu/naga/glsl"
	"github.com/gogpu/naga/hlsl"
	"github.com/gogpu/naga/ir"
	"github.com/gogpu/naga/msl"
	"verif/internal/cases"
	"verif/internal/glslx"
	"verif/internal/hlslx"
	"verif/internal/mslx"
	"verif/internal/run"
	"verif/internal/wgen"
	"verif/internal/wlayout"
	"verif/internal/wref"
	"verif/internal/xrt"
)

// textRun is the outcome of compiling one module with one text backend / option set and executing one entry point.
type textRun struct {
	text    string
	err     error       // backend error (C08 territory)
	parse   error       // the emitted text is not valid / unsupported
	static  []*xrt.Trap // identifier / typing monitors
	traps   []*xrt.Trap // dynamic monitors
	cov     xrt.Coverage
	runErr  error
	get     func(i int) []byte // observed buffer image of resource i (nil if not bound)
	decls   []declInfo
	entries []string
}

type declInfo struct{ Name, Kind, Scope string }

// resInfo describes one bound buffer resource of the module being executed.
type resInfo struct {
	Group, Binding uint32
	Uniform        bool
	RW             bool
	Image          []byte
}

func resOfProg(prog *wgen.Program, in wref.Input) ([]resInfo, map[*wgen.Var]int) {
	var rs []resInfo
	idx := map[*wgen.Var]int{}
	for _, g := range prog.M.Globals() {
		if g.Space == "storage" || g.Space == "uniform" {
			idx[g] = len(rs)
			rs = append(rs, resInfo{Group: uint32(g.Group), Binding: uint32(g.Binding), Uniform: g.Space == "uniform", RW: g.Access == "read_write", Image: cases.Image(g, in.Bufs[g], in.RT[g])})
		}
	}
	return rs, idx
}

// resOfModule: pattern-filled 256-byte buffers for every bound global of an IR module (witness replays).
func resOfModule(mod *ir.Module) []resInfo {
	var rs []resInfo
	for _, g := range mod.GlobalVariables {
		if g.Binding == nil {
			continue
		}
		if g.Space != ir.SpaceStorage && g.Space != ir.SpaceUniform {
			continue
		}
		img := make([]byte, 256)
		for i := 0; i < 64; i++ {
			wlayout.Put32(img, i*4, uint32(i))
		}
		rs = append(rs, resInfo{Group: g.Binding.Group, Binding: g.Binding.Binding, Uniform: g.Space == ir.SpaceUniform, RW: g.Space == ir.SpaceStorage && g.Access != ir.StorageRead, Image: img})
	}
	return rs
}

type textBackend struct {
	name string
	// outOfScope: trap kinds that put the execution outside the property (GLSL: target-undefined operations that the
	// property explicitly excludes)
	outOfScope func(t *xrt.Trap) bool
	cfg        func() wgen.Config
	nopt       func(thorough bool) int
	optName    func(thorough bool, i int) string
	run        func(mod *ir.Module, entry string, rs []resInfo, numGroups [3]uint32, thorough bool, optIdx int, trap bool, pc ...map[string]float64) textRun
}

func isUnsupported(err error) bool {
	_, ok := err.(*xrt.Unsupported)
	return ok
}

// glslUB: operations GLSL leaves undefined and property C05 excludes from its scope.
func glslUB(t *xrt.Trap) bool {
	switch t.Kind {
	case xrt.TrapDivZero, xrt.TrapDivOvf, xrt.TrapShift, xrt.TrapF2I:
		return true
	}
	return strings.Contains(t.Detail, "mod-negative")
}

var glslBackend = textBackend{
	name:       "glsl",
	outOfScope: glslUB,
	cfg: func() wgen.Config {
		// glsl-safe profile: no run-time divisors, no signed remainder (GLSL leaves both undefined on some operands)
		return wgen.Config{Off: wgen.SafeOff("div.runtime-divisor", "op.%.i32", "fn.select.vec-cond", "attr.align", "uniform.matCx2", "fn.atomicSub", "stmt.continue-in-switch")}
	},
	nopt:    func(th bool) int { return len(glslOptionSets(th)) },
	optName: func(th bool, i int) string { return glslOptionSets(th)[i].name },
	run: func(mod *ir.Module, entry string, rs []resInfo, ng [3]uint32, th bool, oi int, trap bool, pc ...map[string]float64) (tr textRun) {
		os := glslOptionSets(th)[oi]
		o := os.o()
		if len(pc) > 0 && pc[0] != nil {
			o.PipelineConstants = ir.PipelineConstants(pc[0])
		}
		o.EntryPoint = entry
		o.BindingMap = map[glsl.BindingMapKey]uint8{}
		for n, r := range rs {
			o.BindingMap[glsl.BindingMapKey{Group: r.Group, Binding: r.Binding}] = uint8(n)
		}
		text, info, err := glsl.Compile(mod, o)
		tr.text = text
		if err != nil {
			tr.err = err
			return
		}
		p, perr := glslx.Parse(text)
		if perr != nil {
			tr.parse = perr
			return
		}
		tr.static = p.StaticTraps()
		for _, d := range p.Decls() {
			tr.decls = append(tr.decls, declInfo{d.Name, d.Kind, d.Scope})
		}
		for _, e := range p.Entries() {
			tr.entries = append(tr.entries, e.Name)
		}
		// map resources: by explicit binding; implicit ones through the reflection info (block name -> group/binding)
		byBlock := map[string]ir.ResourceBinding{}
		for _, u := range info.Uniforms {
			byBlock[u.BlockName] = u.Binding
		}
		bufs := xrt.Buffers{}
		slotOf := map[int]xrt.Slot{}
		for _, r := range p.Resources() {
			g := -1
			if strings.Contains(r.TypeName, "(implicit)") {
				if rb, ok := byBlock[r.Name]; ok {
					for n, ri := range rs {
						if ri.Group == rb.Group && ri.Binding == rb.Binding {
							g = n
						}
					}
				}
			} else {
				for n, ri := range rs {
					if uint32(n) == r.Slot.B && (ri.Uniform == (r.Slot.Kind == "uniform")) {
						g = n
					}
				}
			}
			if g >= 0 {
				slotOf[g] = r.Slot
				bufs[r.Slot] = append([]byte(nil), rs[g].Image...)
			} else {
				bufs[r.Slot] = make([]byte, 256)
			}
		}
		res, rerr := p.Run("main", bufs, xrt.Options{TrapMode: trap, Dispatch: xrt.Dispatch{NumGroups: ng}})
		tr.traps, tr.cov, tr.runErr = res.Traps, res.Cov, rerr
		tr.get = func(i int) []byte {
			if s, ok := slotOf[i]; ok {
				return bufs[s]
			}
			return nil
		}
		return
	},
}

var hlslBackend = textBackend{
	name: "hlsl",
	cfg: func() wgen.Config {
		return wgen.Config{Off: wgen.SafeOff("type.array-of-array", "private.array", "fn.extractBits", "fn.insertBits", "uniform.matCx2", "decl.reorder", "type.matCx2", "fn.sign", "read.struct-from-buffer", "fn.asinh", "fn.acosh", "fn.atanh")}
	},
	nopt:    func(th bool) int { return len(hlslOptionSets(th)) },
	optName: func(th bool, i int) string { return hlslOptionSets(th)[i].name },
	run: func(mod *ir.Module, entry string, rs []resInfo, ng3 [3]uint32, th bool, oi int, trap bool, pc ...map[string]float64) (tr textRun) {
		os := hlslOptionSets(th)[oi]
		o := os.o()
		o.FakeMissingBindings = false
		o.BindingMap = map[hlsl.ResourceBinding]hlsl.BindTarget{}
		for n, r := range rs {
			o.BindingMap[hlsl.ResourceBinding{Group: r.Group, Binding: r.Binding}] = hlsl.BindTarget{Space: uint8(r.Group), Register: uint32(n)}
		}
		sc := hlsl.BindTarget{Space: 7, Register: 0}
		o.SpecialConstantsBinding = &sc
		text, hinfo, err := hlsl.Compile(mod, o)
		tr.text = text
		if err != nil {
			tr.err = err
			return
		}
		if hinfo != nil {
			if n, ok := hinfo.EntryPointNames[entry]; ok && n != "" {
				entry = n
			}
		}
		p, perr := hlslx.Parse(text)
		if perr != nil {
			tr.parse = perr
			return
		}
		tr.static = p.StaticTraps()
		for _, d := range p.Decls() {
			tr.decls = append(tr.decls, declInfo{d.Name, d.Kind, d.Scope})
		}
		for _, e := range p.Entries() {
			tr.entries = append(tr.entries, e.Name)
		}
		bufs := xrt.Buffers{}
		slotOf := map[int]xrt.Slot{}
		for _, r := range p.Resources() {
			g := -1
			for n, ri := range rs {
				if uint32(n) == r.Slot.B && ri.Group == r.Slot.A {
					g = n
				}
			}
			if r.Slot.A == 7 && r.Slot.Kind == "b" {
				// NagaConstants-style special constants: first_vertex, first_instance, other (= num_workgroups related) — fill with the dispatch size
				b := make([]byte, 64)
				ng := xrt.Dispatch{NumGroups: ng3}.Groups()
				for i := 0; i < 3; i++ {
					wlayout.Put32(b, i*4, ng[i])
				}
				bufs[r.Slot] = b
				continue
			}
			if g >= 0 {
				slotOf[g] = r.Slot
				bufs[r.Slot] = append([]byte(nil), rs[g].Image...)
			} else {
				bufs[r.Slot] = make([]byte, 256)
			}
		}
		res, rerr := p.Run(entry, bufs, xrt.Options{TrapMode: trap, Dispatch: xrt.Dispatch{NumGroups: ng3}})
		tr.traps, tr.cov, tr.runErr = res.Traps, res.Cov, rerr
		tr.get = func(i int) []byte {
			if s, ok := slotOf[i]; ok {
				return bufs[s]
			}
			return nil
		}
		return
	},
}

var mslBackend = textBackend{
	name: "msl",
	cfg: func() wgen.Config {
		return wgen.Config{Off: wgen.SafeOff("inline-const-precedence", "fn.dot.int", "fn.select", "postfix-on-compound", "fn.round", "fn.sign", "fn.firstLeadingBit", "fn.firstTrailingBit", "swizzle.on-constructor", "ptr.dynamic-element", "ptr.struct-vec3-member")}
	},
	nopt:    func(th bool) int { return len(mslOptionSets(th)) },
	optName: func(th bool, i int) string { return mslOptionSets(th)[i].name },
	run: func(mod *ir.Module, entry string, rs []resInfo, ng3 [3]uint32, th bool, oi int, trap bool, pc ...map[string]float64) (tr textRun) {
		os := mslOptionSets(th)[oi]
		o := os.o()
		if len(pc) > 0 && pc[0] != nil {
			o.PipelineConstants = pc[0]
		}
		o.FakeMissingBindings = false
		res := map[ir.ResourceBinding]msl.BindTarget{}
		for n, r := range rs {
			b := uint8(n)
			res[ir.ResourceBinding{Group: r.Group, Binding: r.Binding}] = msl.BindTarget{Buffer: &b, Mutable: r.RW}
		}
		sizes := uint8(24)
		o.PerEntryPointMap = map[string]msl.EntryPointResources{}
		for _, e := range mod.EntryPoints {
			o.PerEntryPointMap[e.Name] = msl.EntryPointResources{Resources: res, SizesBuffer: &sizes}
		}
		text, minfo, err := msl.Compile(mod, o)
		tr.text = text
		if err != nil {
			tr.err = err
			return
		}
		wgslEntry := entry
		if n, ok := minfo.EntryPointNames[entry]; ok && n != "" {
			entry = n
		}
		p, perr := mslx.Parse(text)
		if perr != nil {
			tr.parse = perr
			return
		}
		tr.static = p.StaticTraps()
		for _, d := range p.Decls() {
			tr.decls = append(tr.decls, declInfo{d.Name, d.Kind, d.Scope})
		}
		for _, e := range p.Entries() {
			tr.entries = append(tr.entries, e.Name)
		}
		if uerr := p.EntryUnsupported(entry); uerr != nil {
			tr.runErr = uerr
			return
		}
		bufs := xrt.Buffers{}
		slotOf := map[int]xrt.Slot{}
		for _, r := range p.EntryResources(entry) {
			g := -1
			for n := range rs {
				if uint32(n) == r.Slot.B && r.Slot.Kind == "buffer" {
					g = n
				}
			}
			if r.Slot.Kind == "buffer" && r.Slot.B == 24 {
				// _mslBufferSizes: member sizeN holds the byte length of the buffer bound to global variable N
				b := make([]byte, 256)
				for _, mem := range p.BufferSizesLayout(strings.TrimSuffix(strings.TrimPrefix(r.TypeName, "constant "), "&")) {
					if mem.Index < len(mod.GlobalVariables) && mod.GlobalVariables[mem.Index].Binding != nil {
						rb := mod.GlobalVariables[mem.Index].Binding
						for _, ri := range rs {
							if ri.Group == rb.Group && ri.Binding == rb.Binding {
								wlayout.Put32(b, mem.Offset, uint32(len(ri.Image)))
							}
						}
					}
				}
				bufs[r.Slot] = b
				continue
			}
			if g >= 0 {
				slotOf[g] = r.Slot
				bufs[r.Slot] = append([]byte(nil), rs[g].Image...)
			} else {
				bufs[r.Slot] = make([]byte, 256)
			}
		}
		ls := [3]uint32{1, 1, 1}
		for _, e := range mod.EntryPoints {
			if e.Name == wgslEntry {
				ls = e.Workgroup
			}
		}
		p.SetLocalSize(entry, ls)
		rres, rerr := p.Run(entry, bufs, xrt.Options{TrapMode: trap, Dispatch: xrt.Dispatch{NumGroups: ng3}})
		tr.traps, tr.cov, tr.runErr = rres.Traps, rres.Cov, rerr
		tr.get = func(i int) []byte {
			if s, ok := slotOf[i]; ok {
				return bufs[s]
			}
			return nil
		}
		return
	},
}

// textDiffCheck is the C03/C04/C05 body: the C01 campaign with a text backend and its interpreter.
func textDiffCheck(c *run.Ctx, be textBackend, prop string) func(i int) (string, run.Outcome) {
	nIn := c.N(2, 3)
	return func(i int) (string, run.Outcome) {
		seed := run.CaseSeed(c.Seed, "exec", i)
		id := fmt.Sprintf("prog-%d", i)
		cfg := execCfg()
		if be.cfg != nil {
			cfg = be.cfg()
		}
		prog := cases.Generate(seed, cfg)
		o := textDiffEval(c, be, id, prog, seed, nIn)
		if o.V == run.Violated && c.TakeReduceSlotFor(o.Class) {
			class := o.Class
			orig := wgen.Print(prog.M).Src
			wgen.Reduce(prog.M, func() bool {
				r := textDiffEval(nil, be, id, prog, seed, nIn)
				return r.V == run.Violated && r.Class == class
			}, 5)
			if r := textDiffEval(nil, be, id, prog, seed, nIn); r.V == run.Violated && r.Class == class {
				r.Witness["reduced"] = true
				r.Witness["wgsl_unreduced"] = orig
				o = r
			}
		}
		return id, o
	}
}

// policyFn maps an option-set name to the bounds-check policy wref must apply ("" = indices are in range by construction);
// use=false skips the option set (C15: unprotected option sets say nothing about hostile data).
type policyFn func(optName string) (policy string, use bool)

func textDiffEval(c *run.Ctx, be textBackend, id string, prog *wgen.Program, seed uint64, nIn int, pol ...policyFn) run.Outcome {
	src := wgen.Print(prog.M).Src
	mod, stage, err := lowerSrc(src)
	if err != nil {
		return run.Outcome{V: run.Inconclusive, Reason: "front-end rejected generated program (C08 territory): " + stage}
	}
	thorough := c != nil && !c.Quick()
	entry := prog.M.Entries()[0]
	cov := map[string]int{}
	r := run.NewRng(seed ^ 0xABCDEF)
	compared, changed := 0, 0
	inconc := ""
	var first *run.Outcome
	note := func(o run.Outcome) {
		if c != nil && c.KnownMatch(o.Class, o.Reason) {
			cov["known-finding-instances:"+o.Class]++
			return
		}
		if first == nil {
			first = &o
		}
	}
	for k := 0; k < nIn; k++ {
		in := cases.MakeInput(prog.M, r.Split())
		type refRun struct {
			exp  wref.Output
			werr error
		}
		refs := map[string]*refRun{}
		refFor := func(policy string) *refRun {
			if rr, ok := refs[policy]; ok {
				return rr
			}
			in2 := in
			in2.Policy = policy
			rr := &refRun{}
			rr.exp, rr.werr = wref.Run(prog.M, entry, in2)
			refs[policy] = rr
			return rr
		}
		if len(pol) == 0 {
			if rr := refFor(""); rr.werr != nil {
				if ee, ok := rr.werr.(*wref.ExecError); ok && (ee.Kind == wref.ErrInconclusive || ee.Kind == wref.ErrBudget) {
					inconc = "wref: " + ee.Msg
					continue
				}
				return run.Outcome{V: run.Inconclusive, Reason: "MONITOR wref error: " + rr.werr.Error()}
			}
		}
		for oi := 0; oi < be.nopt(thorough); oi++ {
			oname := be.optName(thorough, oi)
			policy := ""
			if len(pol) > 0 {
				p, use := pol[0](oname)
				if !use {
					continue
				}
				policy = p
			}
			rr := refFor(policy)
			if rr.werr != nil {
				if ee, ok := rr.werr.(*wref.ExecError); ok && (ee.Kind == wref.ErrInconclusive || ee.Kind == wref.ErrBudget) {
					inconc = "wref: " + ee.Msg
					cov["wref-inconclusive"]++
					continue
				}
				return run.Outcome{V: run.Inconclusive, Reason: "MONITOR wref error: " + rr.werr.Error()}
			}
			exp := rr.exp
			if policy != "" {
				cov["policy:"+policy]++
				cov["wref.oob-accesses:"+policy] += exp.OOB
			}
			var tr textRun
			rs, ridx := resOfProg(prog, in)
			if st, pan := run.Catch(func() { tr = be.run(mod, entry.Name, rs, in.NumGroups, thorough, oi, true) }); pan {
				return run.Outcome{V: run.Inconclusive, Reason: "MONITOR/backend panic: " + oneLine(st[:min(200, len(st))])}
			}
			w := map[string]any{"wgsl": src, "options": oname, "input": cases.DescribeInput(prog.M, in), "emitted": tr.text}
			switch {
			case tr.err != nil:
				return run.Outcome{V: run.Inconclusive, Reason: be.name + " backend rejected generated program (C08 territory)"}
			case tr.parse != nil && isUnsupported(tr.parse):
				inconc = be.name + "x parse: " + tr.parse.Error()
				cov["unsupported-parse"]++
				continue
			case tr.parse != nil:
				note(run.Outcome{V: run.Violated, Class: "emitted-text-invalid", Reason: fmt.Sprintf("%s [%s]: %s", id, oname, oneLine(tr.parse.Error())), Witness: w})
				continue
			}
			bad := false
			for _, t := range tr.static {
				note(run.Outcome{V: run.Violated, Class: "static:" + string(t.Kind), Reason: fmt.Sprintf("%s [%s]: %s%s%s", id, oname, oneLineN(t.Error(), 400), emittedLine(tr.text, t.Error()), staticTraits(prog)), Witness: w})
				bad = true
				break
			}
			if bad {
				continue
			}
			if tr.runErr != nil {
				if isUnsupported(tr.runErr) {
					inconc = be.name + "x run: " + tr.runErr.Error()
					cov["unsupported-run"]++
					continue
				}
				note(run.Outcome{V: run.Violated, Class: "exec-error", Reason: fmt.Sprintf("%s [%s]: %s", id, oname, oneLine(tr.runErr.Error())), Witness: w})
				continue
			}
			for kk, v := range tr.cov {
				cov[be.name+":"+kk] += v
			}
			trapped := false
			for _, t := range tr.traps {
				if t.Kind == xrt.TrapF2I && exp.Cov["ind.f2i"] > 0 {
					continue
				}
				if strings.Contains(t.Detail, "float-domain") {
					continue // domain errors of float builtins yield values wref already classifies as indeterminate
				}
				if be.outOfScope != nil && be.outOfScope(t) {
					inconc = be.name + " execution outside the property's scope: " + string(t.Kind)
					cov["out-of-scope:"+string(t.Kind)]++
					trapped = true
					break
				}
				note(run.Outcome{V: run.Violated, Class: "trap:" + string(t.Kind), Reason: fmt.Sprintf("%s [%s]: %s", id, oname, oneLine(t.Error())), Witness: w})
				trapped = true
				break
			}
			if trapped {
				continue
			}
			diffs, st := cases.Compare(prog.M, in, exp, func(g *wgen.Var) []byte {
				if i, ok := ridx[g]; ok {
					return tr.get(i)
				}
				return nil
			})
			compared += st.Exact + st.Tolerant
			changed += st.Changed
			cov["words.exact"] += st.Exact
			cov["words.tolerant"] += st.Tolerant
			cov["words.indeterminate"] += st.Skipped
			if len(diffs) > 0 {
				w["diffs"] = fmt.Sprint(diffs)
				note(run.Outcome{V: run.Violated, Class: "result-mismatch", Reason: fmt.Sprintf("%s [%s]: %s (%d leaves differ)", id, oname, diffs[0], len(diffs)), Witness: w})
			}
		}
	}
	if first != nil {
		first.Cov = cov
		return *first
	}
	if compared == 0 {
		if inconc == "" {
			inconc = "nothing compared"
		}
		return run.Outcome{V: run.Inconclusive, Reason: inconc}
	}
	parts := cases.FeatKeys(prog.Feat)
	for k := range cov {
		parts[k] = 1
	}
	return run.Outcome{V: run.Held, Sig: cases.FeatureSig(parts), Trivial: changed == 0, Cov: cov, Sample: map[string]any{"wgsl": src, "compared_leaves": compared, "changed_leaves": changed}}
}

func textDiffRule(lang string) string {
	return "the C01 campaign (generated compute programs x boundary-biased inputs) compiled by naga's " + lang + " backend under several option sets; the emitted text is parsed, statically checked (reserved identifiers, redeclarations, unresolved names, typing) and executed by an independent " + lang + " interpreter with undefined-behaviour monitors over byte buffers laid out by the target language's own rules; every output leaf is compared with the wref WGSL reference; " +
		"plus the grid of calls passing two or three pointers at once (see C01); distinct = distinct (generator features + wref kinds + interpreter statement/operator/builtin kinds executed); non-trivial = an output leaf changed and was compared"
}

func init() {
	register("C05", func(c *run.Ctx) int {
		replayWitnesses(c, map[string]func(witness) string{"exec-glsl": witnessExecText(glslBackend)})
		c.Each(c.N(600, 6000), textDiffCheck(c, glslBackend, "C05"))
		c01PtrArgs(c, []string{"glsl"})
		c01ConstBits(c, []string{"glsl"})
		c01SemTemplates(c, []string{"glsl"})
		return c.Finish(textDiffRule("GLSL"), []string{"glslx implements GLSL 4.x / ES 3.1 semantics, std430/std140 layout and treats GLSL-undefined operations as traps", "executions on which GLSL itself is undefined are outside the property"})
	})
	register("C04", func(c *run.Ctx) int {
		replayWitnesses(c, map[string]func(witness) string{"exec-msl": witnessExecText(mslBackend)})
		c.Each(c.N(600, 6000), textDiffCheck(c, mslBackend, "C04"))
		c01PtrArgs(c, []string{"msl"})
		c01ConstBits(c, []string{"msl"})
		c01SemTemplates(c, []string{"msl"})
		return c.Finish(textDiffRule("MSL"), []string{"mslx implements MSL / C++14 semantics and the Metal ABI layout (vec3 = 16 bytes, packed vectors, matrices as column arrays)"})
	})
	register("C03", func(c *run.Ctx) int {
		replayWitnesses(c, map[string]func(witness) string{"exec-hlsl": witnessExecText(hlslBackend)})
		c.Each(c.N(600, 6000), textDiffCheck(c, hlslBackend, "C03"))
		c01PtrArgs(c, []string{"hlsl"})
		c01ConstBits(c, []string{"hlsl"})
		c01SemTemplates(c, []string{"hlsl"})
		return c.Finish(textDiffRule("HLSL"), []string{"hlslx implements HLSL semantics, byte-address buffer methods and legacy cbuffer packing"})
	})
}

// emittedLine quotes the line of the emitted text a monitor message refers to ("line N"), for triage and attribution.
func emittedLine(text, msg string) string {
	i := strings.Index(msg, "line ")
	if i < 0 {
		return ""
	}
	n := 0
	for _, ch := range msg[i+5:] {
		if ch < '0' || ch > '9' {
			break
		}
		n = n*10 + int(ch-'0')
	}
	lines := strings.Split(text, "\n")
	if n < 1 || n > len(lines) {
		return ""
	}
	return " | emitted: " + strings.TrimSpace(lines[n-1])
}

func oneLineN(s string, n int) string {
	s = strings.ReplaceAll(s, "\n", " | ")
	if len(s) > n {
		s = s[:n] + "…"
	}
	return s
}

// staticTraits: AST traits used to attribute listed findings whose symptom is a static error in the emitted text.
// typed-splat-let: a function declares `let x: vecN<T> = <constant vector expression>`; the lowered module
// records no type for that splat (finding under C09), and the GLSL writer then treats x as a scalar in conversions and
// in its integer-dot expansion (F111).
func staticTraits(prog *wgen.Program) string {
	found := false
	for _, f := range prog.M.Funcs() {
		wgen.WalkStmts(f.Body, func(st wgen.Stmt) {
			vd, ok := st.(*wgen.VarDecl)
			if !ok || vd.V.Kind != wgen.VLet || !vd.V.HasType || vd.V.Ty == nil || vd.V.Ty.Kind != wgen.KVec {
				return
			}
			if vd.Init != nil && wgen.Constish(vd.Init) {
				found = true // the initialiser is folded to a constant splat / compose whose type is not recorded
			}
			x := vd.Init
			for {
				p, ok := x.(*wgen.Paren)
				if !ok {
					break
				}
				x = p.X
			}
			if cons, ok := x.(*wgen.Cons); ok && len(cons.Args) == 1 && cons.Args[0].T() != nil && cons.Args[0].T().IsScalar() {
				found = true // a splat of a run-time scalar: same missing type
			}
		}, nil)
	}
	if found {
		return " traits=[typed-splat-let]"
	}
	return ""
}
