package checks

import (
	"fmt"
	"regexp"

	"github.com/gogpu/naga"
	"github.com/gogpu/naga/glsl"
	"github.com/gogpu/naga/hlsl"
	"github.com/gogpu/naga/msl"
	"verif/internal/cases"
	"verif/internal/run"
	"verif/internal/wgen"
)

func init() { register("C08", C08) }

var digits = regexp.MustCompile(`[0-9]+`)

func normErr(s string) string {
	s = digits.ReplaceAllString(s, "N")
	if len(s) > 140 {
		s = s[:140]
	}
	return s
}

// acceptAll pushes one source through every stage and every backend option set. It returns the first failure.
func acceptAll(src string, thorough bool, cov map[string]int) (stage, msg string) {
	var mod *irModule
	if st, pan := run.Catch(func() {
		var err error
		mod, stage, err = lowerSrc(src)
		if err != nil {
			msg = err.Error()
		}
	}); pan {
		return "front-end", "panic: " + st[:min(len(st), 300)]
	}
	if msg != "" {
		return stage, msg
	}
	cov["stage.parse+lower"]++
	try := func(name string, f func() error) bool {
		var err error
		if st, pan := run.Catch(func() { err = f() }); pan {
			stage, msg = name, "panic: "+st[:min(len(st), 300)]
			return false
		}
		if err != nil {
			stage, msg = name, err.Error()
			return false
		}
		cov["ok."+name]++
		return true
	}
	if !try("validate", func() error {
		ve, err := naga.Validate(mod)
		if err != nil {
			return err
		}
		if len(ve) > 0 {
			return &ve[0]
		}
		return nil
	}) {
		return
	}
	if !try("compile-one-call", func() error { _, err := naga.Compile(src); return err }) {
		return
	}
	for _, os := range spvOptionSets(thorough) {
		os := os
		if !try("spirv", func() error {
			_, err := naga.GenerateSPIRV(mod, os.o)
			if err != nil {
				return fmt.Errorf("[%s] %w", os.name, err)
			}
			return nil
		}) {
			return
		}
	}
	for _, os := range hlslOptionSets(thorough) {
		os := os
		if !try("hlsl", func() error {
			_, _, err := hlsl.Compile(mod, os.o())
			if err != nil {
				return fmt.Errorf("[%s] %w", os.name, err)
			}
			return nil
		}) {
			return
		}
	}
	for _, os := range mslOptionSets(thorough) {
		os := os
		if !try("msl", func() error {
			_, _, err := msl.Compile(mod, os.o())
			if err != nil {
				return fmt.Errorf("[%s] %w", os.name, err)
			}
			return nil
		}) {
			return
		}
	}
	for _, os := range glslOptionSets(thorough) {
		for _, ep := range mod.EntryPoints {
			os, ep := os, ep
			if !try("glsl", func() error {
				o := os.o()
				o.EntryPoint = ep.Name
				_, _, err := glsl.Compile(mod, o)
				if err != nil {
					return fmt.Errorf("[%s entry %s] %w", os.name, ep.Name, err)
				}
				return nil
			}) {
				return
			}
		}
	}
	return "", ""
}

func C08(c *run.Ctx) int {
	replayWitnesses(c, map[string]func(witness) string{"accept": witnessAccept})
	n := c.N(1500, 20000)
	c.Each(n, func(i int) (string, run.Outcome) {
		seed := run.CaseSeed(c.Seed, "accept", i)
		cfg := wgen.Config{Off: wgen.SafeOff()}
		// C08 does not execute anything, so constructs whose only known problem is wrong *behaviour* stay switched on here
		for _, g := range []string{"var-noinit-in-loop", "private.implicit-init", "decl.var-noinit", "shift.raw", "clamp.int-unordered", "bits.unclamped-range", "f2i.raw",
			"attr.align.nested", "fn.countLeadingZeros", "fn.countTrailingZeros", "fn.abs.u32", "const.module-vec", "op.%.f32", "let.composite-load", "abstract.neg-neg", "index.dynamic-on-value"} {
			delete(cfg.Off, g)
		}
		if i%3 == 0 {
			cfg.Entries = 2 + i%2
		}
		prog := cases.Generate(seed, cfg)
		if i%2 == 1 {
			// half of the programs additionally get locals / parameters that shadow module-scope names (valid WGSL)
			if _, nren := wgen.ShadowEdit(prog.M, run.NewRng(seed^0x5AD0), 2); nren > 0 {
				prog.Feat["edit.shadow-rename"] = true
			}
		}
		return fmt.Sprintf("prog-%d", i), c08Eval(c, prog)
	})
	return c.Finish("generated valid WGSL compute modules (validity by construction; constructs hitting a listed known finding gated off) pushed through parse, lower, validate, the one-call API and every backend under several option sets; "+
		"any error value or panic is a violation; distinct = distinct generator feature sets; non-trivial = every stage and backend was reached",
		[]string{"validity of the generated programs rests on the generator's construction rules (type-directed, const-expressions pre-evaluated by wref, alias/uniformity rules respected)"})
}

func c08Eval(c *run.Ctx, prog *wgen.Program) run.Outcome {
	src := wgen.Print(prog.M).Src
	cov := map[string]int{}
	stage, msg := acceptAll(src, !c.Quick(), cov)
	if msg != "" {
		o := run.Outcome{V: run.Violated, Class: "rejected:" + stage + ":" + normErr(msg), Reason: stage + ": " + msg, Witness: map[string]any{"wgsl": src}}
		if c.TakeReduceSlot() {
			class := o.Class
			wgen.Reduce(prog.M, func() bool {
				s2, m2 := acceptAll(wgen.Print(prog.M).Src, !c.Quick(), map[string]int{})
				return m2 != "" && "rejected:"+s2+":"+normErr(m2) == class
			}, 6)
			o.Witness["wgsl"] = wgen.Print(prog.M).Src
			o.Witness["reduced"] = true
		}
		return o
	}
	return run.Outcome{V: run.Held, Sig: cases.FeatureSig(cases.FeatKeys(prog.Feat)), Cov: cov, Sample: map[string]any{"wgsl": src}}
}
