package checks

import (
	"fmt"

	"github.com/gogpu/naga/glsl"
	"github.com/gogpu/naga/hlsl"
	"github.com/gogpu/naga/msl"
)

type hlslOpt struct {
	name string
	o    func() *hlsl.Options
}
type mslOpt struct {
	name string
	o    func() msl.Options
}
type glslOpt struct {
	name string
	o    func() glsl.Options
}

func hlslOptionSets(thorough bool) []hlslOpt {
	mk := func(sm hlsl.ShaderModel, restrict, zero, loop bool) hlslOpt {
		return hlslOpt{fmt.Sprintf("sm%d/restrict=%v/zeroinit=%v/loopbound=%v", sm, restrict, zero, loop), func() *hlsl.Options {
			o := hlsl.DefaultOptions()
			o.ShaderModel = sm
			o.RestrictIndexing = restrict
			o.ZeroInitializeWorkgroupMemory = zero
			o.ForceLoopBounding = loop
			o.FakeMissingBindings = true
			return o
		}}
	}
	out := []hlslOpt{mk(hlsl.ShaderModel5_1, true, true, true), mk(hlsl.ShaderModel6_0, false, true, false), mk(hlsl.ShaderModel6_6, true, true, true)}
	if thorough {
		out = append(out, mk(hlsl.ShaderModel5_0, false, true, false), mk(hlsl.ShaderModel6_2, true, true, false), mk(hlsl.ShaderModel6_5, false, true, true))
	}
	return out
}

func mslOptionSets(thorough bool) []mslOpt {
	mk := func(v msl.Version, pol msl.BoundsCheckPolicy, zero, loop bool) mslOpt {
		return mslOpt{fmt.Sprintf("msl%s/policy=%d/zeroinit=%v/loopbound=%v", v, pol, zero, loop), func() msl.Options {
			o := msl.DefaultOptions()
			o.LangVersion = v
			o.BoundsCheckPolicies = msl.BoundsCheckPolicies{Index: pol, Buffer: pol, Image: pol, BindingArray: pol}
			o.ZeroInitializeWorkgroupMemory = zero
			o.ForceLoopBounding = loop
			o.FakeMissingBindings = true
			return o
		}}
	}
	// split policies: buffers (storage / uniform address spaces) protected, everything else unchecked
	mkSplit := func(v msl.Version, buf msl.BoundsCheckPolicy) mslOpt {
		return mslOpt{fmt.Sprintf("msl%s/policy=0+buffer=%d/zeroinit=true/loopbound=true", v, buf), func() msl.Options {
			o := msl.DefaultOptions()
			o.LangVersion = v
			o.BoundsCheckPolicies = msl.BoundsCheckPolicies{Index: msl.BoundsCheckUnchecked, Buffer: buf, Image: buf, BindingArray: msl.BoundsCheckUnchecked}
			o.ZeroInitializeWorkgroupMemory = true
			o.ForceLoopBounding = true
			o.FakeMissingBindings = true
			return o
		}}
	}
	out := []mslOpt{mk(msl.Version2_0, msl.BoundsCheckUnchecked, true, true), mk(msl.Version2_4, msl.BoundsCheckRestrict, true, false), mk(msl.Version3_1, msl.BoundsCheckReadZeroSkipWrite, true, true),
		mkSplit(msl.Version2_4, msl.BoundsCheckReadZeroSkipWrite), mkSplit(msl.Version3_1, msl.BoundsCheckRestrict)}
	if thorough {
		out = append(out, mk(msl.Version1_2, msl.BoundsCheckUnchecked, true, false), mk(msl.Version2_1, msl.BoundsCheckReadZeroSkipWrite, true, true), mk(msl.Version3_0, msl.BoundsCheckRestrict, true, true))
	}
	return out
}

func glslOptionSets(thorough bool) []glslOpt {
	mk := func(v glsl.Version, flags glsl.WriterFlags) glslOpt {
		return glslOpt{fmt.Sprintf("glsl%s/flags=%d", v, flags), func() glsl.Options {
			o := glsl.DefaultOptions()
			o.LangVersion = v
			o.WriterFlags = flags
			return o
		}}
	}
	out := []glslOpt{mk(glsl.Version{Major: 4, Minor: 50}, 0), mk(glsl.Version{Major: 3, Minor: 10, ES: true}, 0), mk(glsl.Version{Major: 4, Minor: 30}, glsl.WriterFlagExplicitTypes)}
	if thorough {
		out = append(out, mk(glsl.Version{Major: 4, Minor: 60}, 0), mk(glsl.Version{Major: 3, Minor: 20, ES: true}, glsl.WriterFlagExplicitTypes), mk(glsl.Version{Major: 4, Minor: 40}, 0))
	}
	return out
}
