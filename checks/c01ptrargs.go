package checks

import (
	"encoding/binary"
	"fmt"
	"strings"

	"github.com/gogpu/naga"
	"github.com/gogpu/naga/spirv"
	"verif/internal/run"
	"verif/internal/spvx"
	"verif/internal/xrt"
)

// c01PtrArgs: calls that pass several pointers into function-space variables at once - whole variables, array
// elements (constant and run-time index) and struct members, with identical pointee types and pairwise different
// root variables (WGSL's alias rule) - to helpers that read and write through all of them. The expected memory image
// is computed here from the WGSL meaning of the call; every combination is run through SPIR-V (three versions) and the
// three text backends.
func c01PtrArgs(c *run.Ctx, lanes []string) {
	type place struct {
		root, expr string
		get        func(st *[14]uint32) *uint32
	}
	var places []place
	for i := 0; i < 4; i++ {
		i := i
		places = append(places, place{"a", fmt.Sprintf("&a[%d]", i), func(st *[14]uint32) *uint32 { return &st[i] }})
		places = append(places, place{"b", fmt.Sprintf("&b[%du]", i), func(st *[14]uint32) *uint32 { return &st[4+i] }})
	}
	places = append(places,
		place{"a", "&a[one]", func(st *[14]uint32) *uint32 { return &st[1] }},
		place{"b", "&b[one + 2u]", func(st *[14]uint32) *uint32 { return &st[7] }},
		place{"s", "&s.a", func(st *[14]uint32) *uint32 { return &st[8] }},
		place{"s", "&s.b", func(st *[14]uint32) *uint32 { return &st[9] }},
		place{"t", "&t.a", func(st *[14]uint32) *uint32 { return &st[10] }},
		place{"t", "&t.b", func(st *[14]uint32) *uint32 { return &st[11] }},
		place{"x", "&x", func(st *[14]uint32) *uint32 { return &st[12] }},
		place{"y", "&y", func(st *[14]uint32) *uint32 { return &st[13] }},
	)
	type tcase struct{ idx []int }
	var tcs []tcase
	for i := range places {
		for j := range places {
			if places[i].root == places[j].root {
				continue
			}
			tcs = append(tcs, tcase{[]int{i, j}})
			for k := range places {
				if places[k].root != places[i].root && places[k].root != places[j].root && (i+j+k)%5 == 0 {
					tcs = append(tcs, tcase{[]int{i, j, k}})
				}
			}
		}
	}
	r0 := run.NewRng(run.CaseSeed(c.Seed, "c01-ptr-args", 0))
	for k := len(tcs) - 1; k > 0; k-- {
		j := r0.Intn(k + 1)
		tcs[k], tcs[j] = tcs[j], tcs[k]
	}
	n := c.N(120, len(tcs))
	if n > len(tcs) {
		n = len(tcs)
	}
	c.Each(n, func(ti int) (string, run.Outcome) {
		tc := tcs[ti]
		var args []string
		for _, k := range tc.idx {
			args = append(args, places[k].expr)
		}
		call := fmt.Sprintf("sw%d(%s);", len(tc.idx), strings.Join(args, ", "))
		id := "ptr-args " + call
		src := `struct S { a: u32, b: u32, v: vec2<u32>, }
@group(0) @binding(0) var<storage, read_write> o: array<u32, 32>;
fn sw2(p: ptr<function, u32>, q: ptr<function, u32>) { let t = *p; *p = *q + 1u; *q = t + 2u; }
fn sw3(p: ptr<function, u32>, q: ptr<function, u32>, r: ptr<function, u32>) { let t = *p; *p = *q + 1u; *q = *r + 2u; *r = t + 3u; }
@compute @workgroup_size(1) fn main() {
    let one = o[31] + 1u;
    var a = array<u32, 4>(10u, 20u, 30u, 40u);
    var b = array<u32, 4>(50u, 60u, 70u, 80u);
    var s = S(1u, 2u, vec2<u32>(3u, 4u));
    var t = S(5u, 6u, vec2<u32>(7u, 8u));
    var x = 100u;
    var y = 200u;
    ` + call + `
    for (var i = 0u; i < 4u; i++) { o[i] = a[i]; o[4u + i] = b[i]; }
    o[8] = s.a; o[9] = s.b; o[10] = t.a; o[11] = t.b; o[12] = x; o[13] = y;
}
`
		st := [14]uint32{10, 20, 30, 40, 50, 60, 70, 80, 1, 2, 5, 6, 100, 200}
		ps := make([]*uint32, len(tc.idx))
		for k, pi := range tc.idx {
			ps[k] = places[pi].get(&st)
		}
		if len(ps) == 2 {
			t := *ps[0]
			*ps[0] = *ps[1] + 1
			*ps[1] = t + 2
		} else {
			t := *ps[0]
			*ps[0] = *ps[1] + 1
			*ps[1] = *ps[2] + 2
			*ps[2] = t + 3
		}
		mod, stage, err := lowerSrc(src)
		w := map[string]any{"wgsl": src, "call": call}
		if err != nil {
			o := run.Outcome{V: run.Violated, Class: "ptr-args:rejected", Reason: id + ": " + stage + ": " + oneLine(err.Error()), Witness: w}
			if c.KnownMatch(o.Class, o.Reason) {
				return id, run.Outcome{V: run.Held, Sig: "known:ptr-args:rejected", Trivial: true, Cov: map[string]int{"known-finding-instances": 1}}
			}
			return id, o
		}
		cov := map[string]int{}
		var first *run.Outcome
		report := func(lane, class, msg string, extra map[string]any) {
			ww := map[string]any{"lane": lane}
			for k, v := range w {
				ww[k] = v
			}
			for k, v := range extra {
				ww[k] = v
			}
			o := c16Viol(c, "ptr-args:"+lane+":"+class, id+": "+msg, ww, "")
			if o.V == run.Violated && first == nil {
				first = &o
			} else if o.V != run.Violated {
				cov["known-finding-instances:ptr-args:"+lane+":"+class]++
			}
		}
		check := func(lane string, buf []byte, extra map[string]any) {
			for k, want := range st {
				if got := binary.LittleEndian.Uint32(buf[4*k:]); got != want {
					report(lane, "value", fmt.Sprintf("[%s] o[%d] = %d, WGSL prescribes %d", lane, k, got, want), extra)
					return
				}
			}
			cov["ptr-args:"+lane+":ok"]++
		}
		for _, lane := range lanes {
			switch lane {
			case "spirv":
				for _, v := range []struct {
					name string
					ver  spirv.Version
				}{{"v1.0", spirv.Version1_0}, {"v1.3", spirv.Version1_3}, {"v1.5", spirv.Version1_5}} {
					ln := "spirv/" + v.name
					bin, err := naga.GenerateSPIRV(mod, spirv.Options{Version: v.ver})
					if err != nil {
						report(ln, "backend-error", oneLine(err.Error()), nil)
						continue
					}
					sm, err := spvx.Parse(bin)
					if err != nil {
						report(ln, "parse", oneLine(err.Error()), nil)
						continue
					}
					bufs := xrt.Buffers{xrt.Slot{A: 0, B: 0}: make([]byte, 128)}
					res, err := spvx.Run(sm, "main", bufs, xrt.Options{TrapMode: true})
					if err != nil {
						if isUnsupported(err) {
							cov["unsupported:"+ln]++
							continue
						}
						report(ln, "exec-error", oneLine(err.Error()), nil)
						continue
					}
					if len(res.Traps) > 0 {
						report(ln, "trap:"+string(res.Traps[0].Kind), oneLine(res.Traps[0].Error()), nil)
						continue
					}
					check(ln, bufs[xrt.Slot{}], nil)
				}
			default:
				var be textBackend
				for _, b := range []textBackend{hlslBackend, mslBackend, glslBackend} {
					if b.name == lane {
						be = b
					}
				}
				rs := resOfModule(mod)
				for k := range rs {
					rs[k].Image = make([]byte, 256)
				}
				var tr textRun
				if st, pan := run.Catch(func() { tr = be.run(mod, "main", rs, [3]uint32{1, 1, 1}, false, 0, true) }); pan {
					report(lane, "panic", oneLine(st[:min(200, len(st))]), nil)
					continue
				}
				extra := map[string]any{"emitted": tr.text}
				switch {
				case tr.err != nil:
					report(lane, "backend-error", oneLine(tr.err.Error()), extra)
				case tr.parse != nil || len(tr.static) > 0 || (tr.runErr != nil && isUnsupported(tr.runErr)):
					cov["unsupported:"+lane]++
				case tr.runErr != nil:
					report(lane, "exec-error", oneLine(tr.runErr.Error()), extra)
				case len(tr.traps) > 0:
					report(lane, "trap:"+string(tr.traps[0].Kind), oneLine(tr.traps[0].Error()), extra)
				default:
					if b := tr.get(0); len(b) >= 128 {
						check(lane, b, extra)
					}
				}
			}
		}
		if first != nil {
			first.Cov = cov
			return id, *first
		}
		return id, run.Outcome{V: run.Held, Sig: id, Cov: cov, Sample: map[string]any{"call": call}}
	})
}
