// Package checks wires engines to verdicts, one file per property.
package checks

import (
	"verif/internal/run"
)

type Check struct {
	ID   string
	Run  func(c *run.Ctx) int
	Rule string
}

var Registry = map[string]func(c *run.Ctx) int{}

func register(id string, f func(c *run.Ctx) int) { Registry[id] = f }
