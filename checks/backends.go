package checks

import (
	"fmt"

	"github.com/gogpu/naga"
	"github.com/gogpu/naga/glsl"
	"github.com/gogpu/naga/hlsl"
	"github.com/gogpu/naga/msl"
	"github.com/gogpu/naga/spirv"
)

type acceptBackend struct {
	name    string
	compile func(m *irModule) error
}

// acceptBackends: default option set of every backend (used by witnesses and C08).
var acceptBackends = []acceptBackend{
	{"spirv", func(m *irModule) error {
		_, err := naga.GenerateSPIRV(m, spirv.Options{Version: spirv.Version1_3})
		return err
	}},
	{"hlsl", func(m *irModule) error { _, _, err := hlsl.Compile(m, hlsl.DefaultOptions()); return err }},
	{"msl", func(m *irModule) error { _, _, err := msl.Compile(m, msl.DefaultOptions()); return err }},
	{"glsl", func(m *irModule) error {
		for _, ep := range m.EntryPoints {
			o := glsl.DefaultOptions()
			o.LangVersion = glsl.Version{Major: 4, Minor: 50}
			o.EntryPoint = ep.Name
			if _, _, err := glsl.Compile(m, o); err != nil {
				return fmt.Errorf("entry %s: %w", ep.Name, err)
			}
		}
		return nil
	}},
}
