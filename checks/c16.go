package checks

import (
	"encoding/binary"
	"fmt"
	"sort"
	"strings"

	"verif/internal/cases"
	"verif/internal/glslx"
	"verif/internal/hlslx"
	"verif/internal/mslx"
	"verif/internal/run"
	"verif/internal/wgen"
	"verif/internal/xrt"
)

func init() { register("C16", C16) }

// wgslTaken: words that cannot be (or that this check does not want as) user identifiers in the WGSL source:
// WGSL keywords, reserved words, and the predeclared names the templates and the generator rely on.
var wgslTaken = func() map[string]bool {
	m := map[string]bool{}
	for _, w := range strings.Fields(`
alias break case const const_assert continue continuing default diagnostic discard else enable false fn for if let loop
override requires return struct switch true var while
NULL Self abstract active alignas alignof as asm asm_fragment async attribute auto await become binding_array cast catch
class co_await co_return co_yield coherent column_major common compile compile_fragment concept const_cast consteval
constexpr constinit crate debugger decltype delete demote demote_to_helper do dynamic_cast enum explicit export extends
extern external fallthrough filter final finally friend from fxgroup get goto groupshared highp impl implements import
inline instanceof interface layout lowp macro macro_rules match mediump meta mod module move mut mutable namespace new
nil noexcept noinline nointerpolation non_coherent noncoherent noperspective null nullptr of operator package packoffset
partition pass patch pixelfragment precise precision premerge priv protected pub public readonly ref regardless register
reinterpret_cast require resource restrict self set shared sizeof smooth snorm static static_assert static_cast std
subroutine super target template this thread_local throw trait try type typedef typeid typename typeof union unless unorm
unsafe unsized use using varying virtual volatile wgsl where with writeonly yield
bool f16 f32 i32 u32 i64 u64 f64 vec2 vec3 vec4 mat2x2 mat2x3 mat2x4 mat3x2 mat3x3 mat3x4 mat4x2 mat4x3 mat4x4 array atomic ptr
sampler sampler_comparison texture_1d texture_2d texture_2d_array texture_3d texture_cube texture_cube_array
texture_multisampled_2d texture_storage_1d texture_storage_2d texture_storage_2d_array texture_storage_3d
texture_depth_2d texture_depth_2d_array texture_depth_cube texture_depth_cube_array texture_depth_multisampled_2d
vec2i vec3i vec4i vec2u vec3u vec4u vec2f vec3f vec4f vec2h vec3h vec4h
mat2x2f mat2x3f mat2x4f mat3x2f mat3x3f mat3x4f mat4x2f mat4x3f mat4x4f mat2x2h mat2x3h mat2x4h mat3x2h mat3x3h mat3x4h mat4x2h mat4x3h mat4x4h
read write read_write function private workgroup uniform storage
abs acos acosh all any arrayLength asin asinh atan atan2 atanh atomicAdd atomicAnd atomicCompareExchangeWeak atomicExchange
atomicLoad atomicMax atomicMin atomicOr atomicStore atomicSub atomicXor bitcast ceil clamp cos cosh countLeadingZeros
countOneBits countTrailingZeros cross degrees determinant distance dot dot4I8Packed dot4U8Packed dpdx dpdy exp exp2 extractBits
faceForward firstLeadingBit firstTrailingBit floor fma fract frexp fwidth insertBits inverseSqrt ldexp length log log2 max min
mix modf normalize pack2x16float pack2x16snorm pack2x16unorm pack4x8snorm pack4x8unorm pow quantizeToF16 radians reflect
refract reverseBits round saturate select sign sin sinh smoothstep sqrt step storageBarrier tan tanh textureLoad textureSample
textureStore transpose trunc unpack2x16float unpack2x16snorm unpack2x16unorm unpack4x8snorm unpack4x8unorm workgroupBarrier
workgroupUniformLoad _
`) {
		m[w] = true
	}
	return m
}()

// nagaHelperNames: spellings of helpers, temporaries and generated declarations seen in naga's own output.
var nagaHelperNames = strings.Fields(`
naga_div naga_mod naga_neg naga_abs naga_f2i32 naga_f2u32 naga_f2i64 naga_f2u64 naga_modf naga_frexp naga_dot_int2 naga_dot_int3
naga_dot_int4 naga_extractBits naga_insertBits naga_mod_f naga_ldexp naga_select
_e0 _e1 _e2 _e3 _e4 _e5 _e6 _e7 _e8 _e9 _e10 _e11 _e12 _e20 _e30 _e100 e1 _expr1 _expr2
type_1 type_2 type_3 type_4 type_5 type_10 type local local_1 local_2 loop_bound loop_init loop_init_1 main main_ main_1 main0
gl_Position gl_GlobalInvocationID gl_LocalInvocationID gl_LocalInvocationIndex gl_WorkGroupID gl_NumWorkGroups gl_FragCoord gl_VertexID
metal simd DefaultConstructible _mslBufferSizes _buffer_sizes size0 size1 size2 NagaConstants _NagaConstants first_vertex first_instance other
ret ret_Constructarray8_float_ Constructarray8_float_ ConstructS_ ret_ZeroValuearray8_float_ ZeroValuearray8_float_ _value _value1 _value2 _result _tmp
_pad0_0 _pad1_0 _pad3_0 _end_pad_0 _end_pad_1 inner member unnamed _unnamed arg0 arg1 arg2 _arg0 result param param_1 input output in_ out_
_group_0_binding_0_cs _group_0_binding_0_vs _group_0_binding_0_fs _group_0_binding_1_cs block_0Compute type_2_block_0Compute
num_workgroups _num_workgroups thread_position_in_grid thread_index_in_threadgroup threadgroup_position_in_grid SV_DispatchThreadID SV_GroupIndex
__local __global __dirname u0394_x u00e9_ Outer_ a_ a__ a_1 a_1_ a1 a_2 ray___dir a___b x____y t___ q__r__s m_____n
`)

var unicodeNames = []string{"Δx", "é", "変数", "ß", "ñandú", "Ωmega", "πr2", "über", "λ", "наме", "x̂"}

// c16Pool builds the adversarial name pool (deterministic order).
func c16Pool() []string {
	seen := map[string]bool{}
	var out []string
	add := func(w string) {
		if w == "" || seen[w] || wgslTaken[w] || strings.HasPrefix(w, "__") {
			return
		}
		for _, u := range []string{"HullShader", "ConstantBuffer", "TextureBuffer", "RasterizerOrdered", "RaytracingAccelerationStructure", "RayQuery", "RayDesc"} {
			if strings.HasPrefix(w, u) {
				return // newer DXC object types: whether they are unusable as identifiers depends on the compiler; nothing about them could be judged
			}
		}
		for i, ch := range w {
			ok := ch == '_' || (ch >= 'a' && ch <= 'z') || (ch >= 'A' && ch <= 'Z') || (i > 0 && ch >= '0' && ch <= '9') || ch > 127
			if !ok {
				return
			}
		}
		seen[w] = true
		out = append(out, w)
	}
	var base []string
	base = append(base, hlslx.AdversarialWords()...)
	base = append(base, mslx.AdversarialWords()...)
	base = append(base, glslx.AdversarialWords()...)
	base = append(base, nagaHelperNames...)
	base = append(base, unicodeNames...)
	sort.Strings(base)
	for _, w := range base {
		add(w)
	}
	// variants differing only in case, trailing digit or underscore of a sample of the words
	for i, w := range base {
		if i%7 != 0 {
			continue
		}
		add(strings.ToUpper(w))
		add(strings.ToLower(w))
		add(strings.Title(w))
		add(w + "_")
		add(w + "_1")
		add(w + "1")
		add("_" + w)
	}
	return out
}

var c16Kinds = []string{"type", "member", "function", "param", "local", "global", "const", "entry", "private", "let"}

// c16Template places name at the position kind; every other identifier is neutral. The body uses signed division,
// remainder, negation, abs and a float->int conversion so that the backends' helper functions are emitted. With the
// 0,1,2,.. pattern buffer (p = o[1] = 1): l = 4, t = (4,2), g = 4, s = -4/2 = -2,
// f = 4 + 2 + u32(2) % 3 + u32(1.5) + u32(abs(-2)) = 4+2+2+1+2 = 11 and the entry point stores 12.
const c16Expected = 12

func c16Template(kind, name string) (src, entry string) {
	return c16TemplateN(map[string]string{kind: name})
}

// c16TemplateN: the template with several positions renamed at once (pairs of names that may collide after escaping).
func c16TemplateN(names map[string]string) (src, entry string) {
	n := map[string]string{"type": "Tq", "member": "mq", "function": "fq", "param": "pq", "local": "lq", "global": "oq", "const": "Cq", "entry": "eq", "private": "gq", "let": "tq"}
	for k, v := range names {
		n[k] = v
	}
	src = fmt.Sprintf(`struct %[1]s { %[2]s: u32, nq: u32, }
const %[7]s: u32 = 3u;
var<private> %[9]s: u32;
@group(0) @binding(0) var<storage, read_write> %[6]s: array<u32, 16>;
fn %[3]s(%[4]s: u32) -> u32 {
    var %[5]s: u32 = %[4]s + %[7]s;
    let %[10]s = %[1]s(%[5]s, 2u);
    %[9]s = %[10]s.%[2]s;
    let sq: i32 = (-i32(%[9]s)) / i32(%[10]s.nq);
    return %[9]s + %[10]s.nq + u32(-sq) %% 3u + u32(f32(%[4]s) * 1.5) + u32(abs(sq));
}
@compute @workgroup_size(1)
fn %[8]s() {
    %[6]s[0] = %[3]s(%[6]s[1]) + 1u;
}
`, n["type"], n["member"], n["function"], n["param"], n["local"], n["global"], n["const"], n["entry"], n["private"], n["let"])
	return src, n["entry"]
}

var c16Backends = []textBackend{hlslBackend, mslBackend, glslBackend}

func C16(c *run.Ctx) int {
	replayWitnesses(c, map[string]func(witness) string{"exec-msl": witnessExecText(mslBackend), "exec-hlsl": witnessExecText(hlslBackend), "exec-glsl": witnessExecText(glslBackend), "exec-spirv": witnessExecSpirv})
	pool := c16Pool()
	c.SetExtra("name_pool", len(pool))
	// (1) every (word, position) pair of a PRNG-determined slice of the pool x 3 backends
	type tcase struct{ word, kind string }
	var tcs []tcase
	r0 := run.NewRng(run.CaseSeed(c.Seed, "c16-templates", 0))
	for _, w := range pool {
		for _, k := range c16Kinds {
			tcs = append(tcs, tcase{w, k})
		}
	}
	// deterministic shuffle, then a tier-sized prefix (thorough: everything)
	for i := len(tcs) - 1; i > 0; i-- {
		j := r0.Intn(i + 1)
		tcs[i], tcs[j] = tcs[j], tcs[i]
	}
	nT := c.N(4000, len(tcs))
	if nT > len(tcs) {
		nT = len(tcs)
	}
	c.Each(nT, func(i int) (string, run.Outcome) {
		tc := tcs[i]
		id := fmt.Sprintf("template %s=%q", tc.kind, tc.word)
		return id, c16TemplateCase(c, id, tc.kind, tc.word)
	})
	// (1b) pairs: a Unicode name and the ASCII spellings of its escape, in two positions of one module
	pairs := c16Pairs()
	type pcase struct {
		p  [2]string
		kk [2]string
	}
	var pcs []pcase
	for _, p := range pairs {
		for _, kk := range c16PairKinds {
			pcs = append(pcs, pcase{p, kk})
		}
	}
	for i := len(pcs) - 1; i > 0; i-- {
		j := r0.Intn(i + 1)
		pcs[i], pcs[j] = pcs[j], pcs[i]
	}
	nPair := c.N(1200, len(pcs))
	if nPair > len(pcs) {
		nPair = len(pcs)
	}
	c.SetExtra("escape_pairs", len(pcs))
	c.Each(nPair, func(i int) (string, run.Outcome) {
		pc := pcs[i]
		id := fmt.Sprintf("pair %s=%q %s=%q", pc.kk[0], pc.p[0], pc.kk[1], pc.p[1])
		src, entry := c16TemplateN(map[string]string{pc.kk[0]: pc.p[0], pc.kk[1]: pc.p[1]})
		o := c16TemplateSrc(c, id, pc.kk[0]+"+"+pc.kk[1], pc.p[0], src, entry)
		if o.V == run.Held {
			o.Sig = id
			o.Trivial = false
			if o.Cov == nil {
				o.Cov = map[string]int{}
			}
			o.Cov["escape-pairs"]++
		}
		return id, o
	})
	// (2) adversarial injective renamings of generated programs
	nP := c.N(240, 4000)
	nIn := c.N(1, 2)
	c.Each(nP, func(i int) (string, run.Outcome) {
		seed := run.CaseSeed(c.Seed, "rename", i)
		be := c16Backends[i%len(c16Backends)]
		id := fmt.Sprintf("%s-renamed-prog-%d", be.name, i)
		prog := cases.Generate(seed, be.cfg())
		r := run.NewRng(seed ^ 0xC16)
		used := map[string]bool{}
		moduleNames := map[string]bool{}
		pick := func() string {
			for try := 0; try < 50; try++ {
				w := pool[r.Intn(len(pool))]
				if !used[w] && !c16ListedWord(w) {
					used[w] = true
					return w
				}
			}
			for k := 0; ; k++ {
				w := fmt.Sprintf("%s_%d", pool[r.Intn(len(pool))], k)
				if !used[w] && !wgslTaken[w] {
					used[w] = true
					return w
				}
			}
		}
		memberNames := map[string]string{}
		mapping := map[string]string{}
		wgen.RenameAll(prog.M, func(kind, old string) string {
			switch kind {
			case "member":
				// members live in their struct's namespace: reuse one adversarial word for all members with the same old name
				if n, ok := memberNames[old]; ok {
					return n
				}
				n := pick()
				memberNames[old] = n
				return n
			}
			n := pick()
			if kind != "param" && kind != "local" {
				moduleNames[n] = true
			}
			mapping[old] = n
			return n
		})
		o := textDiffEval(c, be, id, prog, seed, nIn)
		if o.V == run.Violated && (o.Class == "static:"+string(xrt.TrapReserved) || o.Class == "emitted-text-invalid") && c16Uncertain(be.name, o.Reason, "") {
			return id, run.Outcome{V: run.Inconclusive, Reason: "uncertain reserved word (not judged): " + o.Reason}
		}
		if o.V == run.Violated {
			o.Class = be.name + ":" + o.Class
			o = c15Attr(c, o)
		}
		if o.Cov != nil {
			o.Cov["renamed-programs:"+be.name]++
			o.Cov["renamed-entities"] += len(mapping) + len(memberNames)
		}
		return id, o
	})
	return c.Finish(fmt.Sprintf("(1) every (word, position) pair drawn from a pool of %d adversarial names (reserved words, type names, intrinsics and library functions of HLSL, MSL/C++14 and GLSL taken from the interpreters' own specification tables; spellings of naga's helpers and temporaries; case / trailing-digit / underscore variants; Unicode identifiers and their escaped spellings) placed as type, member, function, parameter, local, let, module variable, constant and entry-point name in a template whose result is known; (1b) a Unicode identifier and the ASCII spellings of its escape (u03b8, d_u03b8, with trailing underscore / digit) in two positions of the same template; (2) injective adversarial renamings of generated programs; "+
		"every output of the HLSL, MSL and GLSL backends is parsed and scope-resolved by the independent interpreter (reserved identifier, redeclaration in one scope, unresolved or mis-typed reference are static traps), the entry point is looked up through TranslationInfo.EntryPointNames, and the program is executed and compared with the expected result / the wref reference (a reference bound to the wrong entity changes the result); "+
		"distinct = distinct (word, position) pairs resp. (backend, generator features); non-trivial = the name is not already a plain non-reserved identifier in all three targets (template part) / an output leaf changed and was compared (program part)", len(pool)),
		[]string{"the reserved-word tables are the interpreters' own (written from the language specifications), not naga's", "a name the WGSL front end itself rejects is inconclusive here (front-end territory)"})
}

func c16TemplateCase(c *run.Ctx, id, kind, word string) run.Outcome {
	src, entry := c16Template(kind, word)
	return c16TemplateSrc(c, id, kind, word, src, entry)
}

// c16Pairs: a Unicode identifier together with ASCII identifiers that spell what a backend's escaping may turn it into
// (u03b8, d_u03b8, with and without trailing underscore / digit), in two positions of the same module: two distinct
// WGSL entities must stay distinct in the output.
func c16Pairs() [][2]string {
	var out [][2]string
	for _, u := range []string{"θ", "dθ", "Δ", "xΔ", "é", "aé", "変", "v変", "λ", "nλ", "ß", "aß", "θθ", "dθ1"} {
		rs := []rune(u)
		var esc []string
		ascii := ""
		for _, ch := range rs {
			if ch < 128 {
				ascii += string(ch)
				continue
			}
			esc = append(esc, fmt.Sprintf("u%04x", ch))
		}
		forms := map[string]bool{}
		e := strings.Join(esc, "_")
		e2 := strings.Join(esc, "")
		for _, body := range []string{e, e2, strings.ToUpper(e), "_" + e} {
			for _, pre := range []string{ascii, ascii + "_"} {
				if ascii == "" && pre == "_" {
					continue
				}
				for _, suf := range []string{"", "_", "_1", "1"} {
					w := pre + body + suf
					if w != "" && w[0] != '_' && !(w[0] >= '0' && w[0] <= '9') {
						forms[w] = true
					}
				}
			}
		}
		var fl []string
		for w := range forms {
			fl = append(fl, w)
		}
		sort.Strings(fl)
		for _, w := range fl {
			out = append(out, [2]string{u, w})
		}
	}
	return out
}

var c16PairKinds = [][2]string{{"local", "let"}, {"let", "local"}, {"function", "private"}, {"private", "function"}, {"type", "const"}, {"param", "local"}, {"global", "function"}, {"const", "private"}}

func c16TemplateSrc(c *run.Ctx, id, kind, word, src, entry string) run.Outcome {
	mod, stage, err := lowerSrc(src)
	if err != nil {
		return run.Outcome{V: run.Inconclusive, Reason: "front end rejected the name (C08 territory): " + stage + ": " + oneLine(err.Error())}
	}
	cov := map[string]int{}
	w := map[string]any{"wgsl": src, "kind": kind, "word": word}
	reservedSomewhere := false
	for _, be := range c16Backends {
		rs := resOfModule(mod)
		var tr textRun
		if st, pan := run.Catch(func() { tr = be.run(mod, entry, rs, [3]uint32{1, 1, 1}, false, 0, true) }); pan {
			return c16Viol(c, be.name+":panic", id+": "+oneLine(st[:min(200, len(st))]), w, "")
		}
		w2 := map[string]any{"emitted": tr.text}
		for k, v := range w {
			w2[k] = v
		}
		switch {
		case tr.err != nil:
			if o := c16Viol(c, be.name+":backend-error", id+": "+oneLine(tr.err.Error()), w2, ""); o.V == run.Violated {
				return o
			}
			continue
		case tr.parse != nil && isUnsupported(tr.parse):
			cov["unsupported:"+be.name]++
			continue
		case tr.parse != nil && c16Uncertain(be.name, tr.parse.Error(), word):
			cov["uncertain-reserved-word(not judged):"+be.name]++
			continue
		case tr.parse != nil:
			if o := c16Viol(c, be.name+":emitted-text-invalid", id+": "+oneLine(tr.parse.Error()), w2, tr.text); o.V == run.Violated {
				return o
			}
			continue
		}
		if len(tr.static) > 0 && tr.static[0].Kind == xrt.TrapReserved && c16Uncertain(be.name, tr.static[0].Error(), word) {
			cov["uncertain-reserved-word(not judged):"+be.name]++
			continue
		}
		if len(tr.static) > 0 {
			t := tr.static[0]
			if o := c16Viol(c, be.name+":static:"+string(t.Kind), id+": "+oneLineN(t.Error(), 400)+emittedLine(tr.text, t.Error()), w2, ""); o.V == run.Violated {
				return o
			}
			continue
		}
		if tr.runErr != nil {
			if isUnsupported(tr.runErr) {
				cov["unsupported:"+be.name]++
				continue
			}
			if o := c16Viol(c, be.name+":entry-or-exec-error", id+": "+oneLine(tr.runErr.Error()), w2, ""); o.V == run.Violated {
				return o
			}
			continue
		}
		got := uint32(0xFFFFFFFF)
		if b := tr.get(0); len(b) >= 4 {
			got = binary.LittleEndian.Uint32(b)
		}
		if got != c16Expected || len(tr.traps) > 0 {
			if o := c16Viol(c, be.name+":result-mismatch", fmt.Sprintf("%s: o[0] = %d, expected 12 (traps %v)", id, got, tr.traps), w2, ""); o.V == run.Violated {
				return o
			}
			continue
		}
		// was the word spelled differently in the output? (observational: shows the renamer acted)
		if !containsIdent(tr.text, word) {
			cov["respelled:"+be.name]++
			reservedSomewhere = true
		}
		cov["ok:"+be.name]++
		for _, d := range tr.decls {
			_ = d
		}
	}
	return run.Outcome{V: run.Held, Sig: "template " + kind + " " + word, Trivial: !reservedSomewhere, Cov: cov, Sample: map[string]any{"kind": kind, "word": word, "wgsl": src}}
}

func c16Viol(c *run.Ctx, class, reason string, w map[string]any, _ string) run.Outcome {
	o := run.Outcome{V: run.Violated, Class: class, Reason: reason, Witness: w}
	if c.KnownMatch(class, reason) {
		return run.Outcome{V: run.Held, Sig: "known:" + class, Trivial: true, Cov: map[string]int{"known-finding-instances:" + class: 1}}
	}
	return o
}

// containsIdent: word occurs in text as a whole identifier token.
func containsIdent(text, word string) bool {
	isID := func(b byte) bool {
		return b == '_' || (b >= 'a' && b <= 'z') || (b >= 'A' && b <= 'Z') || (b >= '0' && b <= '9') || b > 127
	}
	for i := 0; ; {
		j := strings.Index(text[i:], word)
		if j < 0 {
			return false
		}
		s := i + j
		e := s + len(word)
		if (s == 0 || !isID(text[s-1])) && (e >= len(text) || !isID(text[e])) {
			return true
		}
		i = s + 1
	}
}

var glsl460Only = func() map[string]bool {
	m := map[string]bool{"sampler": true, "samplerShadow": true}
	for _, pre := range []string{"", "i", "u"} {
		for _, d := range []string{"1D", "2D", "3D", "Cube", "2DRect", "Buffer", "2DMS", "1DArray", "2DArray", "CubeArray", "2DMSArray"} {
			m[pre+"texture"+d] = true
		}
		m[pre+"subpassInput"] = true
		m[pre+"subpassInputMS"] = true
	}
	return m
}()

// c16Uncertain: reserved-identifier reports this check does not count as violations, because whether the word is
// unusable depends on the compiler, language version or a using-directive the emitted text does not contain:
//
//	HLSL: intrinsic function names (user declarations hide them), the sized *_t type names (DXC / HLSL 2018 only),
//	      FXC's case-insensitive effect-framework tokens;
//	MSL:  names of metal:: types (the emitted text qualifies them and has no `using namespace metal`);
//	GLSL: keywords introduced by GLSL 4.60 (the emitted #version is lower), built-in function names.
func c16Uncertain(be, msg, word string) bool {
	switch be {
	case "hlsl":
		if strings.Contains(msg, "after type name buffer in expression") {
			// a user type named `buffer` is hidden by the parameter of naga's NagaBufferLength helper, which is legal;
			// the interpreter's parser cannot read an identifier that is both a type and a variable
			return true
		}
		if strings.Contains(msg, "intrinsic function name") || strings.Contains(msg, "case-insensitive") {
			return true
		}
		for _, w := range []string{"HullShader", "ConstantBuffer", "TextureBuffer", "RasterizerOrdered", "RaytracingAccelerationStructure", "RayQuery", "RayDesc"} {
			if strings.Contains(msg, `"`+w) {
				return true // newer object types / spellings not in the documented keyword appendix
			}
		}
		if strings.Contains(msg, "builtin type name") && strings.Contains(msg, "_t") {
			return true
		}
	case "msl":
		// the interpreter's parser reads names of metal:: templates (mesh, array, texture2d, ...) followed by '<' as a
		// template-id; the emitted text may use a user variable of that name in a comparison
		return strings.Contains(msg, "Metal built-in type nam") || strings.Contains(msg, "metal:: library function") || strings.Contains(msg, "template argument list")
	case "glsl":
		// identifiers containing "__" are reserved in GLSL (declaring one is not an error by itself, but the property asks
		// for non-reserved spellings and naga's sanitiser exists to collapse them), so they are judged
		if strings.Contains(msg, "built-in function name") {
			return true
		}
		for w := range glsl460Only {
			if strings.Contains(msg, `"`+w+`"`) || strings.Contains(msg, "type "+w+" ") {
				return true
			}
		}
		// the interpreter's parser reads extension type names (int64_t, f16vec2, ...) as types; plain GLSL does not
		if i := strings.Index(msg, "after type "); i >= 0 {
			f := strings.Fields(msg[i+len("after type "):])
			if len(f) > 0 && glslx.ExtensionTypeName(f[0]) {
				return true
			}
		}
		for _, f := range strings.FieldsFunc(msg, func(r rune) bool { return r == '"' }) {
			if glslx.ExtensionTypeName(f) {
				return true
			}
		}
	}
	return false
}

// c16ListedWord: words whose failure is a listed finding of the template campaign (F113-F117); the renamed-program
// campaign leaves them out so that it explores the rest.
func c16ListedWord(w string) bool {
	if strings.HasPrefix(w, "gl_") || strings.HasPrefix(w, "texture") || strings.HasPrefix(w, "sampler") || strings.HasPrefix(w, "_group_") || strings.HasPrefix(w, "naga_") {
		return true
	}
	switch strings.TrimRight(w, "_") {
	case "simd", "ulong", "NagaConstants", "_NagaConstants", "ret", "RayDesc", "_group_0_binding_0_cs", "isinf", "isnan", "inverse", "outerProduct",
		"acceleration_structure", "naga_neg", "naga_abs", "naga_div", "naga_mod", "naga_f2i32", "naga_f2u32":
		return true
	}
	return false
}
