package checks

import "github.com/gogpu/naga/ir"

type irModule = ir.Module
