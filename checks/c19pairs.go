package checks

import (
	"fmt"
	"strings"

	"verif/internal/run"
)

// c19ShadowPairs: pairs of programs that differ only in the name of a local declared in an inner scope: in one program it
// is a fresh name, in the other it is the name of a local of the enclosing scope (a pointer let, let, var, const, value
// parameter or pointer parameter) which is used again after the inner scope has closed. The rename is consistent and
// capture-free (the outer entity is not referenced inside the inner local's scope), so both programs must be accepted
// alike and lower to the same module and the same SPIR-V. Scope bookkeeping that forgets to restore what an inner
// declaration hid (its kind flags, pointer-ness, constant value) shows up here.
func c19ShadowPairs(c *run.Ctx) {
	outers := []struct{ name, helper, pre, post string }{
		{"pointer-let", "fn bump(q: ptr<function, u32>) { *q = *q + 1u; }\n", "var a = array<u32, 4>(); let NAME = &a[1];", "bump(NAME); *NAME = *NAME + 2u; o[0] = a[1];"},
		{"let", "", "let NAME = o[1] + 1u;", "o[0] = NAME;"},
		{"var", "", "var NAME = 3u;", "NAME += 1u; o[0] = NAME;"},
		{"const", "", "const NAME = 5u;", "o[0] = NAME;"},
		{"untyped-const", "", "const NAME = 5;", "o[0] = u32(NAME);"},
		{"pointer-to-var", "", "var v = vec2<u32>(1u, 2u); let NAME = &v;", "(*NAME).y = 4u; o[0] = (*NAME).y + v.x;"},
	}
	inners := []struct{ name, stmt string }{
		{"let", "let X = 7u; o[2] = X;"},
		{"var", "var X = 7u; X++; o[2] = X;"},
		{"const", "const X = 7u; o[2] = X;"},
		{"untyped-const", "const X = 7; o[2] = u32(X);"},
		{"pointer-let", "var q = 1u; let X = &q; *X = 3u; o[2] = q;"},
		{"for-init", "for (var X = 0u; X < 2u; X++) { o[2] = X; }"},
		{"float-let", "let X = 1.5f; o[2] = u32(X);"},
	}
	blocks := []struct{ name, open, close string }{
		{"block", "{", "}"},
		{"if", "if o[3] == 0u {", "}"},
		{"loop", "loop {", "break; }"},
		{"switch", "switch o[3] { case 0u: {", "} default: { } }"},
		{"nested", "{ {", "} }"},
	}
	type pcase struct{ id, a, b string }
	var list []pcase
	for _, ou := range outers {
		for _, in := range inners {
			for _, bl := range blocks {
				mk := func(x string) string {
					body := strings.ReplaceAll(ou.pre, "NAME", "p") + "\n    " + bl.open + " " + strings.ReplaceAll(in.stmt, "X", x) + " " + bl.close + "\n    " + strings.ReplaceAll(ou.post, "NAME", "p")
					return hostilePrelude + ou.helper + "@compute @workgroup_size(1) fn main() {\n    " + body + "\n}\n"
				}
				list = append(list, pcase{fmt.Sprintf("shadow-pair:%s:%s:%s", ou.name, in.name, bl.name), mk("inner_1"), mk("p")})
				// the same inside a helper whose parameter is the outer entity
				if ou.name == "let" || ou.name == "pointer-let" {
					pty, use := "u32", "return p;"
					arg := "3u"
					pre := ""
					if ou.name == "pointer-let" {
						pty, use, arg, pre = "ptr<function, u32>", "*p = *p + 2u; return *p;", "&z", "var z = 1u; "
					}
					mkh := func(x string) string {
						return hostilePrelude + "fn h(p: " + pty + ") -> u32 {\n    " + bl.open + " " + strings.ReplaceAll(in.stmt, "X", x) + " " + bl.close + "\n    " + use + "\n}\n" +
							"@compute @workgroup_size(1) fn main() {\n    " + pre + "o[0] = h(" + arg + ");\n}\n"
					}
					list = append(list, pcase{fmt.Sprintf("shadow-pair:param-%s:%s:%s", ou.name, in.name, bl.name), mkh("inner_1"), mkh("p")})
				}
			}
		}
	}
	c.Each(len(list), func(i int) (string, run.Outcome) {
		t := list[i]
		a := compileAllOutputs(t.a)
		if !a.accepted {
			return t.id, run.Outcome{V: run.Inconclusive, Reason: "the program with the fresh name is rejected (" + a.stage + "): " + oneLine(a.err)}
		}
		b := compileAllOutputs(t.b)
		if d := diffOutputs(a, b, true); d != "" {
			class := "shadow-pair:" + strings.SplitN(strings.SplitN(d, ":", 2)[0], " (", 2)[0]
			o := run.Outcome{V: run.Violated, Class: class, Reason: t.id + ": " + d, Witness: map[string]any{"original": t.a, "edited": t.b, "edit": "shadow-rename-inner-local"}}
			if c.KnownMatch(o.Class, o.Reason) {
				return t.id, run.Outcome{V: run.Held, Sig: "known:" + class, Trivial: true, Cov: map[string]int{"known-finding-instances": 1}}
			}
			return t.id, o
		}
		return t.id, run.Outcome{V: run.Held, Sig: t.id, Cov: map[string]int{"shadow-pair:identical-ir-and-spirv": 1}, Sample: map[string]any{"case": t.id}}
	})
}
