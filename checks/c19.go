package checks

import (
	"bytes"
	"fmt"
	"strings"

	"github.com/gogpu/naga"
	"github.com/gogpu/naga/glsl"
	"github.com/gogpu/naga/hlsl"
	"github.com/gogpu/naga/msl"
	"github.com/gogpu/naga/spirv"
	"verif/internal/cases"
	"verif/internal/irstrict"
	"verif/internal/run"
	"verif/internal/wgen"
)

func init() { register("C19", C19) }

type compiled struct {
	accepted bool
	stage    string
	err      string
	dump     string
	spv      []byte
	hlsl     string
	msl      string
	glsl     []string
}

func compileAllOutputs(src string) (c compiled) {
	st, pan := run.Catch(func() {
		mod, stage, err := lowerSrc(src)
		if err != nil {
			c.stage, c.err = stage, err.Error()
			return
		}
		c.accepted = true
		c.dump = irstrict.Dump(mod, true)
		if b, err := naga.GenerateSPIRV(mod, spirv.Options{Version: spirv.Version1_3}); err == nil {
			c.spv = b
		} else {
			c.spv = []byte("ERR " + err.Error())
		}
		if t, _, err := hlsl.Compile(mod, hlsl.DefaultOptions()); err == nil {
			c.hlsl = t
		} else {
			c.hlsl = "ERR " + err.Error()
		}
		if t, _, err := msl.Compile(mod, msl.DefaultOptions()); err == nil {
			c.msl = t
		} else {
			c.msl = "ERR " + err.Error()
		}
		for _, ep := range mod.EntryPoints {
			o := glsl.DefaultOptions()
			o.LangVersion = glsl.Version{Major: 4, Minor: 50}
			o.EntryPoint = ep.Name
			if t, _, err := glsl.Compile(mod, o); err == nil {
				c.glsl = append(c.glsl, t)
			} else {
				c.glsl = append(c.glsl, "ERR "+err.Error())
			}
		}
	})
	if pan {
		c.accepted = false
		c.stage, c.err = "panic", st[:min(200, len(st))]
	}
	return
}

// diffOutputs returns "" when the two compilations agree, else the first differing artefact.
func diffOutputs(a, b compiled, names bool) string {
	if a.accepted != b.accepted {
		return fmt.Sprintf("accept-changed (before: %v %s %s; after: %v %s %s)", a.accepted, a.stage, oneLine(a.err), b.accepted, b.stage, oneLine(b.err))
	}
	if !a.accepted {
		return ""
	}
	if a.dump != b.dump {
		return "ir-changed: " + firstDiffLine(a.dump, b.dump)
	}
	if !bytes.Equal(a.spv, b.spv) {
		return "spirv-changed"
	}
	if names {
		return "" // text backends carry user names: only name-free artefacts are compared after a rename
	}
	if a.hlsl != b.hlsl {
		return "hlsl-changed: " + firstDiffLine(a.hlsl, b.hlsl)
	}
	if a.msl != b.msl {
		return "msl-changed: " + firstDiffLine(a.msl, b.msl)
	}
	for i := range a.glsl {
		if i < len(b.glsl) && a.glsl[i] != b.glsl[i] {
			return "glsl-changed: " + firstDiffLine(a.glsl[i], b.glsl[i])
		}
	}
	return ""
}

func firstDiffLine(a, b string) string {
	la, lb := strings.Split(a, "\n"), strings.Split(b, "\n")
	for i := 0; i < len(la) && i < len(lb); i++ {
		if la[i] != lb[i] {
			return fmt.Sprintf("line %d: %q vs %q", i+1, trunc(la[i], 90), trunc(lb[i], 90))
		}
	}
	return fmt.Sprintf("length %d vs %d lines", len(la), len(lb))
}

func trunc(s string, n int) string {
	if len(s) > n {
		return s[:n] + "…"
	}
	return s
}

func C19(c *run.Ctx) int {
	replayWitnesses(c, map[string]func(witness) string{"neutral-edit": witnessNeutralEdit})
	corpus := loadCorpus()
	nGen := c.N(250, 5000)
	nEdit := c.N(6, 20)
	c.Each(nGen+len(corpus), func(i int) (string, run.Outcome) {
		seed := run.CaseSeed(c.Seed, "edit", i)
		r := run.NewRng(seed)
		if i < len(corpus) {
			id := "corpus-" + corpus[i].Name
			return id, c19Eval(c, id, nil, corpus[i].Src, map[string]int{"corpus:" + corpus[i].Name: 1}, r, nEdit)
		}
		cfg := wgen.Config{Off: wgen.SafeOff()}
		prog := cases.Generate(run.CaseSeed(c.Seed, "accept", i-len(corpus)), cfg)
		id := fmt.Sprintf("prog-%d", i-len(corpus))
		return id, c19Eval(c, id, prog, "", cases.FeatKeys(prog.Feat), r, nEdit)
	})
	c19ShadowPairs(c)
	return c.Finish("generated programs and corpus sources, each subjected to sequences of meaning-neutral edits: blankspace / line-break variants (LF, CRLF, VT, FF, NEL, LS, PS), line comments and nested block comments with hostile bodies inserted at token boundaries, blankspace removal next to brackets, redundant parentheses around expression nodes, trailing commas in argument / parameter / attribute / template lists, consistent renaming; blankspace removal between a template-closing > and a following = or > (>= / >> adjacencies); plus pairs of programs differing in whether an inner-scope local reuses the name of an outer local that is used again afterwards (6 outer kinds x 7 inner kinds x 5 block forms); "+
		"oracle: accept iff accept, identical canonical IR dump (names blanked), byte-identical non-debug SPIR-V, identical HLSL / MSL / GLSL text (after renames only IR and SPIR-V are compared); "+
		"distinct = distinct (feature set | corpus shader) x edit kinds applied; non-trivial = source accepted and at least one edit changed the text",
		[]string{"the independent mini-lexer only decides where token boundaries are; edits never touch the inside of a token", "blankspace and line breaks are the full WGSL sets (space, tab, LF, VT, FF, CR, NEL, LRM, RLM, LS, PS)"})
}

type editStep struct {
	kind string
	src  string
}

func c19Eval(c *run.Ctx, id string, prog *wgen.Program, src string, feats map[string]int, r *run.Rng, nEdit int) run.Outcome {
	var pr *wgen.Printed
	if prog != nil {
		pr = wgen.Print(prog.M)
		src = pr.Src
	}
	base := compileAllOutputs(src)
	cov := map[string]int{}
	applied := 0
	for k := 0; k < nEdit; k++ {
		var kind, edited string
		names := false
		var undo func()
		choice := r.Intn(7)
		if prog == nil && choice >= 3 {
			choice = r.Intn(3)
		}
		switch choice {
		case 0:
			kind = "blank+comments"
			toks := wgen.LexWGSL(src)
			edited = wgen.InsertNeutral(src, toks, r, r.Range(1, 12), true)
		case 1:
			kind = "squeeze"
			glued, n := wgen.GlueTemplateClose(src, wgen.LexWGSL(src), run.NewRng(run.CaseSeed(c.Seed, "glue:"+id, k)))
			cov["template-close-glued(>= >>)"] += n
			edited = wgen.SqueezeBlank(glued, wgen.LexWGSL(glued), r, r.Range(5, 60))
		case 2:
			kind = "blank+comments+squeeze"
			toks := wgen.LexWGSL(src)
			e1 := wgen.SqueezeBlank(src, toks, r, r.Range(5, 40))
			edited = wgen.InsertNeutral(e1, wgen.LexWGSL(e1), r, r.Range(1, 8), true)
		case 3:
			kind = "parens"
			undo = wgen.AddParens(prog.M, r, r.Range(1, 10))
			edited = wgen.Print(prog.M).Src
		case 4:
			kind = "trailing-commas"
			edited = wgen.AddTrailingCommas(pr, r, r.Range(1, 10), false)
		case 5:
			// capture-free renames of parameters / locals to names of module-scope declarations (shadowing)
			kind = "shadow-rename"
			names = true
			var nren int
			undo, nren = wgen.ShadowEdit(prog.M, r, 3)
			cov["shadow-renames"] += nren
			edited = wgen.Print(prog.M).Src
		default:
			kind = "rename"
			names = true
			n := 0
			undo = wgen.RenameAll(prog.M, func(k, old string) string {
				if k == "entry" {
					return old // OpEntryPoint legitimately carries the entry-point name
				}
				n++
				return fmt.Sprintf("r%s_%d", k[:1], n)
			})
			edited = wgen.Print(prog.M).Src
		}
		if undo != nil {
			undo()
		}
		if edited == src {
			continue
		}
		applied++
		cov["edit:"+kind]++
		got := compileAllOutputs(edited)
		if d := diffOutputs(base, got, names); d != "" {
			class := kind + ":" + strings.SplitN(d, ":", 2)[0]
			class = strings.SplitN(class, " (", 2)[0]
			o := run.Outcome{V: run.Violated, Class: class, Reason: fmt.Sprintf("%s edit %s: %s", id, kind, d), Witness: map[string]any{"original": src, "edited": edited, "edit": kind}}
			if c.KnownMatch(o.Class, o.Reason) {
				cov["known-finding-instances"]++
				continue
			}
			return o
		}
	}
	if !base.accepted {
		return run.Outcome{V: run.Held, Sig: cases.FeatureSig(feats), Trivial: true, Cov: cov}
	}
	parts := map[string]int{}
	for k := range feats {
		parts[k] = 1
	}
	for k := range cov {
		parts[k] = 1
	}
	return run.Outcome{V: run.Held, Sig: cases.FeatureSig(parts), Trivial: applied == 0, Cov: cov, Sample: map[string]any{"case": id, "edits_applied": applied}}
}

// witnessNeutralEdit: the file holds two sources separated by a line "// ---- edited ----"; both must compile to the same outputs.
func witnessNeutralEdit(w witness) string {
	parts := strings.SplitN(w.Src, "// ---- edited ----\n", 2)
	if len(parts) != 2 {
		return "malformed witness"
	}
	b := strings.ReplaceAll(parts[1], "<CR>", "\r")
	return diffOutputs(compileAllOutputs(parts[0]), compileAllOutputs(b), false)
}
