package checks

import (
	"encoding/binary"
	"fmt"

	"github.com/gogpu/naga"
	"github.com/gogpu/naga/ir"
	"github.com/gogpu/naga/spirv"
	"verif/internal/irx"
	"verif/internal/run"
	"verif/internal/spvx"
	"verif/internal/xrt"
)

// c14Derived: workgroup sizes and module-scope initialisers derived from overrides (the part of C14 that the
// generated-program campaign does not reach). The programs come from a template whose expected buffer contents are
// computed directly from the WGSL rules: with n = the value of override n (supplied or default) and k likewise,
//
//	every invocation li < n*m of the single workgroup writes o[li] = k*3 + 1 + li (private var g initialised from k),
//	and cnt counts the invocations.
func c14Derived(c *run.Ctx) {
	n := c.N(60, 600)
	c.Each(n, func(i int) (string, run.Outcome) {
		r := run.NewRng(run.CaseSeed(c.Seed, "derived", i))
		id := fmt.Sprintf("derived-%d", i)
		defN, defK, m := r.Range(1, 4), r.Range(-20, 20), r.Range(1, 3)
		pc := ir.PipelineConstants{}
		valN, valK := defN, defK
		nDecl := fmt.Sprintf("override n: u32 = %du;", defN)
		kDecl := fmt.Sprintf("override k: i32 = %d;", defK)
		form := r.Intn(4)
		if form&1 == 1 {
			valN = r.Range(1, 5)
			if r.Bool() {
				nDecl = fmt.Sprintf("@id(%d) override n: u32 = %du;", 7, defN)
				pc["7"] = float64(valN)
			} else {
				pc["n"] = float64(valN)
			}
		}
		if form&2 == 2 {
			valK = r.Range(-30, 30)
			if r.Chance(1, 4) {
				valK = 0 // a supplied zero is a value, not "unset"
			}
			if r.Bool() {
				kDecl = "override k: i32;"
			}
			pc["k"] = float64(valK)
		}
		// k2 is derived from k and never supplied; u is an unsigned override supplied with values on both sides of 2^31
		kDecl += "\noverride k2: i32 = k * 2 + 5;"
		defU := uint32(r.Range(1, 9))
		valU := defU
		uDecl := fmt.Sprintf("override u: u32 = %du;\noverride u2: u32 = u / 3u;", defU)
		if r.Chance(2, 3) {
			valU = []uint32{0, 1, 0x7fffffff, 0x80000000, 0xffffffff, 4000000000, 3000000001, r.U32(), r.U32() | 0x80000000}[r.Intn(9)]
			pc["u"] = float64(valU)
		}
		wgAttr := fmt.Sprintf("@workgroup_size(n, %d)", m)
		derivedWG := r.Bool()
		total := valN * m
		if derivedWG {
			wgAttr = fmt.Sprintf("@workgroup_size(n2, %d)", m)
			nDecl += "\noverride n2: u32 = n + 1u;"
			total = (valN + 1) * m
		}
		src := fmt.Sprintf(`%s
%s
%s
var<private> g: i32 = k * 3 + 1;
struct Out { cnt: atomic<u32>, v: array<i32, 40>, w: array<i32, 12>, x: array<u32, 8>, }
@group(0) @binding(0) var<storage, read_write> o: Out;
@compute %s
fn main(@builtin(local_invocation_index) li: u32) {
    o.v[li] = g + i32(li);
    atomicAdd(&o.cnt, 1u);
    if li == 0u {
        // override-expressions in a function body: every operator on the resolved value
        o.w[0] = k %% 4;
        o.w[1] = k / 3;
        o.w[2] = k >> 1u;
        o.w[3] = -k;
        o.w[4] = ~k;
        o.w[5] = i32(k < 0);
        o.w[6] = abs(k);
        o.w[7] = k * k - 7;
        o.w[8] = min(k, 3) + max(k, -3);
        o.w[9] = (k & 6) | (k ^ 9);
        o.w[10] = k << 2u;
        o.w[11] = 7 %% (abs(k) + 1);
        o.x[0] = u32(k2);
        o.x[1] = u2;
        o.x[2] = u / 3u;
        o.x[3] = u %% 1000u;
        o.x[4] = u >> 4u;
        o.x[5] = u32(u > 5u);
        o.x[6] = u * 3u + 1u;
        o.x[7] = max(u, 9u) - min(u, 9u);
    }
}
`, nDecl, kDecl, uDecl, wgAttr)
		w := map[string]any{"wgsl": src, "pipeline_constants": fmt.Sprint(pc)}
		viol := func(class, msg string) run.Outcome {
			o := run.Outcome{V: run.Violated, Class: "derived:" + class, Reason: id + ": " + msg, Witness: w}
			if c.KnownMatch(o.Class, o.Reason) {
				return run.Outcome{V: run.Held, Sig: "known:" + class, Trivial: true, Cov: map[string]int{"known-finding-instances:derived:" + class: 1}}
			}
			return o
		}
		mod, stage, err := lowerSrc(src)
		if err != nil {
			return id, viol("rejected", stage+": "+oneLine(err.Error()))
		}
		clone := ir.CloneModuleForOverrides(mod)
		if err := ir.ProcessOverrides(clone, pc); err != nil {
			return id, viol("process-overrides-error", oneLine(err.Error()))
		}
		cov := map[string]int{}
		expect := func(path string, buf []byte) *run.Outcome {
			ran := total
			if got := binary.LittleEndian.Uint32(buf); int(got) != total {
				o := viol(path+":workgroup-size", fmt.Sprintf("[%s] %d invocations ran, WGSL prescribes %d (n=%d derived=%v m=%d)", path, got, total, valN, derivedWG, m))
				if o.V == run.Violated {
					return &o
				}
				ran = int(got) // listed finding: go on checking the values of the invocations that did run
				cov["known-finding-instances:derived:"+path+":workgroup-size"]++
			}
			k32 := int32(valK)
			abs := func(x int32) int32 {
				if x < 0 {
					return -x
				}
				return x
			}
			b2i := func(b bool) int32 {
				if b {
					return 1
				}
				return 0
			}
			mn := func(a, b int32) int32 {
				if a < b {
					return a
				}
				return b
			}
			mx := func(a, b int32) int32 {
				if a > b {
					return a
				}
				return b
			}
			wantW := []int32{k32 % 4, k32 / 3, k32 >> 1, -k32, ^k32, b2i(k32 < 0), abs(k32), k32*k32 - 7, mn(k32, 3) + mx(k32, -3), (k32 & 6) | (k32 ^ 9), k32 << 2, 7 % (abs(k32) + 1)}
			for wi, w := range wantW {
				if got := int32(binary.LittleEndian.Uint32(buf[164+4*wi:])); got != w {
					o := viol(path+":body-expression", fmt.Sprintf("[%s] w[%d] = %d, WGSL prescribes %d (k=%d)", path, wi, got, w, valK))
					if o.V == run.Violated {
						return &o
					}
				}
			}
			mxu := func(a, b uint32) uint32 {
				if a > b {
					return a
				}
				return b
			}
			mnu := func(a, b uint32) uint32 {
				if a < b {
					return a
				}
				return b
			}
			wantX := []uint32{uint32(k32*2 + 5), valU / 3, valU / 3, valU % 1000, valU >> 4, uint32(b2i(valU > 5)), valU*3 + 1, mxu(valU, 9) - mnu(valU, 9)}
			for xi, w := range wantX {
				if got := binary.LittleEndian.Uint32(buf[212+4*xi:]); got != w {
					o := viol(path+":derived-or-unsigned", fmt.Sprintf("[%s] x[%d] = %d, WGSL prescribes %d (k=%d u=%d)", path, xi, got, w, valK, valU))
					if o.V == run.Violated {
						return &o
					}
				}
			}
			for li := 0; li < 40; li++ {
				got := int32(binary.LittleEndian.Uint32(buf[4+4*li:]))
				want := int32(0)
				if li < ran {
					want = int32(valK*3 + 1 + li)
				}
				if got != want {
					o := viol(path+":value", fmt.Sprintf("[%s] v[%d] = %d, WGSL prescribes %d (k=%d)", path, li, got, want, valK))
					if o.V == run.Violated {
						return &o
					}
					cov["known-finding-instances:derived:"+path+":value"]++
					break
				}
			}
			return nil
		}
		// IR interpreter on the resolved module
		bufs := xrt.Buffers{xrt.Slot{A: 0, B: 0}: make([]byte, 244)}
		if res, err := irx.Run(clone, "main", bufs, irx.Config{}); err != nil || len(res.Traps) > 0 {
			return id, viol("irx:exec-error", fmt.Sprint(err, res.Traps))
		}
		if o := expect("process-overrides+irx", bufs[xrt.Slot{}]); o != nil {
			return id, *o
		}
		cov["derived:irx"]++
		// SPIR-V on the resolved module
		bin, err := naga.GenerateSPIRV(clone, spirv.Options{Version: spirv.Version1_3})
		if err != nil {
			return id, viol("spirv:error", oneLine(err.Error()))
		}
		sm, err := spvx.Parse(bin)
		if err != nil {
			return id, run.Outcome{V: run.Inconclusive, Reason: "spvx: " + err.Error()}
		}
		bufs = xrt.Buffers{xrt.Slot{A: 0, B: 0}: make([]byte, 244)}
		if res, err := spvx.Run(sm, "main", bufs, xrt.Options{}); err != nil || len(res.Traps) > 0 {
			return id, viol("spirv:exec-error", fmt.Sprint(err, res.Traps))
		}
		if o := expect("process-overrides+spirv", bufs[xrt.Slot{}]); o != nil {
			return id, *o
		}
		cov["derived:spirv"]++
		return id, run.Outcome{V: run.Held, Sig: fmt.Sprintf("derived form=%d wg=%v n=%d m=%d k=%d u=%d", form, derivedWG, valN, m, valK, valU), Cov: cov,
			Sample: map[string]any{"wgsl": src, "pipeline_constants": fmt.Sprint(pc), "invocations": total}}
	})
}
