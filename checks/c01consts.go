package checks

import (
	"encoding/binary"
	"fmt"
	"math"
	"strings"

	"github.com/gogpu/naga"
	"github.com/gogpu/naga/spirv"
	"verif/internal/run"
	"verif/internal/spvx"
	"verif/internal/xrt"
)

// c01ConstBits: every constant of a module must keep its own bit pattern. The programs store 12-20 f32 / i32 / u32
// literals (in a PRNG-determined order, some repeated, both zeros, values that differ in one bit, values equal as
// numbers but different as bits) and the bit patterns are compared exactly - a constant pool that identifies constants
// by numeric value, by a truncated key or across types shows up here.
func c01ConstBits(c *run.Ctx, lanes []string) {
	f32s := []float32{0, float32(math.Copysign(0, -1)), 1, -1, 0.5, -0.5, 1.0000001, 1.0000002, 16777216, 16777217, 3.4028235e38, -3.4028235e38, 1.1754944e-38, 2, 0.1, 0.3}
	i32s := []int32{0, -1, 1, 2147483647, -2147483647, 1065353216, -1082130432, 16777217}
	u32s := []uint32{0, 1, 4294967295, 2147483648, 1065353216, 3212836864, 16777217, 2147483647}
	n := c.N(40, 400)
	c.Each(n, func(i int) (string, run.Outcome) {
		r := run.NewRng(run.CaseSeed(c.Seed, "c01-const-bits", i))
		id := fmt.Sprintf("const-bits-%d", i)
		var body []string
		var want []uint32
		k := r.Range(12, 20)
		for j := 0; j < k; j++ {
			switch r.Intn(3) {
			case 0:
				v := f32s[r.Intn(len(f32s))]
				lit := fmt.Sprintf("%sf", strings.TrimPrefix(fmt.Sprintf("%g", v), "+"))
				if v == 0 && math.Signbit(float64(v)) {
					lit = "-0.0f"
				} else if !strings.ContainsAny(lit, ".e") {
					lit = strings.TrimSuffix(lit, "f") + ".0f"
				}
				form := r.Intn(3)
				switch form {
				case 0:
					body = append(body, fmt.Sprintf("o[%d] = bitcast<u32>(%s);", j, lit))
				case 1:
					body = append(body, fmt.Sprintf("let cf%d = %s; o[%d] = bitcast<u32>(cf%d);", j, lit, j, j))
				default:
					body = append(body, fmt.Sprintf("var cf%d = vec2<f32>(%s, 1.5f); o[%d] = bitcast<u32>(cf%d.x);", j, lit, j, j))
				}
				want = append(want, math.Float32bits(v))
			case 1:
				v := i32s[r.Intn(len(i32s))]
				body = append(body, fmt.Sprintf("o[%d] = bitcast<u32>(%di);", j, v))
				if v < 0 {
					body[len(body)-1] = fmt.Sprintf("o[%d] = bitcast<u32>(-%di);", j, -int64(v))
				}
				want = append(want, uint32(v))
			default:
				v := u32s[r.Intn(len(u32s))]
				body = append(body, fmt.Sprintf("o[%d] = %du;", j, v))
				want = append(want, v)
			}
		}
		src := "@group(0) @binding(0) var<storage, read_write> o: array<u32, 32>;\n@compute @workgroup_size(1) fn main() {\n    " + strings.Join(body, "\n    ") + "\n}\n"
		return id, execTemplateLanes(c, id, "const-bits", src, lanes, func(buf []byte) string {
			for j, w := range want {
				if got := binary.LittleEndian.Uint32(buf[4*j:]); got != w {
					return fmt.Sprintf("o[%d] = 0x%08X, the literal's bit pattern is 0x%08X (%s)", j, got, w, body[j])
				}
			}
			return ""
		})
	})
}

// execTemplateLanes lowers a single-entry-point ("main") template whose only resource is a zero-filled 256-byte
// storage buffer at (0,0), executes it in the given lanes ("spirv" = three SPIR-V versions, or a text backend name)
// and applies check to the resulting buffer image.
func execTemplateLanes(c *run.Ctx, id, family, src string, lanes []string, check func(buf []byte) string) run.Outcome {
	w := map[string]any{"wgsl": src}
	mod, stage, err := lowerSrc(src)
	if err != nil {
		o := run.Outcome{V: run.Violated, Class: family + ":rejected", Reason: id + ": " + stage + ": " + oneLine(err.Error()), Witness: w}
		if c.KnownMatch(o.Class, o.Reason) {
			return run.Outcome{V: run.Held, Sig: "known:" + family + ":rejected", Trivial: true, Cov: map[string]int{"known-finding-instances": 1}}
		}
		return o
	}
	cov := map[string]int{}
	var first *run.Outcome
	report := func(lane, class, msg string, extra map[string]any) {
		ww := map[string]any{"lane": lane}
		for k, v := range w {
			ww[k] = v
		}
		for k, v := range extra {
			ww[k] = v
		}
		o := c16Viol(c, family+":"+lane+":"+class, id+": ["+lane+"] "+msg, ww, "")
		if o.V == run.Violated && first == nil {
			first = &o
		} else if o.V != run.Violated {
			cov["known-finding-instances:"+family+":"+lane+":"+class]++
		}
	}
	for _, lane := range lanes {
		if lane == "spirv" {
			for _, v := range []struct {
				name string
				ver  spirv.Version
			}{{"v1.0", spirv.Version1_0}, {"v1.3", spirv.Version1_3}, {"v1.5", spirv.Version1_5}} {
				ln := "spirv/" + v.name
				bin, err := naga.GenerateSPIRV(mod, spirv.Options{Version: v.ver})
				if err != nil {
					report(ln, "backend-error", oneLine(err.Error()), nil)
					continue
				}
				sm, err := spvx.Parse(bin)
				if err != nil {
					report(ln, "parse", oneLine(err.Error()), nil)
					continue
				}
				bufs := xrt.Buffers{xrt.Slot{A: 0, B: 0}: make([]byte, 256)}
				res, err := spvx.Run(sm, "main", bufs, xrt.Options{TrapMode: true})
				switch {
				case err != nil && isUnsupported(err):
					cov["unsupported:"+ln]++
				case err != nil:
					report(ln, "exec-error", oneLine(err.Error()), nil)
				case len(res.Traps) > 0:
					report(ln, "trap:"+string(res.Traps[0].Kind), oneLine(res.Traps[0].Error()), nil)
				default:
					if msg := check(bufs[xrt.Slot{}]); msg != "" {
						report(ln, "value", msg, nil)
					} else {
						cov[family+":"+ln+":ok"]++
					}
				}
			}
			continue
		}
		var be textBackend
		for _, b := range []textBackend{hlslBackend, mslBackend, glslBackend} {
			if b.name == lane {
				be = b
			}
		}
		rs := resOfModule(mod)
		for k := range rs {
			rs[k].Image = make([]byte, 256)
		}
		var tr textRun
		if st, pan := run.Catch(func() { tr = be.run(mod, "main", rs, [3]uint32{1, 1, 1}, false, 0, true) }); pan {
			report(lane, "panic", oneLine(st[:min(200, len(st))]), nil)
			continue
		}
		extra := map[string]any{"emitted": tr.text}
		switch {
		case tr.err != nil:
			report(lane, "backend-error", oneLine(tr.err.Error()), extra)
		case tr.parse != nil && isUnsupported(tr.parse), tr.runErr != nil && isUnsupported(tr.runErr):
			cov["unsupported:"+lane]++
		case tr.parse != nil:
			report(lane, "emitted-text-invalid", oneLine(tr.parse.Error()), extra)
		case len(tr.static) > 0:
			report(lane, "static:"+string(tr.static[0].Kind), oneLineN(tr.static[0].Error(), 300), extra)
		case tr.runErr != nil:
			report(lane, "exec-error", oneLine(tr.runErr.Error()), extra)
		case len(tr.traps) > 0:
			report(lane, "trap:"+string(tr.traps[0].Kind), oneLine(tr.traps[0].Error()), extra)
		default:
			if b := tr.get(0); len(b) >= 256 {
				if msg := check(b); msg != "" {
					report(lane, "value", msg, extra)
				} else {
					cov[family+":"+lane+":ok"]++
				}
			}
		}
	}
	if first != nil {
		first.Cov = cov
		return *first
	}
	return run.Outcome{V: run.Held, Sig: id, Cov: cov, Sample: map[string]any{"wgsl": src}}
}
