package checks

import (
	"fmt"
	"regexp"
	"sort"
	"strconv"
	"strings"

	"github.com/gogpu/naga"
	"github.com/gogpu/naga/glsl"
	"github.com/gogpu/naga/hlsl"
	"github.com/gogpu/naga/ir"
	"github.com/gogpu/naga/msl"
	"github.com/gogpu/naga/spirv"
	"verif/internal/run"
	"verif/internal/spvx"
)

func init() { register("C17", C17) }

// ---------- module generator (text based; the generator's own records are the oracle) ----------

type c17Res struct {
	name           string
	kind           string // "uniform" | "storage-rw" | "storage-ro"
	group, binding int
}

type c17IO struct {
	name        string
	ty          string // WGSL type
	loc         int    // >= 0: @location(loc); -1: builtin
	builtin     string
	interp      string // "", "flat", "linear", "perspective"
	sampl       string // "", "center", "centroid", "sample"
	invar       bool
	interpFirst bool // print @interpolate before @location (attribute order is free in WGSL)
}

type c17Entry struct {
	name                string
	stage               string // vertex | fragment | compute
	wg                  [3]int
	in, out             []c17IO
	inStruct            bool
	outStruct           bool
	uses                []int // indices into resources (directly or through the helper)
	viaHelper           bool
	callsLeaf, callsMid bool
}

type c17Module struct {
	res     []c17Res
	entries []c17Entry
	src     string
	// shared helpers: leaf() reads resource leafRes, mid() calls leaf() and reads resource midRes (-1: absent). Entry
	// points may call either, so that a resource is reached through different call paths from different entry points.
	leafRes, midRes int
}

var c17Types = []string{"f32", "vec2<f32>", "vec3<f32>", "vec4<f32>", "u32", "vec2<u32>", "i32", "vec4<i32>"}

func c17IsInt(t string) bool { return strings.Contains(t, "u32") || strings.Contains(t, "i32") }

func c17Gen(r *run.Rng) *c17Module {
	m := &c17Module{}
	nRes := r.Range(1, 5)
	used := map[[2]int]bool{}
	for i := 0; i < nRes; i++ {
		var g, b int
		for {
			g, b = r.Intn(4), r.Intn(16)
			if !used[[2]int{g, b}] {
				break
			}
		}
		used[[2]int{g, b}] = true
		m.res = append(m.res, c17Res{fmt.Sprintf("res%d", i), []string{"uniform", "storage-rw", "storage-ro"}[r.Intn(3)], g, b})
	}
	m.leafRes, m.midRes = -1, -1
	var readable []int
	for i, rs := range m.res {
		if rs.kind != "storage-rw" {
			readable = append(readable, i)
		}
	}
	if len(readable) >= 2 && r.Chance(1, 2) {
		p := r.Perm(len(readable))
		m.leafRes, m.midRes = readable[p[0]], readable[p[1]]
	}
	nE := r.Range(1, 4)
	locs := func(n int) []int {
		p := r.Perm(16)
		out := append([]int(nil), p[:n]...)
		return out
	}
	for e := 0; e < nE; e++ {
		en := c17Entry{name: fmt.Sprintf("ep%d", e), stage: []string{"vertex", "fragment", "compute"}[r.Intn(3)]}
		for i := range m.res {
			if r.Chance(1, 2) {
				if m.res[i].kind == "storage-rw" && en.stage == "vertex" {
					continue // writable storage in the vertex stage needs a feature most APIs lack
				}
				en.uses = append(en.uses, i)
			}
		}
		en.viaHelper = len(en.uses) > 0 && r.Chance(1, 3)
		if m.leafRes >= 0 {
			en.callsLeaf, en.callsMid = r.Chance(1, 2), r.Chance(1, 2)
			if e == 0 {
				en.callsLeaf, en.callsMid = true, true // the first entry point walks leaf() before mid()
			}
			add := func(ri int) {
				for _, u := range en.uses {
					if u == ri {
						return
					}
				}
				en.uses = append(en.uses, ri)
			}
			if en.callsLeaf || en.callsMid {
				add(m.leafRes)
			}
			if en.callsMid {
				add(m.midRes)
			}
		}
		switch en.stage {
		case "compute":
			en.wg = [3]int{r.Range(1, 8), r.Range(1, 4), r.Range(1, 3)}
			for _, b := range []string{"global_invocation_id", "local_invocation_id", "local_invocation_index", "workgroup_id", "num_workgroups"} {
				if r.Chance(1, 2) {
					ty := "vec3<u32>"
					if b == "local_invocation_index" {
						ty = "u32"
					}
					en.in = append(en.in, c17IO{name: "b_" + b, ty: ty, loc: -1, builtin: b})
				}
			}
		case "vertex":
			for _, l := range locs(r.Intn(5)) {
				en.in = append(en.in, c17IO{name: fmt.Sprintf("a_loc%d", l), ty: c17Types[r.Intn(len(c17Types))], loc: l})
			}
			for _, b := range []string{"vertex_index", "instance_index"} {
				if r.Chance(1, 2) {
					en.in = append(en.in, c17IO{name: "b_" + b, ty: "u32", loc: -1, builtin: b})
				}
			}
			en.inStruct = len(en.in) > 0 && r.Chance(1, 3)
			en.outStruct = true
			en.out = append(en.out, c17IO{name: "b_position", ty: "vec4<f32>", loc: -1, builtin: "position", invar: r.Chance(1, 4)})
			for _, l := range locs(r.Intn(5)) {
				en.out = append(en.out, c17RandInterp(r, c17IO{name: fmt.Sprintf("v_loc%d", l), ty: c17Types[r.Intn(len(c17Types))], loc: l}))
			}
		case "fragment":
			for _, l := range locs(r.Intn(5)) {
				en.in = append(en.in, c17RandInterp(r, c17IO{name: fmt.Sprintf("v_loc%d", l), ty: c17Types[r.Intn(len(c17Types))], loc: l}))
			}
			for _, b := range []string{"position", "front_facing", "sample_index", "sample_mask"} {
				if r.Chance(1, 3) {
					ty := map[string]string{"position": "vec4<f32>", "front_facing": "bool", "sample_index": "u32", "sample_mask": "u32"}[b]
					en.in = append(en.in, c17IO{name: "b_" + b, ty: ty, loc: -1, builtin: b})
				}
			}
			en.inStruct = len(en.in) > 0 && r.Chance(1, 2)
			no := r.Range(1, 3)
			for _, l := range locs(no) {
				l = l % 8
				dup := false
				for _, o := range en.out {
					if o.loc == l {
						dup = true
					}
				}
				if !dup {
					en.out = append(en.out, c17IO{name: fmt.Sprintf("o_loc%d", l), ty: []string{"vec4<f32>", "vec4<u32>", "vec4<i32>", "f32"}[r.Intn(4)], loc: l})
				}
			}
			if r.Chance(1, 3) {
				en.out = append(en.out, c17IO{name: "b_frag_depth", ty: "f32", loc: -1, builtin: "frag_depth"})
			}
			en.outStruct = len(en.out) > 1 || r.Bool()
		}
		m.entries = append(m.entries, en)
	}
	m.src = c17Print(m)
	return m
}

func c17RandInterp(r *run.Rng, io c17IO) c17IO {
	io.interpFirst = r.Chance(1, 3)
	if c17IsInt(io.ty) {
		io.interp = "flat"
		return io
	}
	switch r.Intn(5) {
	case 0:
		io.interp = "flat"
	case 1:
		io.interp, io.sampl = "linear", []string{"", "center", "centroid", "sample"}[r.Intn(4)]
	case 2:
		io.interp, io.sampl = "perspective", []string{"", "center", "centroid", "sample"}[r.Intn(4)]
	}
	return io
}

func (io c17IO) attrs() string {
	if io.loc < 0 {
		s := "@builtin(" + io.builtin + ")"
		if io.invar {
			s = "@invariant " + s
		}
		return s
	}
	s := fmt.Sprintf("@location(%d)", io.loc)
	if io.interp != "" {
		ip := fmt.Sprintf("@interpolate(%s)", io.interp)
		if io.sampl != "" {
			ip = fmt.Sprintf("@interpolate(%s, %s)", io.interp, io.sampl)
		}
		if io.interpFirst {
			return ip + " " + s
		}
		s += " " + ip
	}
	return s
}

// value of type ty built from the f32 expression e
func c17Conv(ty, e string) string {
	switch ty {
	case "bool":
		return "(" + e + " > 0.5)"
	case "f32":
		return e
	case "u32", "i32":
		return ty + "(" + e + ")"
	}
	inner := ty[strings.Index(ty, "<")+1 : len(ty)-1]
	if inner == "f32" {
		return ty + "(" + e + ")"
	}
	return ty + "(" + inner + "(" + e + "))"
}

// f32 expression reading a value of type ty
func c17ToF(ty, e string) string {
	switch ty {
	case "bool":
		return "select(0.0, 1.0, " + e + ")"
	case "f32":
		return e
	case "u32", "i32":
		return "f32(" + e + ")"
	}
	return "f32(" + e + ".x)"
}

func c17Print(m *c17Module) string {
	var b strings.Builder
	b.WriteString("struct U { k: vec4<f32>, }\n")
	for _, r := range m.res {
		switch r.kind {
		case "uniform":
			fmt.Fprintf(&b, "@group(%d) @binding(%d) var<uniform> %s: U;\n", r.group, r.binding, r.name)
		case "storage-rw":
			fmt.Fprintf(&b, "@group(%d) @binding(%d) var<storage, read_write> %s: array<f32, 8>;\n", r.group, r.binding, r.name)
		default:
			fmt.Fprintf(&b, "@group(%d) @binding(%d) var<storage> %s: array<f32, 8>;\n", r.group, r.binding, r.name)
		}
	}
	read := func(r c17Res) string {
		if r.kind == "uniform" {
			return r.name + ".k.x"
		}
		return r.name + "[1]"
	}
	if m.leafRes >= 0 {
		fmt.Fprintf(&b, "fn leaf() -> f32 { return %s; }\n", read(m.res[m.leafRes]))
		fmt.Fprintf(&b, "fn mid() -> f32 { return leaf() * 2.0 + %s; }\n", read(m.res[m.midRes]))
	}
	for ei, e := range m.entries {
		// helper through which the resources are reached
		acc := "0.5"
		if e.callsLeaf {
			acc += " + leaf()"
		}
		if e.callsMid {
			acc += " + mid()"
		}
		var writes []string
		for _, ri := range e.uses {
			if (e.callsLeaf || e.callsMid) && ri == m.leafRes || e.callsMid && ri == m.midRes {
				continue // reached only through the shared helpers
			}
			acc += " + " + read(m.res[ri])
			if m.res[ri].kind == "storage-rw" {
				writes = append(writes, fmt.Sprintf("%s[2] = acc;", m.res[ri].name))
			}
		}
		if e.viaHelper {
			fmt.Fprintf(&b, "fn helper%d() -> f32 { let acc = %s; %s return acc; }\n", ei, acc, strings.Join(writes, " "))
			acc = fmt.Sprintf("helper%d()", ei)
			writes = nil
		}
		inT, outT := fmt.Sprintf("In%d", ei), fmt.Sprintf("Out%d", ei)
		if e.inStruct {
			fmt.Fprintf(&b, "struct %s {\n", inT)
			for _, io := range e.in {
				fmt.Fprintf(&b, "    %s %s: %s,\n", io.attrs(), io.name, io.ty)
			}
			b.WriteString("}\n")
		}
		if e.outStruct {
			fmt.Fprintf(&b, "struct %s {\n", outT)
			for _, io := range e.out {
				fmt.Fprintf(&b, "    %s %s: %s,\n", io.attrs(), io.name, io.ty)
			}
			b.WriteString("}\n")
		}
		switch e.stage {
		case "compute":
			fmt.Fprintf(&b, "@compute @workgroup_size(%d, %d, %d)\n", e.wg[0], e.wg[1], e.wg[2])
		default:
			fmt.Fprintf(&b, "@%s\n", e.stage)
		}
		fmt.Fprintf(&b, "fn %s(", e.name)
		pre := ""
		if e.inStruct {
			fmt.Fprintf(&b, "i: %s", inT)
			pre = "i."
		} else {
			for k, io := range e.in {
				if k > 0 {
					b.WriteString(", ")
				}
				fmt.Fprintf(&b, "%s %s: %s", io.attrs(), io.name, io.ty)
			}
		}
		b.WriteString(")")
		switch {
		case e.outStruct:
			fmt.Fprintf(&b, " -> %s", outT)
		case len(e.out) == 1:
			fmt.Fprintf(&b, " -> %s %s", e.out[0].attrs(), e.out[0].ty)
		}
		b.WriteString(" {\n")
		// where the resource-reaching expression is evaluated: the statement position is derived from fields already
		// drawn (no further PRNG draws), so that every position occurs with every stage / helper shape over a run
		switch (e.wg[0] + len(e.in) + 2*len(e.uses) + ei) % 6 {
		case 1:
			fmt.Fprintf(&b, "    var acc: f32 = 0.0;\n    if sink < 1.0 { acc = %s; }\n", acc)
		case 2:
			fmt.Fprintf(&b, "    var acc: f32 = 0.0;\n    for (var k = 0u; k < 1u; acc += %s) { k++; }\n", acc)
		case 3:
			fmt.Fprintf(&b, "    var acc: f32 = 0.0;\n    var k = 0u;\n    loop { if k > 0u { break; } continuing { acc = %s; k++; } }\n", acc)
		case 4:
			fmt.Fprintf(&b, "    var acc: f32 = 0.0;\n    switch u32(sink) { case 0u: { acc = %s; } default: { } }\n", acc)
		case 5:
			fmt.Fprintf(&b, "    var acc: f32 = 0.0;\n    { { acc = %s; } }\n", acc)
		default:
			fmt.Fprintf(&b, "    var acc: f32 = %s;\n", acc)
		}
		for _, io := range e.in {
			fmt.Fprintf(&b, "    acc += %s;\n", c17ToF(io.ty, pre+io.name))
		}
		for _, w := range writes {
			fmt.Fprintf(&b, "    %s\n", w)
		}
		switch {
		case e.outStruct:
			fmt.Fprintf(&b, "    var o: %s;\n", outT)
			for _, io := range e.out {
				fmt.Fprintf(&b, "    o.%s = %s;\n", io.name, c17Conv(io.ty, "acc"))
			}
			b.WriteString("    return o;\n")
		case len(e.out) == 1:
			fmt.Fprintf(&b, "    return %s;\n", c17Conv(e.out[0].ty, "acc"))
		default:
			// compute without writable resource: keep acc alive through a private write
			b.WriteString("    sink = acc;\n")
		}
		b.WriteString("}\n")
	}
	return "var<private> sink: f32;\n" + b.String()
}

// ---------- SPIR-V decoding ----------

var c17BuiltinSpv = map[string]uint32{"vertex_index": 42, "instance_index": 43, "front_facing": 17, "sample_index": 18, "sample_mask": 20,
	"frag_depth": 22, "global_invocation_id": 28, "local_invocation_id": 27, "local_invocation_index": 29, "workgroup_id": 26, "num_workgroups": 24}

type c17IfaceVar struct {
	class   uint32 // 1 Input, 3 Output
	loc     int
	builtin int
	flags   string // sorted letters: F flat, N noperspective, C centroid, S sample, I invariant
}

func (v c17IfaceVar) String() string {
	if v.builtin >= 0 {
		return fmt.Sprintf("class%d BuiltIn %d [%s]", v.class, v.builtin, v.flags)
	}
	return fmt.Sprintf("class%d Location %d [%s]", v.class, v.loc, v.flags)
}

func c17ExpectIface(e c17Entry) []string {
	var out []string
	add := func(io c17IO, class uint32) {
		v := c17IfaceVar{class: class, loc: io.loc, builtin: -1}
		if io.loc < 0 {
			switch {
			case io.builtin == "position" && e.stage == "vertex":
				v.builtin = 0
			case io.builtin == "position":
				v.builtin = 15 // FragCoord
			default:
				v.builtin = int(c17BuiltinSpv[io.builtin])
			}
			if io.invar {
				v.flags = "I"
			}
		} else if !(e.stage == "vertex" && class == 1) && !(e.stage == "fragment" && class == 3) {
			// interpolation decorations apply to vertex outputs and fragment inputs
			fl := ""
			switch io.interp {
			case "flat":
				fl += "F"
			case "linear":
				fl += "N"
			}
			switch io.sampl {
			case "centroid":
				fl += "C"
			case "sample":
				fl += "S"
			}
			v.flags = fl
		}
		out = append(out, v.String())
	}
	for _, io := range e.in {
		add(io, 1)
	}
	for _, io := range e.out {
		add(io, 3)
	}
	sort.Strings(out)
	return out
}

func c17CheckSpirv(m *c17Module, bin []byte, ver spirv.Version, forcePointSize bool) (problems []string, cov map[string]int) {
	cov = map[string]int{}
	sm, err := spvx.Parse(bin)
	if err != nil {
		return []string{"spirv: undecodable binary: " + err.Error()}, cov
	}
	deco := func(id uint32, kind uint32) (uint32, bool) {
		for _, d := range sm.Decos[id] {
			if d.Kind == kind {
				if len(d.Args) > 0 {
					return d.Args[0], true
				}
				return 0, true
			}
		}
		return 0, false
	}
	// resource variables by name
	resVar := map[string]uint32{}
	for id, n := range sm.Names {
		resVar[n] = id
	}
	varClass := func(id uint32) (uint32, bool) {
		d := sm.Defs[id]
		if d == nil || d.Op != 59 || len(d.Args) < 1 {
			return 0, false
		}
		return d.Args[0], true
	}
	// every OpVariable with a DescriptorSet/Binding: find the WGSL resource with the same pair
	byPair := map[[2]int]uint32{}
	for _, in := range sm.Insts {
		if in.Op != 59 {
			continue
		}
		ds, ok1 := deco(in.Result, 34)
		bd, ok2 := deco(in.Result, 33)
		if ok1 != ok2 {
			problems = append(problems, fmt.Sprintf("spirv: variable %%%d has only one of DescriptorSet / Binding", in.Result))
		}
		if ok1 && ok2 {
			if _, dup := byPair[[2]int{int(ds), int(bd)}]; dup {
				problems = append(problems, fmt.Sprintf("spirv: two variables decorated DescriptorSet %d Binding %d", ds, bd))
			}
			byPair[[2]int{int(ds), int(bd)}] = in.Result
		}
	}
	usedAnywhere := map[int]bool{}
	for _, e := range m.entries {
		for _, ri := range e.uses {
			usedAnywhere[ri] = true
		}
	}
	resID := map[int]uint32{}
	for i, r := range m.res {
		id, ok := byPair[[2]int{r.group, r.binding}]
		if !ok {
			if usedAnywhere[i] {
				problems = append(problems, fmt.Sprintf("spirv: resource %s @group(%d) @binding(%d) used by an entry point has no variable with DescriptorSet %d Binding %d", r.name, r.group, r.binding, r.group, r.binding))
			}
			continue
		}
		resID[i] = id
		cov["spirv.resource-decorations-checked"]++
		cls, _ := varClass(id)
		want := map[string][]uint32{"uniform": {2}, "storage-rw": {12, 2}, "storage-ro": {12, 2}}[r.kind]
		okc := false
		for _, w := range want {
			if cls == w {
				okc = true
			}
		}
		if !okc {
			problems = append(problems, fmt.Sprintf("spirv: resource %s (%s) has storage class %d", r.name, r.kind, cls))
		}
		if r.kind == "storage-ro" {
			if _, nw := deco(id, 24); !nw {
				// NonWritable may also sit on the struct members
				found := false
				if td := sm.Defs[sm.TypeOf[id]]; td != nil && len(td.Args) >= 2 {
					for _, ds := range sm.MemberDecos[td.Args[1]] {
						for _, d := range ds {
							if d.Kind == 24 {
								found = true
							}
						}
					}
				}
				if !found {
					problems = append(problems, fmt.Sprintf("spirv: read-only storage resource %s is not decorated NonWritable", r.name))
				}
			}
		}
	}
	for pair, id := range byPair {
		found := false
		for _, r := range m.res {
			if r.group == pair[0] && r.binding == pair[1] {
				found = true
			}
		}
		if !found {
			problems = append(problems, fmt.Sprintf("spirv: variable %%%d decorated DescriptorSet %d Binding %d corresponds to no WGSL resource", id, pair[0], pair[1]))
		}
	}
	// entry points
	type ep struct {
		model uint32
		fn    uint32
		iface []uint32
	}
	eps := map[string]ep{}
	for _, in := range sm.Insts {
		if in.Op != 15 || len(in.Words) < 4 {
			continue
		}
		w := in.Words[1:]
		model, fn := w[0], w[1]
		name, n := c17SpvString(w[2:])
		eps[name] = ep{model, fn, append([]uint32(nil), w[2+n:]...)}
	}
	modes := map[uint32][][]uint32{}
	for _, in := range sm.Insts {
		if in.Op == 16 && len(in.Words) >= 3 {
			modes[in.Words[1]] = append(modes[in.Words[1]], in.Words[2:])
		}
	}
	if len(eps) != len(m.entries) {
		problems = append(problems, fmt.Sprintf("spirv: %d OpEntryPoint for %d WGSL entry points", len(eps), len(m.entries)))
	}
	for _, e := range m.entries {
		p, ok := eps[e.name]
		if !ok {
			problems = append(problems, "spirv: no OpEntryPoint named "+e.name)
			continue
		}
		cov["spirv.entry-points-checked"]++
		wantModel := map[string]uint32{"vertex": 0, "fragment": 4, "compute": 5}[e.stage]
		if p.model != wantModel {
			problems = append(problems, fmt.Sprintf("spirv: entry point %s has execution model %d, stage %s needs %d", e.name, p.model, e.stage, wantModel))
		}
		hasMode := func(mode uint32) []uint32 {
			for _, mm := range modes[p.fn] {
				if mm[0] == mode {
					return mm
				}
			}
			return nil
		}
		switch e.stage {
		case "compute":
			ls := hasMode(17)
			if len(ls) != 4 || int(ls[1]) != e.wg[0] || int(ls[2]) != e.wg[1] || int(ls[3]) != e.wg[2] {
				problems = append(problems, fmt.Sprintf("spirv: entry point %s LocalSize %v, @workgroup_size is %v", e.name, ls, e.wg))
			}
		case "fragment":
			if hasMode(7) == nil {
				problems = append(problems, "spirv: fragment entry point "+e.name+" lacks OriginUpperLeft")
			}
			writesDepth := false
			for _, o := range e.out {
				if o.builtin == "frag_depth" {
					writesDepth = true
				}
			}
			if writesDepth != (hasMode(12) != nil) {
				problems = append(problems, fmt.Sprintf("spirv: fragment entry point %s: DepthReplacing present=%v, writes frag_depth=%v", e.name, hasMode(12) != nil, writesDepth))
			}
		}
		// interface
		var got []string
		ifaceRes := map[uint32]bool{}
		seen := map[uint32]bool{}
		for _, id := range p.iface {
			if seen[id] {
				problems = append(problems, fmt.Sprintf("spirv: entry point %s lists interface id %%%d twice", e.name, id))
			}
			seen[id] = true
			cls, ok := varClass(id)
			if !ok {
				problems = append(problems, fmt.Sprintf("spirv: entry point %s interface id %%%d is not an OpVariable", e.name, id))
				continue
			}
			if cls != 1 && cls != 3 {
				ifaceRes[id] = true
				continue
			}
			v := c17IfaceVar{class: cls, loc: -1, builtin: -1}
			if l, ok := deco(id, 30); ok {
				v.loc = int(l)
			}
			if b, ok := deco(id, 11); ok {
				v.builtin = int(b)
			}
			if v.loc >= 0 && v.builtin >= 0 || v.loc < 0 && v.builtin < 0 {
				problems = append(problems, fmt.Sprintf("spirv: entry point %s interface variable %%%d needs exactly one of Location / BuiltIn", e.name, id))
			}
			for _, f := range []struct {
				k uint32
				c string
			}{{14, "F"}, {13, "N"}, {16, "C"}, {17, "S"}, {18, "I"}} {
				if _, ok := deco(id, f.k); ok {
					v.flags += f.c
				}
			}
			if v.builtin >= 0 {
				// Flat on integer built-in inputs of the fragment stage is permitted (and required by some environments)
				v.flags = strings.ReplaceAll(v.flags, "F", "")
			}
			if forcePointSize && e.stage == "vertex" && cls == 3 && v.builtin == 1 {
				cov["spirv.pointsize-output-tolerated"]++
				continue
			}
			got = append(got, v.String())
		}
		sort.Strings(got)
		want := c17ExpectIface(e)
		if g, w := strings.Join(got, "; "), strings.Join(want, "; "); g != w {
			if strings.ReplaceAll(w, "BuiltIn 0 [I]", "BuiltIn 0 []") == g {
				problems = append(problems, fmt.Sprintf("spirv: @invariant @builtin(position) output of entry point %s lacks the Invariant decoration", e.name))
			} else {
				problems = append(problems, fmt.Sprintf("spirv: entry point %s (%s) interface variables {%s}, WGSL declares {%s}", e.name, e.stage, g, w))
			}
		}
		cov["spirv.interface-variables-checked"] += len(got)
		// resources in the interface: exactly the used ones from SPIR-V 1.4 on; none before
		atLeast14 := ver.Major > 1 || ver.Minor >= 4
		wantRes := map[uint32]string{}
		for _, ri := range e.uses {
			if id, ok := resID[ri]; ok {
				wantRes[id] = m.res[ri].name
			}
		}
		if atLeast14 {
			for id, n := range wantRes {
				if !ifaceRes[id] {
					problems = append(problems, fmt.Sprintf("spirv %d.%d: entry point %s uses resource %s but does not list it in its interface", ver.Major, ver.Minor, e.name, n))
				}
			}
			for id := range ifaceRes {
				if _, ok := wantRes[id]; !ok {
					if _, isRes := deco(id, 34); isRes {
						problems = append(problems, fmt.Sprintf("spirv %d.%d: entry point %s lists resource %%%d (%s) that it does not use", ver.Major, ver.Minor, e.name, id, sm.Names[id]))
					}
				}
			}
			cov["spirv.resource-interface-checked"]++
		} else if len(ifaceRes) > 0 {
			problems = append(problems, fmt.Sprintf("spirv %d.%d: entry point %s lists non Input/Output variables in its interface", ver.Major, ver.Minor, e.name))
		}
	}
	return problems, cov
}

func c17SpvString(w []uint32) (string, int) {
	var b []byte
	for i, x := range w {
		for k := 0; k < 4; k++ {
			c := byte(x >> (8 * k))
			if c == 0 {
				return string(b), i + 1
			}
			b = append(b, c)
		}
	}
	return string(b), len(w)
}

// ---------- text backends ----------

var c17HlslSem = map[string]string{"vertex_index": "SV_VertexID", "instance_index": "SV_InstanceID", "front_facing": "SV_IsFrontFace", "sample_index": "SV_SampleIndex",
	"sample_mask": "SV_Coverage", "frag_depth": "SV_Depth", "global_invocation_id": "SV_DispatchThreadID", "local_invocation_id": "SV_GroupThreadID",
	"local_invocation_index": "SV_GroupIndex", "workgroup_id": "SV_GroupID", "position": "SV_Position"}

func c17CheckHlsl(m *c17Module, mod *ir.Module, r *run.Rng) (problems []string, cov map[string]int) {
	cov = map[string]int{}
	o := hlsl.DefaultOptions()
	o.FakeMissingBindings = false
	o.BindingMap = map[hlsl.ResourceBinding]hlsl.BindTarget{}
	want := map[string][2]int{}
	usedRegs := map[string]bool{}
	for _, rs := range m.res {
		var sp, reg int
		cls := map[string]string{"uniform": "b", "storage-rw": "u", "storage-ro": "t"}[rs.kind]
		for {
			sp, reg = r.Intn(5), r.Intn(24)
			if k := fmt.Sprintf("%s%d/%d", cls, reg, sp); !usedRegs[k] {
				usedRegs[k] = true
				break
			}
		}
		o.BindingMap[hlsl.ResourceBinding{Group: uint32(rs.group), Binding: uint32(rs.binding)}] = hlsl.BindTarget{Space: uint8(sp), Register: uint32(reg)}
		want[rs.name] = [2]int{reg, sp}
	}
	text, info, err := hlsl.Compile(mod, o)
	if err != nil {
		return []string{"hlsl: backend error with a complete binding map: " + oneLine(err.Error())}, cov
	}
	for _, rs := range m.res {
		cls := map[string]string{"uniform": "b", "storage-rw": "u", "storage-ro": "t"}[rs.kind]
		re := regexp.MustCompile(`\b` + rs.name + `\w*\s*:\s*register\((\w)(\d+)(?:,\s*space(\d+))?\)`)
		mm := re.FindStringSubmatch(text)
		if mm == nil {
			problems = append(problems, "hlsl: resource "+rs.name+" has no register() annotation")
			continue
		}
		reg, _ := strconv.Atoi(mm[2])
		sp := 0
		if mm[3] != "" {
			sp, _ = strconv.Atoi(mm[3])
		}
		if mm[1] != cls || reg != want[rs.name][0] || sp != want[rs.name][1] {
			problems = append(problems, fmt.Sprintf("hlsl: resource %s (%s) is bound to register(%s%d, space%d), the binding map says %s%d space%d", rs.name, rs.kind, mm[1], reg, sp, cls, want[rs.name][0], want[rs.name][1]))
		}
		cov["hlsl.registers-checked"]++
	}
	// semantics: location n of stage interfaces
	semOf := map[int]map[string]bool{} // location -> semantics used between stages
	for _, e := range m.entries {
		name := e.name
		if n, ok := info.EntryPointNames[e.name]; ok && n != "" {
			name = n
		}
		if !regexp.MustCompile(`\b` + regexp.QuoteMeta(name) + `\s*\(`).MatchString(text) {
			problems = append(problems, fmt.Sprintf("hlsl: entry point %s (reported name %q) has no function in the output", e.name, name))
		}
		if e.stage == "compute" {
			if !strings.Contains(text, fmt.Sprintf("[numthreads(%d, %d, %d)]", e.wg[0], e.wg[1], e.wg[2])) {
				problems = append(problems, fmt.Sprintf("hlsl: no [numthreads(%d, %d, %d)] for entry point %s", e.wg[0], e.wg[1], e.wg[2], e.name))
			}
		}
		check := func(io c17IO, output bool) {
			if io.builtin == "num_workgroups" {
				return // passed through a constant buffer, not a semantic
			}
			re := regexp.MustCompile(`\b` + io.name + `(?:_\d+)?_?\s*:\s*(\w+)`)
			all := re.FindAllStringSubmatch(text, -1)
			if len(all) == 0 && output && !e.outStruct {
				// bare return value: the semantic follows the function's parameter list
				name := e.name
				if n, ok := info.EntryPointNames[e.name]; ok && n != "" {
					name = n
				}
				if mm := regexp.MustCompile(`\b` + regexp.QuoteMeta(name) + `\s*\([^)]*\)\s*:\s*(\w+)`).FindStringSubmatch(text); mm != nil {
					all = [][]string{mm}
				}
			}
			if len(all) == 0 {
				problems = append(problems, fmt.Sprintf("hlsl: %s of entry point %s carries no semantic", io.name, e.name))
				return
			}
			for _, mm := range all {
				sem := mm[1]
				switch {
				case io.loc < 0:
					if sem != c17HlslSem[io.builtin] {
						problems = append(problems, fmt.Sprintf("hlsl: builtin %s of %s has semantic %s, expected %s", io.builtin, e.name, sem, c17HlslSem[io.builtin]))
					}
				case e.stage == "fragment" && output:
					if sem != fmt.Sprintf("SV_Target%d", io.loc) {
						problems = append(problems, fmt.Sprintf("hlsl: fragment output @location(%d) of %s has semantic %s", io.loc, e.name, sem))
					}
				default:
					if semOf[io.loc] == nil {
						semOf[io.loc] = map[string]bool{}
					}
					semOf[io.loc][sem] = true
					if !strings.HasSuffix(sem, strconv.Itoa(io.loc)) {
						problems = append(problems, fmt.Sprintf("hlsl: @location(%d) %s of %s has semantic %s, which does not carry the location number", io.loc, io.name, e.name, sem))
					}
				}
				cov["hlsl.semantics-checked"]++
			}
		}
		for _, io := range e.in {
			check(io, false)
		}
		for _, io := range e.out {
			check(io, true)
		}
	}
	for l, s := range semOf {
		if len(s) > 1 {
			problems = append(problems, fmt.Sprintf("hlsl: @location(%d) is spelled with different semantics %v in different interfaces", l, s))
		}
	}
	// absent entries
	delete(o.BindingMap, hlsl.ResourceBinding{Group: uint32(m.res[0].group), Binding: uint32(m.res[0].binding)})
	_, _, err = hlsl.Compile(mod, o)
	used0 := false
	for _, e := range m.entries {
		for _, ri := range e.uses {
			if ri == 0 {
				used0 = true
			}
		}
	}
	if err == nil && used0 {
		cov["hlsl.missing-binding-accepted-without-fake"]++
	} else if err != nil {
		cov["hlsl.missing-binding-rejected"]++
	}
	o.FakeMissingBindings = true
	if _, _, err = hlsl.Compile(mod, o); err != nil {
		problems = append(problems, "hlsl: FakeMissingBindings set, a missing map entry is still an error: "+oneLine(err.Error()))
	}
	return problems, cov
}

func c17CheckMsl(m *c17Module, mod *ir.Module, r *run.Rng) (problems []string, cov map[string]int) {
	cov = map[string]int{}
	o := msl.DefaultOptions()
	o.FakeMissingBindings = false
	o.PerEntryPointMap = map[string]msl.EntryPointResources{}
	want := map[string]map[string]int{}
	for _, e := range m.entries {
		res := map[ir.ResourceBinding]msl.BindTarget{}
		want[e.name] = map[string]int{}
		p := r.Perm(30)
		for i, rs := range m.res {
			slot := uint8(p[i])
			res[ir.ResourceBinding{Group: uint32(rs.group), Binding: uint32(rs.binding)}] = msl.BindTarget{Buffer: &slot, Mutable: rs.kind == "storage-rw"}
			want[e.name][rs.name] = int(slot)
		}
		o.PerEntryPointMap[e.name] = msl.EntryPointResources{Resources: res}
	}
	text, info, err := msl.Compile(mod, o)
	if err != nil {
		return []string{"msl: backend error with complete per-entry-point maps: " + oneLine(err.Error())}, cov
	}
	for _, e := range m.entries {
		name := e.name
		if n, ok := info.EntryPointNames[e.name]; ok && n != "" {
			name = n
		}
		kw := map[string]string{"vertex": "vertex", "fragment": "fragment", "compute": "kernel"}[e.stage]
		re := regexp.MustCompile(`(?s)\b` + kw + `\s+[\w:<>]+\s+` + regexp.QuoteMeta(name) + `\s*\((.*?)\)\s*\{`)
		mm := re.FindStringSubmatch(text)
		if mm == nil {
			problems = append(problems, fmt.Sprintf("msl: entry point %s (reported name %q) has no %s function in the output", e.name, name, kw))
			continue
		}
		params := mm[1]
		usedSet := map[string]bool{}
		for _, ri := range e.uses {
			usedSet[m.res[ri].name] = true
		}
		for _, rs := range m.res {
			pm := regexp.MustCompile(`\b` + rs.name + `\w*\s*\[\[buffer\((\d+)\)\]\]`).FindStringSubmatch(params)
			switch {
			case pm == nil && usedSet[rs.name]:
				problems = append(problems, fmt.Sprintf("msl: entry point %s uses %s but has no [[buffer(n)]] argument for it", e.name, rs.name))
			case pm != nil:
				n, _ := strconv.Atoi(pm[1])
				if n != want[e.name][rs.name] {
					problems = append(problems, fmt.Sprintf("msl: entry point %s binds %s to [[buffer(%d)]], its map says %d", e.name, rs.name, n, want[e.name][rs.name]))
				}
				if !usedSet[rs.name] {
					problems = append(problems, fmt.Sprintf("msl: entry point %s takes %s as an argument but does not use it", e.name, rs.name))
				}
				cov["msl.buffer-slots-checked"]++
			}
		}
		// stage interface attributes
		for _, io := range e.in {
			if io.loc < 0 {
				continue
			}
			var attr string
			if e.stage == "vertex" {
				attr = fmt.Sprintf("[[attribute(%d)]]", io.loc)
			} else {
				attr = fmt.Sprintf("[[user(loc%d)", io.loc)
			}
			if !regexp.MustCompile(`\b` + io.name + `(?:_\d+)?_?\s*` + regexp.QuoteMeta(attr)).MatchString(text) {
				problems = append(problems, fmt.Sprintf("msl: input %s of %s is not annotated %s…", io.name, e.name, attr))
			}
			cov["msl.interface-attributes-checked"]++
		}
		for _, io := range e.out {
			if io.loc < 0 {
				continue
			}
			var attr string
			if e.stage == "fragment" {
				attr = fmt.Sprintf("[[color(%d)]]", io.loc)
			} else {
				attr = fmt.Sprintf("[[user(loc%d)", io.loc)
			}
			found := regexp.MustCompile(`\b` + io.name + `(?:_\d+)?_?\s*` + regexp.QuoteMeta(attr)).MatchString(text)
			if !found && !e.outStruct {
				// bare return value: the attribute sits on the single member of the generated <entry>Output struct
				found = regexp.MustCompile(`struct\s+` + regexp.QuoteMeta(name) + `\w*Output\s*\{[^}]*` + regexp.QuoteMeta(attr)).MatchString(text)
			}
			if !found {
				problems = append(problems, fmt.Sprintf("msl: output %s of %s is not annotated %s…", io.name, e.name, attr))
			}
			cov["msl.interface-attributes-checked"]++
		}
	}
	// partial per-entry-point maps with FakeMissingBindings: an entry point without a map of its own gets placeholder
	// attributes for its resources, never the slots of another entry point's map
	if len(m.entries) >= 2 {
		o2 := msl.DefaultOptions()
		o2.FakeMissingBindings = true
		o2.PerEntryPointMap = map[string]msl.EntryPointResources{}
		mapped := map[string]bool{}
		for i, e := range m.entries {
			if (i == 0) != (r.Intn(4) == 0) { // usually the first entry point is the mapped one
				mapped[e.name] = true
				o2.PerEntryPointMap[e.name] = o.PerEntryPointMap[e.name]
			}
		}
		text2, info2, err := msl.Compile(mod, o2)
		if err != nil {
			return append(problems, "msl: backend error with partial per-entry-point maps and FakeMissingBindings: "+oneLine(err.Error())), cov
		}
		for _, e := range m.entries {
			name := e.name
			if n, ok := info2.EntryPointNames[e.name]; ok && n != "" {
				name = n
			}
			kw := map[string]string{"vertex": "vertex", "fragment": "fragment", "compute": "kernel"}[e.stage]
			mm := regexp.MustCompile(`(?s)\b` + kw + `\s+[\w:<>]+\s+` + regexp.QuoteMeta(name) + `\s*\((.*?)\)\s*\{`).FindStringSubmatch(text2)
			if mm == nil {
				problems = append(problems, fmt.Sprintf("msl: entry point %s has no %s function in the output (partial maps)", e.name, kw))
				continue
			}
			for _, ri := range e.uses {
				rs := m.res[ri]
				pm := regexp.MustCompile(`\b` + rs.name + `\w*\s*\[\[(buffer\((\d+)\)|user\(fake\d+\))\]\]`).FindStringSubmatch(mm[1])
				switch {
				case pm == nil:
					problems = append(problems, fmt.Sprintf("msl: partial maps: entry point %s uses %s but has no argument for it", e.name, rs.name))
				case mapped[e.name]:
					if n, _ := strconv.Atoi(pm[2]); pm[2] == "" || n != want[e.name][rs.name] {
						problems = append(problems, fmt.Sprintf("msl: partial maps: mapped entry point %s binds %s to [[%s]], its map says buffer(%d)", e.name, rs.name, pm[1], want[e.name][rs.name]))
					}
					cov["msl.partial-map.mapped-slots-checked"]++
				default:
					if pm[2] != "" {
						problems = append(problems, fmt.Sprintf("msl: partial maps: entry point %s has no map but binds %s to [[%s]] (FakeMissingBindings prescribes a placeholder attribute)", e.name, rs.name, pm[1]))
					}
					cov["msl.partial-map.unmapped-slots-checked"]++
				}
			}
		}
	}
	return problems, cov
}

func c17CheckGlsl(m *c17Module, mod *ir.Module, r *run.Rng) (problems []string, cov map[string]int) {
	cov = map[string]int{}
	for _, e := range m.entries {
		o := glsl.DefaultOptions()
		o.LangVersion = glsl.Version{Major: 4, Minor: 50}
		o.EntryPoint = e.name
		o.BindingMap = map[glsl.BindingMapKey]uint8{}
		want := map[string]int{}
		p := r.Perm(40)
		for i, rs := range m.res {
			o.BindingMap[glsl.BindingMapKey{Group: uint32(rs.group), Binding: uint32(rs.binding)}] = uint8(p[i])
			want[rs.name] = p[i]
		}
		text, info, err := glsl.Compile(mod, o)
		if err != nil {
			problems = append(problems, fmt.Sprintf("glsl: backend error for entry point %s: %s", e.name, oneLine(err.Error())))
			continue
		}
		_ = info
		if e.stage == "compute" {
			ls := fmt.Sprintf("layout(local_size_x = %d, local_size_y = %d, local_size_z = %d) in;", e.wg[0], e.wg[1], e.wg[2])
			if !strings.Contains(text, ls) {
				problems = append(problems, "glsl: entry point "+e.name+" lacks "+ls)
			}
		}
		// blocks of used resources carry the mapped binding
		usedSet := map[string]bool{}
		for _, ri := range e.uses {
			usedSet[m.res[ri].name] = true
		}
		suffix := map[string]string{"vertex": "vs", "fragment": "fs", "compute": "cs"}[e.stage]
		for _, rs := range m.res {
			inst := fmt.Sprintf("_group_%d_binding_%d_%s", rs.group, rs.binding, suffix)
			re := regexp.MustCompile(`layout\(([^)]*)\)[^;{]*\{[^}]*\b` + inst + `\b`)
			mm := re.FindStringSubmatch(text)
			if mm == nil {
				if usedSet[rs.name] {
					problems = append(problems, fmt.Sprintf("glsl: entry point %s uses %s but the output has no block for it", e.name, rs.name))
				}
				continue
			}
			if !usedSet[rs.name] {
				problems = append(problems, fmt.Sprintf("glsl: entry point %s does not use %s but the output declares its block", e.name, rs.name))
			}
			bm := regexp.MustCompile(`binding\s*=\s*(\d+)`).FindStringSubmatch(mm[1])
			if bm == nil {
				problems = append(problems, fmt.Sprintf("glsl 4.50: block of %s in entry point %s has no binding qualifier although the binding map has an entry", rs.name, e.name))
				continue
			}
			if n, _ := strconv.Atoi(bm[1]); n != want[rs.name] {
				problems = append(problems, fmt.Sprintf("glsl: block of %s in entry point %s has binding = %d, the binding map says %d", rs.name, e.name, n, want[rs.name]))
			}
			cov["glsl.block-bindings-checked"]++
		}
		// locations
		locSet := func(dir string) map[int]string {
			out := map[int]string{}
			re := regexp.MustCompile(`layout\(location\s*=\s*(\d+)[^)]*\)\s*([\w ]*?)\b` + dir + `\b`)
			for _, mm := range re.FindAllStringSubmatch(text, -1) {
				n, _ := strconv.Atoi(mm[1])
				if _, dup := out[n]; dup {
					problems = append(problems, fmt.Sprintf("glsl: entry point %s declares location %d twice as %s", e.name, n, dir))
				}
				out[n] = strings.TrimSpace(mm[2])
			}
			return out
		}
		for dir, ios := range map[string][]c17IO{"in": e.in, "out": e.out} {
			got := locSet(dir)
			wantLocs := map[int]c17IO{}
			for _, io := range ios {
				if io.loc >= 0 {
					wantLocs[io.loc] = io
				}
			}
			for l, io := range wantLocs {
				q, ok := got[l]
				if !ok {
					problems = append(problems, fmt.Sprintf("glsl: entry point %s: no layout(location = %d) %s declaration for %s", e.name, l, dir, io.name))
					continue
				}
				interp := (e.stage == "vertex" && dir == "out") || (e.stage == "fragment" && dir == "in")
				if interp {
					wantFlat := io.interp == "flat"
					wantNoP := io.interp == "linear"
					if wantFlat != strings.Contains(q, "flat") || wantNoP != strings.Contains(q, "noperspective") {
						problems = append(problems, fmt.Sprintf("glsl: entry point %s location %d %s has qualifiers %q, WGSL says interpolate(%s, %s)", e.name, l, dir, q, io.interp, io.sampl))
					}
					if (io.sampl == "centroid") != strings.Contains(q, "centroid") || (io.sampl == "sample") != strings.Contains(q, "sample") {
						problems = append(problems, fmt.Sprintf("glsl: entry point %s location %d %s has qualifiers %q, WGSL says interpolate(%s, %s)", e.name, l, dir, q, io.interp, io.sampl))
					}
				}
				cov["glsl.locations-checked"]++
			}
			for l := range got {
				if _, ok := wantLocs[l]; !ok {
					problems = append(problems, fmt.Sprintf("glsl: entry point %s declares layout(location = %d) %s that WGSL does not", e.name, l, dir))
				}
			}
		}
	}
	return problems, cov
}

// ---------- the check ----------

func C17(c *run.Ctx) int {
	replayWitnesses(c, map[string]func(witness) string{"spirv-decoration": witnessSpirvDecoration, "exec-spirv": witnessExecSpirv})
	n := c.N(600, 8000)
	vers := []spirv.Version{spirv.Version1_0, spirv.Version1_3, spirv.Version1_4, spirv.Version1_6}
	c.Each(n, func(i int) (string, run.Outcome) {
		seed := run.CaseSeed(c.Seed, "iface", i)
		r := run.NewRng(seed)
		id := fmt.Sprintf("module-%d", i)
		m := c17Gen(r)
		mod, stage, err := lowerSrc(m.src)
		if err != nil {
			return id, run.Outcome{V: run.Inconclusive, Reason: "front end rejected the generated module (C08 territory): " + stage + ": " + oneLine(err.Error())}
		}
		cov := map[string]int{}
		var first *run.Outcome
		note := func(lane string, probs []string, extra map[string]any) {
			for _, p := range probs {
				class := lane + ":" + c17Class(p)
				o := run.Outcome{V: run.Violated, Class: class, Reason: id + ": " + p, Witness: map[string]any{"wgsl": m.src}}
				for k, v := range extra {
					o.Witness[k] = v
				}
				if c.KnownMatch(class, o.Reason) {
					cov["known-finding-instances:"+class]++
					continue
				}
				if first == nil {
					first = &o
				}
			}
		}
		add := func(cv map[string]int) {
			for k, v := range cv {
				cov[k] += v
			}
		}
		ver := vers[r.Intn(len(vers))]
		fps := r.Chance(1, 3)
		bin, err := naga.GenerateSPIRV(mod, spirv.Options{Version: ver, ForcePointSize: fps, Debug: true})
		if err != nil {
			note("spirv", []string{"spirv: backend error: " + oneLine(err.Error())}, nil)
		} else {
			p, cv := c17CheckSpirv(m, bin, ver, fps)
			note("spirv", p, map[string]any{"spirv_version": fmt.Sprintf("%d.%d", ver.Major, ver.Minor)})
			add(cv)
		}
		for _, lane := range []struct {
			name string
			f    func(*c17Module, *ir.Module, *run.Rng) ([]string, map[string]int)
		}{{"hlsl", c17CheckHlsl}, {"msl", c17CheckMsl}, {"glsl", c17CheckGlsl}} {
			var p []string
			var cv map[string]int
			if st, pan := run.Catch(func() { p, cv = lane.f(m, mod, r.Split()) }); pan {
				p = []string{lane.name + ": panic: " + oneLine(st[:min(200, len(st))])}
			}
			note(lane.name, p, nil)
			add(cv)
		}
		if first != nil {
			first.Cov = cov
			return id, *first
		}
		stages := ""
		for _, e := range m.entries {
			stages += e.stage[:1]
		}
		nio := 0
		for _, e := range m.entries {
			nio += len(e.in) + len(e.out)
		}
		return id, run.Outcome{V: run.Held, Sig: fmt.Sprintf("stages=%s res=%d io=%d %x", stages, len(m.res), nio, seed&0xffff), Trivial: len(m.entries) < 2 && nio < 2, Cov: cov,
			Sample: map[string]any{"wgsl": m.src, "entry_points": len(m.entries), "resources": len(m.res)}}
	})
	return c.Finish("modules with 1-4 entry points of mixed stages (vertex / fragment / compute), 1-5 buffer resources (uniform, storage read_write, storage read) with random distinct @group/@binding shared or not between entry points and reached directly or through a helper function, bare and struct stage inputs / outputs at random locations 0-15 with interpolation, sampling and @invariant attributes, every builtin valid for the stage, random workgroup sizes; "+
		"SPIR-V: the binary is decoded independently (OpEntryPoint model / name / interface list, OpExecutionMode, OpDecorate DescriptorSet / Binding / Location / BuiltIn / Flat / NoPerspective / Centroid / Sample / Invariant / NonWritable, storage classes) and compared with the generator's records, incl. exact interface lists from SPIR-V 1.4 on; HLSL: register(x#, space#) against a random BindingMap, semantics of every interface member, numthreads, entry names; MSL: [[buffer(n)]] arguments of every entry point against random per-entry-point maps, [[attribute]] / [[user(loc)]] / [[color]] attributes; GLSL (per entry point): block binding qualifiers against a random BindingMap, layout(location) in / out sets with interpolation qualifiers, local_size; "+
		"distinct = distinct (stage sequence, resource count, interface size, seed bits); non-trivial = at least two entry points or two interface members",
		[]string{"the text lanes read annotations with regular expressions anchored on the generator's unique identifier stems (res<i>, a_loc<n>, v_loc<n>, o_loc<n>, b_<builtin>)", "textures, samplers and binding arrays are not generated"})
}

// c17Class normalises a problem text into a class (numbers and names removed).
func c17Class(p string) string {
	p = regexp.MustCompile(`%?\b\d+\b`).ReplaceAllString(p, "N")
	p = regexp.MustCompile(`\b(ep|res|helper)N?\d*\b`).ReplaceAllString(p, "X")
	p = regexp.MustCompile(`\b[abvo]_(loc)?\w*`).ReplaceAllString(p, "io")
	p = regexp.MustCompile(`\{.*\}`).ReplaceAllString(p, "{…}")
	if len(p) > 110 {
		p = p[:110]
	}
	return p
}

// witnessSpirvDecoration: header "// require-decoration <Name>": the SPIR-V of the witness must contain that decoration.
func witnessSpirvDecoration(w witness) string {
	mod, stage, err := lowerSrc(w.Src)
	if err != nil {
		return stage + ": " + err.Error()
	}
	bin, err := naga.GenerateSPIRV(mod, spirv.Options{Version: spirv.Version1_3})
	if err != nil {
		return "spirv: " + err.Error()
	}
	sm, err := spvx.Parse(bin)
	if err != nil {
		return err.Error()
	}
	codes := map[string]uint32{"Invariant": 18, "Flat": 14, "NoPerspective": 13, "Centroid": 16, "Sample": 17, "NonWritable": 24}
	for _, l := range splitLines(w.Src) {
		var name string
		if n, _ := fmt.Sscanf(l, "// require-decoration %s", &name); n == 1 {
			found := false
			for _, ds := range sm.Decos {
				for _, d := range ds {
					if d.Kind == codes[name] {
						found = true
					}
				}
			}
			if !found {
				return "no OpDecorate ... " + name + " in the emitted module"
			}
		}
	}
	return ""
}
