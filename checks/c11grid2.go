package checks

import (
	"fmt"
	"strings"

	"verif/internal/run"
)

// c11ScopeAndSwizzleGrid: two further grids of (ill-formed program, well-formed sibling) pairs.
//
//   - swizzles: every component pattern of length 1-4 over xyzw and over rgba that names a component beyond the width of
//     a vec2 / vec3 operand (whatever the position of the offending letter), and every pattern that mixes the two
//     naming sets, in four syntactic contexts (value, through a pointer, assignment target, nested block of a helper);
//   - identifiers out of scope: a name declared by one of nine kinds of local declaration (untyped / typed const, let,
//     var, nested-block let, for-initialiser, loop-body var, parameter, pointer let) in one function and used, undeclared,
//     in another function (declared before or after it) or after the declaring block has closed.
//
// The ill-formed program must be rejected before any output is produced, with a position inside the source; the sibling
// (offending token replaced by a well-formed one) must compile, otherwise the pair is inconclusive.
func c11ScopeAndSwizzleGrid(c *run.Ctx) {
	type tcase struct{ id, bad, good, rule string }
	var list []tcase
	// ---- swizzles ----
	sets := []string{"xyzw", "rgba"}
	var pats func(set string, n int) []string
	pats = func(set string, n int) []string {
		if n == 0 {
			return []string{""}
		}
		var out []string
		for _, p := range pats(set, n-1) {
			for _, ch := range set {
				out = append(out, p+string(ch))
			}
		}
		return out
	}
	ctxs := []struct{ name, body string }{
		{"value", "let q = vW.PAT; o[0] = u32(q.x);"},
		{"pointer", "let p = &vW; let q = (*p).PAT; o[0] = u32(q.x);"},
		{"nested-helper", "o[0] = hW();"},
		{"compound", "o[0] += u32((vW.PAT).x);"},
	}
	thorough := c.Tier == "thorough"
	for w := 2; w <= 3; w++ {
		for si, set := range sets {
			for n := 1; n <= 4; n++ {
				for pi, p := range pats(set, n) {
					beyond := false
					for _, ch := range p {
						if strings.IndexRune(set, ch) >= w {
							beyond = true
						}
					}
					if !beyond {
						continue
					}
					for ci, cx := range ctxs {
						// quick tier: every pattern in one context (rotating), thorough: every context
						if !thorough && (pi+si+n)%len(ctxs) != ci {
							continue
						}
						mk := func(pat string) string {
							body := strings.ReplaceAll(strings.ReplaceAll(cx.body, "PAT", pat), "W", fmt.Sprint(w))
							if n == 1 { // a single component is a scalar: no .x on the result
								body = strings.ReplaceAll(strings.ReplaceAll(body, "u32(q.x)", "u32(q)"), "u32((v"+fmt.Sprint(w)+"."+pat+").x)", "u32(v"+fmt.Sprint(w)+"."+pat+")")
							}
							helper := fmt.Sprintf("fn h%d() -> u32 { var r = 0u; { if v%d.x > 0.0 { let q = v%d.%s; r = u32(q%s); } } return r; }\n", w, w, w, pat, map[bool]string{true: "", false: ".x"}[n == 1])
							return hostilePrelude + fmt.Sprintf("var<private> v%d: vec%d<f32>;\n", w, w) + helper +
								"@compute @workgroup_size(1) fn main() {\n" + body + "\n}\n"
						}
						good := strings.Repeat(string(set[0]), n)
						list = append(list, tcase{fmt.Sprintf("swizzle-grid:vec%d:%s:%s", w, p, cx.name), mk(p), mk(good), "swizzle-beyond-width"})
					}
				}
			}
		}
		// mixed naming sets (all components within the width)
		for n := 2; n <= 4; n++ {
			for _, p := range pats("xyrg"[:4], n) {
				hasX := strings.ContainsAny(p, "xy")
				hasR := strings.ContainsAny(p, "rg")
				if !(hasX && hasR) {
					continue
				}
				src := func(pat string) string {
					return hostilePrelude + fmt.Sprintf("var<private> v: vec%d<f32>;\n@compute @workgroup_size(1) fn main() {\n    let q = v.%s; o[0] = u32(q.x);\n}\n", w, pat)
				}
				list = append(list, tcase{fmt.Sprintf("swizzle-grid:vec%d:mixed:%s", w, p), src(p), src(strings.Repeat("x", n)), "swizzle-mixed-sets"})
			}
		}
	}
	// ---- identifiers out of scope ----
	decls := []struct{ name, stmt string }{
		{"untyped-const", "const NAME = 3;"},
		{"typed-const", "const NAME: u32 = 3u;"},
		{"let", "let NAME = 3u;"},
		{"var", "var NAME = 3u;"},
		{"nested-let", "{ let NAME = 3u; o[1] = NAME; }"},
		{"for-init", "for (var NAME = 0u; NAME < 2u; NAME++) { o[1] = NAME; }"},
		{"loop-var", "loop { var NAME = 1u; o[1] = NAME; break; }"},
		{"pointer-let", "var backing = 3u; let NAME = &backing; o[1] = *NAME;"},
		{"untyped-const-in-block", "if o[3] == 0u { const NAME = 3; o[1] = u32(NAME); }"},
	}
	uses := []struct{ name, expr string }{
		{"value", "o[0] = u32(NAME) + 1u;"},
		{"let", "let t = NAME; o[0] = u32(t);"},
		{"index", "o[NAME] = 1u;"},
		{"condition", "if NAME > 1 { o[0] = 1u; }"},
		{"argument", "o[0] = min(u32(NAME), 2u);"},
	}
	for di, d := range decls {
		for ui, u := range uses {
			if d.name == "pointer-let" && u.name != "let" {
				continue
			}
			for oi, order := range []string{"declaring-function-first", "declaring-function-last", "same-function-after-block", "param-of-other"} {
				if !thorough && (di+ui)%2 != oi%2 {
					continue
				}
				name := []string{"scale", "k", "tmp_1", "n0"}[(di+ui+oi)%4]
				decl := strings.ReplaceAll(d.stmt, "NAME", name)
				use := strings.ReplaceAll(u.expr, "NAME", name)
				useGood := strings.ReplaceAll(u.expr, "NAME", "2")
				var bad, good string
				switch order {
				case "declaring-function-first":
					helper := "fn helper() -> u32 {\n    " + decl + "\n    return o[2];\n}\n"
					bad = hostilePrelude + helper + "@compute @workgroup_size(1) fn main() {\n    o[2] = helper();\n    " + use + "\n}\n"
					good = hostilePrelude + helper + "@compute @workgroup_size(1) fn main() {\n    o[2] = helper();\n    " + useGood + "\n}\n"
				case "declaring-function-last":
					helper := "fn helper() -> u32 {\n    " + decl + "\n    return o[2];\n}\n"
					bad = hostilePrelude + "@compute @workgroup_size(1) fn main() {\n    o[2] = helper();\n    " + use + "\n}\n" + helper
					good = hostilePrelude + "@compute @workgroup_size(1) fn main() {\n    o[2] = helper();\n    " + useGood + "\n}\n" + helper
				case "same-function-after-block":
					bad = hostilePrelude + "@compute @workgroup_size(1) fn main() {\n    {\n        " + decl + "\n    }\n    " + use + "\n}\n"
					good = hostilePrelude + "@compute @workgroup_size(1) fn main() {\n    {\n        " + decl + "\n    }\n    " + useGood + "\n}\n"
				default:
					if di > 0 {
						continue
					}
					helper := "fn helper(" + name + ": u32) -> u32 {\n    return " + name + " + o[2];\n}\n"
					bad = hostilePrelude + helper + "@compute @workgroup_size(1) fn main() {\n    o[2] = helper(1u);\n    " + use + "\n}\n"
					good = hostilePrelude + helper + "@compute @workgroup_size(1) fn main() {\n    o[2] = helper(1u);\n    " + useGood + "\n}\n"
				}
				list = append(list, tcase{fmt.Sprintf("scope-grid:%s:%s:%s", d.name, u.name, order), bad, good, "out-of-scope-identifier"})
			}
		}
	}
	// ---- undeclared types whose names resemble predeclared ones ----
	tnames := []string{"texturezzz", "texture_2dd", "texture_info", "sampler2", "vec5", "vec2ff", "mat2x5f", "arrayy", "atomicc", "ptrr", "f33", "u32x", "boool", "Texture_2d"}
	tpos := []struct{ name, src string }{
		{"param", "fn f(t: TYPE) -> u32 { return 1u; }\n@compute @workgroup_size(1) fn main() { o[0] = 2u; }\n"},
		{"private-var", "var<private> pv: TYPE;\n@compute @workgroup_size(1) fn main() { o[0] = 2u; }\n"},
		{"local-var", "@compute @workgroup_size(1) fn main() { var lv: TYPE; o[0] = 2u; }\n"},
		{"struct-member", "struct S { a: u32, b: TYPE }\n@compute @workgroup_size(1) fn main() { o[0] = 2u; }\n"},
		{"alias", "alias A = TYPE;\n@compute @workgroup_size(1) fn main() { o[0] = 2u; }\n"},
		{"array-element", "var<private> av: array<TYPE, 2>;\n@compute @workgroup_size(1) fn main() { o[0] = 2u; }\n"},
		{"return-type", "fn f() -> TYPE { }\n@compute @workgroup_size(1) fn main() { o[0] = 2u; }\n"},
		{"pointer-pointee", "fn f(p: ptr<function, TYPE>) { }\n@compute @workgroup_size(1) fn main() { o[0] = 2u; }\n"},
	}
	for _, tn := range tnames {
		for _, tp := range tpos {
			good := strings.ReplaceAll(tp.src, "TYPE", "u32")
			if tp.name == "return-type" {
				good = strings.ReplaceAll(good, "{ }", "{ return 1u; }")
			}
			list = append(list, tcase{fmt.Sprintf("type-grid:%s:%s", tn, tp.name), hostilePrelude + strings.ReplaceAll(tp.src, "TYPE", tn), hostilePrelude + good, "undeclared-type"})
		}
	}
	c.Each(len(list), func(i int) (string, run.Outcome) {
		t := list[i]
		w := map[string]any{"wgsl": t.bad, "case": t.id}
		viol := func(class, msg string) run.Outcome {
			o := run.Outcome{V: run.Violated, Class: class, Reason: t.id + ": " + msg, Witness: w}
			if c.KnownMatch(o.Class, o.Reason) {
				return run.Outcome{V: run.Held, Sig: "known:" + class, Trivial: true, Cov: map[string]int{"known-finding-instances": 1}}
			}
			return o
		}
		if st, msg := rejectedBy(t.good); st != "" {
			return t.id, run.Outcome{V: run.Inconclusive, Reason: "well-formed sibling rejected (" + st + "): " + oneLine(msg)}
		}
		stage, msg := rejectedBy(t.bad)
		switch stage {
		case "":
			return t.id, viol("accepted:"+t.rule, "compiled to output")
		case "panic":
			return t.id, viol("panic:"+t.rule, msg)
		case "backend":
			return t.id, viol("late-rejection:"+t.rule, "only the backend failed: "+oneLine(msg))
		}
		l, col, has := errPos(msg)
		lines := strings.Count(t.bad, "\n") + 1
		if !has {
			return t.id, viol("no-position:"+t.rule, "error carries no source position: "+oneLine(msg))
		}
		if l < 1 || l > lines || col < 1 {
			return t.id, viol("position-outside-source:"+t.rule, fmt.Sprintf("position %d:%d outside the %d-line source: %s", l, col, lines, oneLine(msg)))
		}
		fam := strings.SplitN(t.id, ":", 2)[0]
		return t.id, run.Outcome{V: run.Held, Sig: t.id, Cov: map[string]int{fam + ":rejected:" + stage: 1, fam + ":rule:" + t.rule: 1},
			Sample: map[string]any{"case": t.id, "stage": stage}}
	})
}
