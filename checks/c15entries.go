package checks

import (
	"encoding/binary"
	"fmt"
	"strings"

	"github.com/gogpu/naga"
	"github.com/gogpu/naga/spirv"
	"verif/internal/run"
	"verif/internal/spvx"
	"verif/internal/xrt"
)

// c15EntryGraph: workgroup zero-initialisation must hold for EVERY entry point of a module, however the entry point
// reaches the variable. The programs have 2-4 compute entry points and a random acyclic helper call graph (chains,
// diamonds, helpers shared between entry points, helpers reached both directly and through another helper); some
// helpers read a var<workgroup> before anything wrote it. With all workgroup memory zero the value of every helper
// is known, so each entry point's output is computed here and compared; the interpreters start workgroup memory as
// poison, so a missing initialisation prologue is a trap as well.
func c15EntryGraph(c *run.Ctx) {
	n := c.N(120, 1500)
	c.Each(n, func(i int) (string, run.Outcome) {
		r := run.NewRng(run.CaseSeed(c.Seed, "c15-entry-graph", i))
		id := fmt.Sprintf("entry-graph-%d", i)
		nW, nH, nE := r.Range(1, 3), r.Range(2, 6), r.Range(2, 4)
		var sb strings.Builder
		sb.WriteString("@group(0) @binding(0) var<storage, read_write> o: array<u32, 64>;\n")
		wkind := make([]int, nW)
		for w := 0; w < nW; w++ {
			wkind[w] = r.Intn(4)
			switch wkind[w] {
			case 0:
				fmt.Fprintf(&sb, "var<workgroup> w%d: u32;\n", w)
			case 1:
				fmt.Fprintf(&sb, "var<workgroup> w%d: array<u32, 4>;\n", w)
			case 2:
				fmt.Fprintf(&sb, "var<workgroup> w%d: atomic<u32>;\n", w)
			case 3:
				fmt.Fprintf(&sb, "struct S%d { a: u32, v: vec3<u32>, m: array<atomic<u32>, 2>, }\nvar<workgroup> w%d: S%d;\n", w, w, w)
			}
		}
		readW := func(w int) string {
			switch wkind[w] {
			case 0:
				return fmt.Sprintf("w%d", w)
			case 1:
				return fmt.Sprintf("w%d[%d]", w, r.Intn(4))
			case 2:
				return fmt.Sprintf("atomicLoad(&w%d)", w)
			}
			return []string{fmt.Sprintf("w%d.a", w), fmt.Sprintf("w%d.v.y", w), fmt.Sprintf("atomicLoad(&w%d.m[1])", w)}[r.Intn(3)]
		}
		// helpers: h_k may call h_j for j < k; value(h_k) = c_k + sum(value(callee)) (workgroup reads contribute 0)
		val := make([]uint32, nH)
		usesW := make([]bool, nH) // directly
		callees := make([][]int, nH)
		for k := 0; k < nH; k++ {
			ck := uint32(r.Range(1, 9))
			val[k] = ck
			terms := []string{fmt.Sprintf("%du", ck)}
			if r.Chance(2, 5) || k == 0 {
				usesW[k] = true
				terms = append(terms, readW(r.Intn(nW)))
			}
			for j := 0; j < k; j++ {
				if r.Chance(2, 5) {
					callees[k] = append(callees[k], j)
					val[k] += val[j]
					terms = append(terms, fmt.Sprintf("h%d()", j))
				}
			}
			// random term order: the call may come before or after the workgroup read
			for a := len(terms) - 1; a > 0; a-- {
				b := r.Intn(a + 1)
				terms[a], terms[b] = terms[b], terms[a]
			}
			fmt.Fprintf(&sb, "fn h%d() -> u32 { return %s; }\n", k, strings.Join(terms, " + "))
		}
		type entry struct {
			name   string
			calls  []int
			want   []uint32
			direct bool
		}
		var entries []entry
		reaches := func(k int) bool {
			seen := map[int]bool{}
			var walk func(int) bool
			walk = func(x int) bool {
				if seen[x] {
					return false
				}
				seen[x] = true
				if usesW[x] {
					return true
				}
				for _, j := range callees[x] {
					if walk(j) {
						return true
					}
				}
				return false
			}
			return walk(k)
		}
		anyReach := 0
		for e := 0; e < nE; e++ {
			en := entry{name: fmt.Sprintf("ep%d", e)}
			nc := r.Range(1, 3)
			for a := 0; a < nc; a++ {
				en.calls = append(en.calls, r.Intn(nH))
			}
			if e > 0 && r.Chance(1, 2) {
				// a later entry point that reaches workgroup memory only through the last (most derived) helper
				en.calls = []int{nH - 1}
			}
			fmt.Fprintf(&sb, "@compute @workgroup_size(1) fn %s() {\n", en.name)
			for a, k := range en.calls {
				fmt.Fprintf(&sb, "    o[%d] = h%d();\n", e*8+a, k)
				en.want = append(en.want, val[k])
				if reaches(k) {
					anyReach++
				}
			}
			if r.Chance(1, 4) {
				en.direct = true
				fmt.Fprintf(&sb, "    o[%d] = %s + 77u;\n", e*8+7, readW(r.Intn(nW)))
			}
			sb.WriteString("}\n")
			entries = append(entries, en)
		}
		src := sb.String()
		if anyReach == 0 {
			return id, run.Outcome{V: run.Inconclusive, Reason: "no entry point reaches workgroup memory through a helper"}
		}
		mod, stage, err := lowerSrc(src)
		if err != nil {
			return id, run.Outcome{V: run.Inconclusive, Reason: "front end rejected the template: " + stage + ": " + oneLine(err.Error())}
		}
		cov := map[string]int{}
		var first *run.Outcome
		report := func(lane, class, msg string, extra map[string]any) {
			w := map[string]any{"wgsl": src, "lane": lane}
			for k, v := range extra {
				w[k] = v
			}
			o := c16Viol(c, "entry-graph:"+lane+":"+class, id+": "+msg, w, "")
			if o.V == run.Violated && first == nil {
				first = &o
			} else if o.V != run.Violated {
				cov["known-finding-instances:entry-graph:"+lane+":"+class]++
			}
		}
		checkBuf := func(lane string, en entry, ei int, buf []byte, extra map[string]any) {
			for a, w := range en.want {
				if got := binary.LittleEndian.Uint32(buf[(ei*8+a)*4:]); got != w {
					report(lane, "value", fmt.Sprintf("[%s] entry point %s: o[%d] = %d, with zero-initialised workgroup memory h%d() is %d", lane, en.name, ei*8+a, got, en.calls[a], w), extra)
					return
				}
			}
			if en.direct {
				if got := binary.LittleEndian.Uint32(buf[(ei*8+7)*4:]); got != 77 {
					report(lane, "value", fmt.Sprintf("[%s] entry point %s: o[%d] = %d, expected 77", lane, en.name, ei*8+7, got), extra)
					return
				}
			}
			cov["entry-graph:"+lane+":entry-points-checked"]++
		}
		// SPIR-V lanes
		for _, v := range []struct {
			name string
			ver  spirv.Version
		}{{"v1.0", spirv.Version1_0}, {"v1.3", spirv.Version1_3}, {"v1.4", spirv.Version1_4}, {"v1.5", spirv.Version1_5}} {
			lane := "spirv/" + v.name
			bin, err := naga.GenerateSPIRV(mod, spirv.Options{Version: v.ver})
			if err != nil {
				report(lane, "backend-error", oneLine(err.Error()), nil)
				continue
			}
			sm, err := spvx.Parse(bin)
			if err != nil {
				report(lane, "parse", oneLine(err.Error()), nil)
				continue
			}
			for ei, en := range entries {
				bufs := xrt.Buffers{xrt.Slot{A: 0, B: 0}: make([]byte, 256)}
				res, err := spvx.Run(sm, en.name, bufs, xrt.Options{TrapMode: true})
				if err != nil {
					if isUnsupported(err) {
						cov["unsupported:"+lane]++
						continue
					}
					report(lane, "exec-error", fmt.Sprintf("entry point %s: %s", en.name, oneLine(err.Error())), nil)
					continue
				}
				if len(res.Traps) > 0 {
					report(lane, "trap:"+string(res.Traps[0].Kind), fmt.Sprintf("entry point %s: %s", en.name, oneLine(res.Traps[0].Error())), nil)
					continue
				}
				checkBuf(lane, en, ei, bufs[xrt.Slot{}], nil)
			}
		}
		// text lanes (default options: ZeroInitializeWorkgroupMemory on)
		for _, be := range []textBackend{hlslBackend, mslBackend, glslBackend} {
			lane := be.name
			for ei, en := range entries {
				rs := resOfModule(mod)
				for k := range rs {
					rs[k].Image = make([]byte, 256)
				}
				var tr textRun
				if st, pan := run.Catch(func() { tr = be.run(mod, en.name, rs, [3]uint32{1, 1, 1}, false, 0, true) }); pan {
					report(lane, "panic", oneLine(st[:min(200, len(st))]), nil)
					continue
				}
				extra := map[string]any{"emitted": tr.text}
				switch {
				case tr.err != nil:
					report(lane, "backend-error", oneLine(tr.err.Error()), extra)
					continue
				case tr.parse != nil || len(tr.static) > 0 || (tr.runErr != nil && isUnsupported(tr.runErr)):
					cov["unsupported:"+lane]++
					continue
				case tr.runErr != nil:
					report(lane, "exec-error", fmt.Sprintf("entry point %s: %s", en.name, oneLine(tr.runErr.Error())), extra)
					continue
				}
				if len(tr.traps) > 0 {
					report(lane, "trap:"+string(tr.traps[0].Kind), fmt.Sprintf("entry point %s: %s", en.name, oneLine(tr.traps[0].Error())), extra)
					continue
				}
				if b := tr.get(0); len(b) >= 256 {
					checkBuf(lane, en, ei, b, extra)
				}
			}
		}
		if first != nil {
			first.Cov = cov
			return id, *first
		}
		return id, run.Outcome{V: run.Held, Sig: fmt.Sprintf("entry-graph w=%d h=%d e=%d kinds=%v", nW, nH, nE, wkind), Cov: cov, Sample: map[string]any{"wgsl": src}}
	})
}
