package checks

import (
	"bufio"
	"encoding/binary"
	"fmt"
	"github.com/gogpu/naga/ir"
	"os"
	"path/filepath"
	"sort"
	"strconv"
	"strings"

	"github.com/gogpu/naga"
	"github.com/gogpu/naga/spirv"
	"verif/internal/irstrict"
	"verif/internal/run"
	"verif/internal/spvval"
	"verif/internal/spvx"
	"verif/internal/xrt"
)

// A witness is a hand-written WGSL file under /verif/findings with a header:
//
//	// finding=Fnn property=C01,C15 status=known|fixed kind=accept|exec-spirv|...
//	// expect <group>,<binding>[<word>] = <u32>          (exec kinds; buffers are 256 bytes, word i = i)
//
// known + still failing  -> "KNOWN-FINDING: property=… …" (exit code unaffected)
// known + passing        -> a note in the evidence ("no longer reproduces")
// fixed + failing        -> VIOLATION (a fixed entry suppresses nothing)
type witness struct {
	File    string
	ID      string
	Props   []string
	Status  string
	Kind    string
	What    string
	Src     string
	Expects []wexpect
}

type wexpect struct {
	Slot xrt.Slot
	Word int
	Val  uint32
}

func loadWitnesses(root, prop string) []witness {
	files, _ := filepath.Glob(filepath.Join(root, "findings", "*.wgsl"))
	sort.Strings(files)
	var out []witness
	for _, f := range files {
		b, err := os.ReadFile(f)
		if err != nil {
			continue
		}
		w := witness{File: f, Src: string(b)}
		sc := bufio.NewScanner(strings.NewReader(w.Src))
		line := 0
		for sc.Scan() {
			l := strings.TrimSpace(sc.Text())
			if !strings.HasPrefix(l, "//") {
				break
			}
			l = strings.TrimSpace(l[2:])
			line++
			switch {
			case line == 1:
				for _, kv := range strings.Fields(l) {
					k, v, _ := strings.Cut(kv, "=")
					switch k {
					case "finding":
						w.ID = v
					case "property":
						w.Props = strings.Split(v, ",")
					case "status":
						w.Status = v
					case "kind":
						w.Kind = v
					}
				}
			case strings.HasPrefix(l, "expect "):
				var g, bnd, word int
				var val uint64
				rest := strings.TrimPrefix(l, "expect ")
				lhs, rhs, _ := strings.Cut(rest, "=")
				if _, err := fmt.Sscanf(strings.TrimSpace(lhs), "%d,%d[%d]", &g, &bnd, &word); err == nil {
					val, _ = strconv.ParseUint(strings.TrimSpace(rhs), 10, 32)
					w.Expects = append(w.Expects, wexpect{xrt.Slot{A: uint32(g), B: uint32(bnd)}, word, uint32(val)})
				}
			case w.What == "":
				w.What = l
			}
		}
		if w.Kind == "" {
			w.Kind = "accept"
		}
		for _, p := range w.Props {
			if p == prop {
				out = append(out, w)
			}
		}
	}
	return out
}

// runWitness returns "" when the witness behaves as WGSL prescribes, else a description of the failure.
func runWitness(w witness, kinds map[string]func(w witness) string) string {
	f, ok := kinds[w.Kind]
	if !ok {
		return "SKIP"
	}
	st, pan := run.Catch(func() {})
	_ = st
	_ = pan
	var res string
	if stack, panicked := run.Catch(func() { res = f(w) }); panicked {
		return "panic: " + strings.SplitN(stack, "\n", 2)[0]
	}
	return res
}

// replayWitnesses runs every witness of this property whose kind the check supports.
func replayWitnesses(c *run.Ctx, kinds map[string]func(w witness) string) {
	for _, w := range loadWitnesses(c.Verif, c.Prop) {
		r := runWitness(w, kinds)
		if r == "SKIP" {
			continue
		}
		c.AddCov("witness.replayed", 1)
		switch {
		case w.Status == "fixed" && r != "":
			c.Record("witness-"+w.ID, run.Outcome{V: run.Violated, Class: "fixed-finding-returned", Reason: w.ID + " (" + w.What + "): " + r,
				Witness: map[string]any{"wgsl": w.Src, "file": w.File}})
		case w.Status == "known" && r != "":
			c.Known(w.ID, w.What+" ["+filepath.Base(w.File)+": "+oneLine(r)+"]")
		case w.Status == "known":
			c.Note("known finding %s no longer reproduces on this tree (%s)", w.ID, filepath.Base(w.File))
		}
	}
}

func oneLine(s string) string {
	s = strings.ReplaceAll(s, "\n", " | ")
	if len(s) > 160 {
		s = s[:160] + "…"
	}
	return s
}

// ---- witness kinds ----

func witnessAccept(w witness) string {
	mod, stage, err := lowerSrc(w.Src)
	if err != nil {
		return stage + ": " + err.Error()
	}
	if ve, err := naga.Validate(mod); err != nil {
		return "validate: " + err.Error()
	} else if len(ve) > 0 {
		return "validate: " + ve[0].Error()
	}
	for _, be := range acceptBackends {
		if err := be.compile(mod); err != nil {
			return be.name + ": " + err.Error()
		}
	}
	return ""
}

func patternBuffers(mod *irModule) xrt.Buffers {
	bufs := xrt.Buffers{}
	for _, g := range mod.GlobalVariables {
		if g.Binding != nil {
			buf := make([]byte, 256)
			for i := 0; i < 64; i++ {
				binary.LittleEndian.PutUint32(buf[i*4:], uint32(i))
			}
			bufs[xrt.Slot{A: g.Binding.Group, B: g.Binding.Binding}] = buf
		}
	}
	return bufs
}

func checkExpects(w witness, bufs xrt.Buffers) string {
	for _, e := range w.Expects {
		b := bufs[e.Slot]
		if b == nil || e.Word*4+4 > len(b) {
			return fmt.Sprintf("no buffer %v word %d", e.Slot, e.Word)
		}
		if got := binary.LittleEndian.Uint32(b[e.Word*4:]); got != e.Val {
			return fmt.Sprintf("%v[%d] = %d, WGSL prescribes %d", e.Slot, e.Word, got, e.Val)
		}
	}
	return ""
}

func witnessExecSpirv(w witness) string {
	mod, stage, err := lowerSrc(w.Src)
	if err != nil {
		return stage + ": " + err.Error()
	}
	bin, err := naga.GenerateSPIRV(mod, spirv.Options{Version: spirv.Version1_3})
	if err != nil {
		return "spirv: " + err.Error()
	}
	sm, err := spvx.Parse(bin)
	if err != nil {
		return "spvx parse: " + err.Error()
	}
	bufs := patternBuffers(mod)
	res, err := spvx.Run(sm, mod.EntryPoints[0].Name, bufs, xrt.Options{TrapMode: true})
	if err != nil {
		return "spvx: " + err.Error()
	}
	if len(res.Traps) > 0 {
		return "trap: " + res.Traps[0].Error()
	}
	return checkExpects(w, bufs)
}

func witnessSpirvValid(w witness) string {
	mod, stage, err := lowerSrc(w.Src)
	if err != nil {
		return stage + ": " + err.Error()
	}
	for _, v := range []spirv.Version{spirv.Version1_0, spirv.Version1_3, spirv.Version1_6} {
		bin, err := naga.GenerateSPIRV(mod, spirv.Options{Version: v})
		if err != nil {
			return "spirv: " + err.Error()
		}
		rep := spvval.Validate(bin, spvval.Options{RequestedVersion: [2]int{int(v.Major), int(v.Minor)}})
		if len(rep.Findings) > 0 {
			return fmt.Sprintf("v%d.%d: %s", v.Major, v.Minor, rep.Findings[0])
		}
	}
	return ""
}

// witnessIRStrict: the lowered module must satisfy the strict IR contract apart from findings attributed to OTHER known entries.
func witnessIRStrictWith(c *run.Ctx) func(w witness) string {
	return func(w witness) string {
		mod, stage, err := lowerSrc(w.Src)
		if err != nil {
			return stage + ": " + err.Error()
		}
		rep := irstrict.Check(mod, irstrict.Lowered)
		for _, f := range rep.Findings {
			if c.KnownMatch(f.Rule+":"+normErr(f.Detail), "witness-"+w.ID+": "+f.Detail) {
				continue
			}
			return f.String()
		}
		return ""
	}
}

// witnessExecText compiles the witness with a text backend (first option set), runs the emitted text in the matching
// interpreter on pattern buffers and checks static monitors, traps and the listed expectations.
func witnessExecText(be textBackend) func(w witness) string {
	return func(w witness) string {
		mod, stage, err := lowerSrc(w.Src)
		if err != nil {
			return stage + ": " + err.Error()
		}
		// header lines "// pc <override> = <value>": the module is first resolved by ir.ProcessOverrides
		pc := ir.PipelineConstants{}
		for _, l := range splitLines(w.Src) {
			var k string
			var v float64
			if n, _ := fmt.Sscanf(l, "// pc %s = %g", &k, &v); n == 2 {
				pc[k] = v
			}
		}
		if len(pc) > 0 {
			clone := ir.CloneModuleForOverrides(mod)
			if err := ir.ProcessOverrides(clone, pc); err != nil {
				return "ProcessOverrides: " + err.Error()
			}
			mod = clone
		}
		rs := resOfModule(mod)
		oi := 0 // header "// option-set <substring of the option-set name>" selects the option set (default: the first)
		for _, l := range splitLines(w.Src) {
			var sub string
			if n, _ := fmt.Sscanf(l, "// option-set %s", &sub); n == 1 {
				for i := 0; i < be.nopt(false); i++ {
					if strings.Contains(be.optName(false, i), sub) {
						oi = i
					}
				}
			}
		}
		tr := be.run(mod, mod.EntryPoints[0].Name, rs, [3]uint32{1, 1, 1}, false, oi, true)
		switch {
		case tr.err != nil:
			return be.name + " backend: " + tr.err.Error()
		case tr.parse != nil:
			return "emitted " + be.name + " does not parse: " + tr.parse.Error()
		case len(tr.static) > 0:
			return "emitted " + be.name + ": " + tr.static[0].Error()
		case tr.runErr != nil:
			return be.name + " interpreter: " + tr.runErr.Error()
		case len(tr.traps) > 0:
			return "trap: " + tr.traps[0].Error()
		}
		bufs := xrt.Buffers{}
		for i, r := range rs {
			if b := tr.get(i); b != nil {
				bufs[xrt.Slot{A: r.Group, B: r.Binding}] = b
			}
		}
		return checkExpects(w, bufs)
	}
}
