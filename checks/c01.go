package checks

import (
	"fmt"

	"github.com/gogpu/naga"
	"github.com/gogpu/naga/spirv"
	"verif/internal/cases"
	"verif/internal/run"
	"verif/internal/spvx"
	"verif/internal/wgen"
	"verif/internal/wref"
	"verif/internal/xrt"
)

func init() { register("C01", C01) }

type spvOpt struct {
	name string
	o    spirv.Options
}

func spvOptionSets(thorough bool) []spvOpt {
	vs := []spirv.Version{spirv.Version1_0, spirv.Version1_3, spirv.Version1_4, spirv.Version1_6}
	if thorough {
		vs = []spirv.Version{spirv.Version1_0, spirv.Version1_1, spirv.Version1_2, spirv.Version1_3, spirv.Version1_4, spirv.Version1_5, spirv.Version1_6}
	}
	var out []spvOpt
	for i, v := range vs {
		o := spirv.Options{Version: v}
		o.Debug = i%2 == 1
		o.ForceLoopBounding = i%3 == 1
		out = append(out, spvOpt{fmt.Sprintf("v%d.%d/debug=%v/loopbound=%v", v.Major, v.Minor, o.Debug, o.ForceLoopBounding), o})
		if thorough {
			o2 := o
			o2.Debug = !o.Debug
			o2.ForceLoopBounding = !o.ForceLoopBounding
			out = append(out, spvOpt{fmt.Sprintf("v%d.%d/debug=%v/loopbound=%v", v.Major, v.Minor, o2.Debug, o2.ForceLoopBounding), o2})
		}
	}
	return out
}

// execCfg is the generator profile of the execution-based checks: every known-bad construct gated off.
func execCfg() wgen.Config {
	return wgen.Config{Off: wgen.SafeOff()}
}

// lowerSrc parses and lowers; any error is reported with its stage.
func lowerSrc(src string) (m *irModule, stage string, err error) {
	ast, err := naga.Parse(src)
	if err != nil {
		return nil, "parse", err
	}
	mod, err := naga.LowerWithSource(ast, src)
	if err != nil {
		return nil, "lower", err
	}
	return mod, "", nil
}

func C01(c *run.Ctx) int {
	nProg := c.N(240, 4000)
	nIn := c.N(2, 4)
	opts := spvOptionSets(!c.Quick())
	c.SetExtra("option_sets", len(opts))
	replayWitnesses(c, map[string]func(witness) string{"exec-spirv": witnessExecSpirv})
	c.Each(nProg, func(i int) (string, run.Outcome) {
		seed := run.CaseSeed(c.Seed, "exec", i)
		id := fmt.Sprintf("prog-%d", i)
		return id, c01Case(c, seed, nIn, opts)
	})
	c01PtrArgs(c, []string{"spirv"})
	c01ConstBits(c, []string{"spirv"})
	c01SemTemplates(c, []string{"spirv"})
	return c.Finish("programs from the type-directed wgen generator (known-bad constructs gated off) x boundary-biased inputs x SPIR-V option sets; "+
		"plus a grid of calls passing two or three pointers at once (whole variables, array elements with constant and run-time index, struct members; identical pointee types, different roots) whose effect is computed here, and modules of 12-20 literals (both zeros, neighbours in the last bit, equal numbers with different bits across types) whose bit patterns are compared exactly; "+
		"each compiled by naga, executed by the spvx interpreter laid out by the module's own decorations and compared leaf-by-leaf with the wref WGSL reference evaluator; "+
		"distinct = distinct set of (generator features + wref-executed statement/operator/builtin kinds + SPIR-V opcodes executed); non-trivial = at least one output leaf changed from its initial value and was compared",
		[]string{"wref implements WGSL semantics as pinned in DESIGN.md Appendix A", "spvx implements SPIR-V/GLSL.std.450 semantics with per-operation binary32 rounding", "float results that WGSL leaves implementation-defined are classified indeterminate by wref and not compared"})
}

func c01Case(c *run.Ctx, seed uint64, nIn int, opts []spvOpt) run.Outcome {
	prog := cases.Generate(seed, execCfg())
	o := c01Eval(prog, seed, nIn, opts)
	if o.V == run.Violated && c.KnownMatch(o.Class, o.Reason) {
		// a listed finding that cannot be gated in the generator (attributed by trap class)
		return run.Outcome{V: run.Held, Sig: "known:" + o.Class, Trivial: true, Cov: map[string]int{"known-finding-instances:" + o.Class: 1}}
	}
	if o.V == run.Violated && c.TakeReduceSlot() {
		class := o.Class
		wgen.Reduce(prog.M, func() bool {
			r := c01Eval(prog, seed, nIn, opts)
			return r.V == run.Violated && r.Class == class
		}, 6)
		o2 := c01Eval(prog, seed, nIn, opts)
		if o2.V == run.Violated && o2.Class == class {
			o2.Witness["reduced"] = true
			return o2
		}
	}
	return o
}

// c01Eval runs the whole C01 pipeline on a given program (deterministic in (prog, seed)).
func c01Eval(prog *wgen.Program, seed uint64, nIn int, opts []spvOpt) run.Outcome {
	pr := wgen.Print(prog.M)
	src := pr.Src
	mod, stage, err := lowerSrc(src)
	if err != nil {
		return run.Outcome{V: run.Inconclusive, Reason: "front-end rejected generated program (C08 territory): " + stage}
	}
	cov := map[string]int{}
	r := run.NewRng(seed ^ 0xABCDEF)
	var changed, compared int
	entry := prog.M.Entries()[0]
	feats := cases.FeatKeys(prog.Feat)
	inconc := ""
	for k := 0; k < nIn; k++ {
		in := cases.MakeInput(prog.M, r.Split())
		exp, werr := wref.Run(prog.M, entry, in)
		if werr != nil {
			ee, _ := werr.(*wref.ExecError)
			if ee != nil && (ee.Kind == wref.ErrInconclusive || ee.Kind == wref.ErrBudget) {
				inconc = "wref: " + ee.Msg
				continue
			}
			return run.Outcome{V: run.Inconclusive, Reason: "MONITOR wref error: " + werr.Error()}
		}
		for kk, v := range exp.Cov {
			cov["wref:"+kk] += v
		}
		for _, os := range opts {
			bin, err := naga.GenerateSPIRV(mod, os.o)
			if err != nil {
				return run.Outcome{V: run.Inconclusive, Reason: "spirv backend rejected generated program (C08 territory)"}
			}
			sm, err := spvx.Parse(bin)
			if err != nil {
				return run.Outcome{V: run.Violated, Class: "spirv-unparseable", Reason: os.name + ": " + err.Error(), Witness: map[string]any{"wgsl": src, "options": os.name}}
			}
			bufs := cases.Buffers(prog.M, in)
			res, err := spvx.Run(sm, entry.Name, bufs, xrt.Options{TrapMode: true})
			if err != nil {
				if _, ok := err.(*xrt.Unsupported); ok {
					inconc = "spvx: " + err.Error()
					continue
				}
				return run.Outcome{V: run.Violated, Class: "spirv-exec-error", Reason: os.name + ": " + err.Error(), Witness: map[string]any{"wgsl": src, "options": os.name, "input": cases.DescribeInput(prog.M, in)}}
			}
			for kk, v := range res.Cov {
				cov["spv:"+kk] += v
			}
			traps := res.Traps[:0:0]
			for _, t := range res.Traps {
				if t.Kind == xrt.TrapF2I && exp.Cov["ind.f2i"] > 0 {
					continue // conversion of a value WGSL itself leaves indeterminate (NaN/inf/inexact operand)
				}
				traps = append(traps, t)
			}
			if len(traps) > 0 {
				t := traps[0]
				return run.Outcome{V: run.Violated, Class: "spirv-trap:" + string(t.Kind), Reason: os.name + ": " + t.Error(), Witness: map[string]any{"wgsl": src, "options": os.name, "input": cases.DescribeInput(prog.M, in)}}
			}
			diffs, st := cases.Compare(prog.M, in, exp, func(g *wgen.Var) []byte { return bufs[cases.SlotOf(g)] })
			changed += st.Changed
			compared += st.Exact + st.Tolerant
			cov["words.exact"] += st.Exact
			cov["words.tolerant"] += st.Tolerant
			cov["words.indeterminate"] += st.Skipped
			if len(diffs) > 0 {
				return run.Outcome{V: run.Violated, Class: "result-mismatch", Reason: fmt.Sprintf("%s: %s (%d leaves differ)", os.name, diffs[0], len(diffs)),
					Witness: map[string]any{"wgsl": src, "options": os.name, "input": cases.DescribeInput(prog.M, in), "diffs": fmt.Sprint(diffs)}}
			}
		}
	}
	if compared == 0 {
		if inconc == "" {
			inconc = "nothing compared"
		}
		return run.Outcome{V: run.Inconclusive, Reason: inconc}
	}
	sigParts := map[string]int{}
	for k := range feats {
		sigParts[k] = 1
	}
	for k := range cov {
		sigParts[k] = 1
	}
	o := run.Outcome{V: run.Held, Sig: cases.FeatureSig(sigParts), Trivial: changed == 0, Cov: cov}
	o.Sample = map[string]any{"wgsl": src, "entry": entry.Name, "compared_leaves": compared, "changed_leaves": changed}
	return o
}
