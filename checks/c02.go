package checks

import (
	"fmt"
	"strings"

	"github.com/gogpu/naga"
	"github.com/gogpu/naga/spirv"
	"verif/internal/cases"
	"verif/internal/run"
	"verif/internal/spvval"
	"verif/internal/wgen"
)

func init() { register("C02", C02) }

func c02OptionSets(thorough bool) []spvOpt {
	vs := []spirv.Version{spirv.Version1_0, spirv.Version1_3, spirv.Version1_4, spirv.Version1_6}
	if thorough {
		vs = []spirv.Version{spirv.Version1_0, spirv.Version1_1, spirv.Version1_2, spirv.Version1_3, spirv.Version1_4, spirv.Version1_5, spirv.Version1_6}
	}
	pols := []spirv.BoundsCheckPolicy{spirv.BoundsCheckUnchecked, spirv.BoundsCheckRestrict, spirv.BoundsCheckReadZeroSkipWrite}
	var out []spvOpt
	k := 0
	for _, v := range vs {
		variants := 2
		if thorough {
			variants = 4
		}
		for j := 0; j < variants; j++ {
			o := spirv.Options{Version: v, RayQueryInitTracking: true, UseStorageInputOutput16: true}
			o.Debug = (k+j)%2 == 0
			o.ForceLoopBounding = (k+j)%3 != 0
			o.ForcePointSize = j%2 == 1
			o.AdjustCoordinateSpace = j >= 2
			p := pols[(k+j)%3]
			o.BoundsCheckPolicies = spirv.BoundsCheckPolicies{Index: p, ImageLoad: p, ImageStore: p}
			out = append(out, spvOpt{fmt.Sprintf("v%d.%d/debug=%v/loop=%v/pointsize=%v/adjust=%v/policy=%d", v.Major, v.Minor, o.Debug, o.ForceLoopBounding, o.ForcePointSize, o.AdjustCoordinateSpace, p), o})
		}
		k++
	}
	return out
}

func C02(c *run.Ctx) int {
	opts := c02OptionSets(!c.Quick())
	c.SetExtra("option_sets", len(opts))
	c.SetExtra("rules_implemented", spvval.RuleIDs())
	replayWitnesses(c, map[string]func(witness) string{"spirv-valid": witnessSpirvValid})
	corpus := loadCorpus()
	nGen := c.N(500, 6000)
	total := nGen + len(corpus)
	c.Each(total, func(i int) (string, run.Outcome) {
		var src, id string
		var prog *wgen.Program
		feats := map[string]int{}
		if i < len(corpus) {
			src, id = corpus[i].Src, "corpus-"+corpus[i].Name
			feats["corpus:"+corpus[i].Name] = 1
		} else {
			seed := run.CaseSeed(c.Seed, "accept", i-len(corpus))
			cfg := wgen.Config{Off: wgen.SafeOff("ptr-params.private", "store.workgroup-array")}
			for _, g := range []string{"var-noinit-in-loop", "private.implicit-init", "decl.var-noinit", "shift.raw", "clamp.int-unordered", "bits.unclamped-range", "f2i.raw",
				"attr.align.nested", "fn.countLeadingZeros", "fn.countTrailingZeros", "fn.abs.u32", "const.module-vec", "op.%.f32", "let.composite-load", "index.dynamic-on-value"} {
				delete(cfg.Off, g)
			}
			if i%3 == 0 {
				cfg.Entries = 2
			}
			prog = cases.Generate(seed, cfg)
			src, id = wgen.Print(prog.M).Src, fmt.Sprintf("prog-%d", i-len(corpus))
			feats = cases.FeatKeys(prog.Feat)
		}
		o := c02Eval(src, opts, feats, i < len(corpus))
		if o.V == run.Violated {
			o.Reason = id + ": " + o.Reason
		}
		if o.V == run.Violated && prog != nil && c.TakeReduceSlot() {
			class := o.Class
			wgen.Reduce(prog.M, func() bool {
				r := c02Eval(wgen.Print(prog.M).Src, opts, feats, false)
				return r.V == run.Violated && r.Class == class
			}, 6)
			if r := c02Eval(wgen.Print(prog.M).Src, opts, feats, false); r.V == run.Violated && r.Class == class {
				r.Witness["reduced"] = true
				r.Witness["wgsl_unreduced"] = src
				return id, r
			}
		}
		return id, o
	})
	// whole-composite traffic with workgroup memory (the backend raises the module version for OpCopyLogical when an
	// array / struct crosses between a laid-out and a layout-free address space; the entry-point interface rules of
	// the raised version then apply): every source kind x destination type, no other composite access in the module
	var tsrcs []string
	for _, ty := range []struct{ decl, ty, cons string }{
		{"", "array<u32, 4>", "array<u32, 4>(1u, 2u, 3u, 4u)"},
		{"struct S { a: u32, b: vec2<f32>, c: array<i32, 2>, }\n", "S", "S(1u, vec2<f32>(2.0, 3.0), array<i32, 2>(4, 5))"},
		{"struct I { x: f32, y: u32, }\n", "array<I, 2>", "array<I, 2>(I(1.0, 2u), I(3.0, 4u))"},
	} {
		for _, from := range []string{"storage", "storage-rw", "uniform", "private", "function", "let", "constructor", "workgroup-to-storage", "workgroup-to-function"} {
			pre := ty.decl + "var<workgroup> w: " + ty.ty + ";\n@group(0) @binding(0) var<storage, read_write> o: array<u32, 8>;\n"
			body := ""
			uty := ty.ty
			if from == "uniform" && ty.ty != "S" {
				continue // array strides below 16 are not host-shareable in uniform space
			}
			switch from {
			case "storage":
				pre += "@group(0) @binding(1) var<storage> src: " + ty.ty + ";\n"
				body = "w = src;"
			case "storage-rw":
				pre += "@group(0) @binding(1) var<storage, read_write> src: " + ty.ty + ";\n"
				body = "w = src;"
			case "uniform":
				pre = "struct S { a: u32, b: vec2<f32>, c: vec4<i32>, }\nvar<workgroup> w: S;\n@group(0) @binding(0) var<storage, read_write> o: array<u32, 8>;\n@group(0) @binding(1) var<uniform> src: S;\n"
				body = "w = src;"
			case "private":
				pre += "var<private> src: " + ty.ty + ";\n"
				body = "w = src;"
			case "function":
				body = "var src = " + ty.cons + "; w = src;"
			case "let":
				body = "let src = " + ty.cons + "; w = src;"
			case "constructor":
				body = "w = " + ty.cons + ";"
			case "workgroup-to-storage":
				pre += "@group(0) @binding(1) var<storage, read_write> dst: " + ty.ty + ";\n"
				body = "dst = w;"
			case "workgroup-to-function":
				body = "var dst = w; o[1] = 2u;"
				_ = uty
			}
			tsrcs = append(tsrcs, pre+"@compute @workgroup_size(1) fn main() { "+body+" workgroupBarrier(); o[0] = 1u; }\n")
		}
	}
	c.Each(len(tsrcs), func(i int) (string, run.Outcome) {
		id := fmt.Sprintf("workgroup-composite-%d", i)
		o := c02Eval(tsrcs[i], opts, map[string]int{"template:workgroup-composite": 1, fmt.Sprintf("template:workgroup-composite-%d", i): 1}, false)
		if o.V == run.Violated {
			o.Reason = id + ": " + o.Reason
		}
		return id, o
	})
	// many small function signatures over many types: type-id lists such as (3,4) / (34) or (3,14) / (31,4) occur, which
	// is what a function-type cache keyed on an ambiguous rendering of the list confuses
	nSig := c.N(150, 2500)
	c.Each(nSig, func(i int) (string, run.Outcome) {
		r := run.NewRng(run.CaseSeed(c.Seed, "c02-signatures", i))
		id := fmt.Sprintf("signatures-%d", i)
		var sb strings.Builder
		pool := []string{"u32", "i32", "f32", "bool"}
		for _, sc := range []string{"f32", "u32", "i32"} {
			for n := 2; n <= 4; n++ {
				pool = append(pool, fmt.Sprintf("vec%d<%s>", n, sc))
			}
		}
		for n := 2; n <= 2+r.Intn(8); n++ {
			pool = append(pool, fmt.Sprintf("array<u32, %d>", n), fmt.Sprintf("array<f32, %d>", n))
		}
		ns := r.Range(1, 6)
		for k := 0; k < ns; k++ {
			fmt.Fprintf(&sb, "struct S%d { a: u32, b: %s, }\n", k, pool[r.Intn(13)])
			pool = append(pool, fmt.Sprintf("S%d", k))
		}
		// a random prefix of private variables moves the type ids around
		for k, np := 0, r.Intn(12); k < np; k++ {
			fmt.Fprintf(&sb, "var<private> pv%d: %s;\n", k, pool[r.Intn(len(pool))])
		}
		sb.WriteString("@group(0) @binding(0) var<storage, read_write> o: array<f32, 32>;\n")
		nf := r.Range(6, 14)
		var calls []string
		for k := 0; k < nf; k++ {
			np := r.Range(1, 3)
			var ps, as []string
			for j := 0; j < np; j++ {
				t := pool[r.Intn(len(pool))]
				ps = append(ps, fmt.Sprintf("p%d: %s", j, t))
				as = append(as, t+"()")
			}
			ret := []string{"f32", "u32", "i32"}[r.Intn(3)]
			fmt.Fprintf(&sb, "fn h%d(%s) -> %s { return %s(%d); }\n", k, strings.Join(ps, ", "), ret, ret, k+1)
			calls = append(calls, fmt.Sprintf("o[%d] = f32(h%d(%s));", k, k, strings.Join(as, ", ")))
		}
		fmt.Fprintf(&sb, "@compute @workgroup_size(1) fn main() {\n    %s\n}\n", strings.Join(calls, "\n    "))
		o := c02Eval(sb.String(), opts[:min(3, len(opts))], map[string]int{"template:signatures": 1, fmt.Sprintf("signatures:%d-functions-%d-types", nf, len(pool)): 1}, false)
		if o.V == run.Violated {
			o.Reason = id + ": " + o.Reason
		}
		return id, o
	})
	return c.Finish("generated compute modules plus naga's 172-shader corpus, each compiled to SPIR-V under every option set (versions 1.0-1.6 x debug x loop bounding x ForcePointSize x AdjustCoordinateSpace x bounds-check policies) and checked by an independent structural validator (73 rule ids: header, layout, ids/dominance, types, per-opcode typing, structured control flow, Vulkan decorations, entry-point interfaces, capabilities/extensions); "+
		"plus modules of 6-14 small helper signatures over 20-40 types behind a random prefix of private variables (type-id lists that render ambiguously); plus templates moving whole arrays / structs between workgroup memory and every other source (storage, uniform, private, function, let, constructor) under every option set; "+
		"counters rule:<id> give the number of non-vacuous evaluations of each rule; distinct = distinct (feature set | corpus shader); non-trivial = at least one module validated",
		[]string{"the validator implements universal and Vulkan-environment rules as listed in internal/spvval/doc.go; it was calibrated to be silent on the corpus (upstream: 172/172 spirv-val clean) apart from listed known findings"})
}

func c02Eval(src string, opts []spvOpt, feats map[string]int, isCorpus bool) run.Outcome {
	mod, _, err := lowerSrc(src)
	if err != nil {
		return run.Outcome{V: run.Inconclusive, Reason: "front-end rejected the program (C08 territory)"}
	}
	cov := map[string]int{}
	validated := 0
	for _, os := range opts {
		var bin []byte
		var gerr error
		if st, pan := run.Catch(func() { bin, gerr = naga.GenerateSPIRV(mod, os.o) }); pan {
			return run.Outcome{V: run.Inconclusive, Reason: "backend panic (C10 territory): " + st[:min(80, len(st))]}
		}
		if gerr != nil {
			cov["backend-error"]++
			continue
		}
		rep := spvval.Validate(bin, spvval.Options{RequestedVersion: [2]int{int(os.o.Version.Major), int(os.o.Version.Minor)}})
		validated++
		for r, n := range rep.Fired {
			cov["rule:"+r] += n
		}
		if len(rep.Findings) > 0 {
			f := rep.Findings[0]
			return run.Outcome{V: run.Violated, Class: f.Rule, Reason: fmt.Sprintf("%s [%s] %s (%d findings)", f.Rule, os.name, f.Detail, len(rep.Findings)),
				Witness: map[string]any{"wgsl": src, "options": os.name, "findings": fmt.Sprint(rep.Findings)}}
		}
	}
	if validated == 0 {
		return run.Outcome{V: run.Inconclusive, Reason: "no SPIR-V produced"}
	}
	cov["modules-validated"] = validated
	o := run.Outcome{V: run.Held, Sig: cases.FeatureSig(feats), Cov: cov}
	if !isCorpus {
		o.Sample = map[string]any{"wgsl": src, "modules_validated": validated}
	}
	return o
}
