package checks

import (
	"os"
	"path/filepath"
	"sort"
	"strings"
)

type corpusShader struct {
	Name string
	Src  string
}

// loadCorpus reads naga's own shader corpus (a second, human-written workload).
func loadCorpus() []corpusShader {
	files, _ := filepath.Glob("/repo/snapshot/testdata/in/*.wgsl")
	sort.Strings(files)
	var out []corpusShader
	for _, f := range files {
		b, err := os.ReadFile(f)
		if err != nil {
			continue
		}
		out = append(out, corpusShader{Name: strings.TrimSuffix(filepath.Base(f), ".wgsl"), Src: string(b)})
	}
	return out
}
