package checks

import (
	"bytes"
	"encoding/json"
	"fmt"
	"os"
	"os/exec"
	"path/filepath"
	"regexp"
	"sort"
	"strings"

	"github.com/gogpu/naga"
	"github.com/gogpu/naga/dxil"
	"github.com/gogpu/naga/glsl"
	"github.com/gogpu/naga/hlsl"
	"github.com/gogpu/naga/ir"
	"github.com/gogpu/naga/msl"
	"github.com/gogpu/naga/spirv"
	"verif/internal/cases"
	"verif/internal/irstrict"
	"verif/internal/run"
	"verif/internal/wgen"
)

func init() { register("C12", C12) }

type c12Backend struct {
	name     string
	mutating bool // known to modify the module it is given (finding F57)
	f        func(m *ir.Module) ([]byte, error)
}

func c12Backends() []c12Backend {
	return []c12Backend{
		{"spirv", false, func(m *ir.Module) ([]byte, error) {
			return naga.GenerateSPIRV(m, spirv.Options{Version: spirv.Version1_3})
		}},
		{"hlsl", false, func(m *ir.Module) ([]byte, error) {
			s, _, err := hlsl.Compile(m, hlsl.DefaultOptions())
			return []byte(s), err
		}},
		{"msl", false, func(m *ir.Module) ([]byte, error) {
			s, _, err := msl.Compile(m, msl.DefaultOptions())
			return []byte(s), err
		}},
		{"glsl", false, func(m *ir.Module) ([]byte, error) {
			o := glsl.DefaultOptions()
			o.LangVersion = glsl.Version{Major: 4, Minor: 50}
			o.EntryPoint = m.EntryPoints[0].Name
			s, _, err := glsl.Compile(m, o)
			return []byte(s), err
		}},
		{"dxil", true, func(m *ir.Module) ([]byte, error) { return dxil.Compile(m, dxil.DefaultOptions()) }},
		{"glsl+pipeline-constants", true, func(m *ir.Module) ([]byte, error) {
			o := glsl.DefaultOptions()
			o.LangVersion = glsl.Version{Major: 4, Minor: 50}
			o.EntryPoint = m.EntryPoints[0].Name
			o.PipelineConstants = c12AllOverrides(m)
			s, _, err := glsl.Compile(m, o)
			return []byte(s), err
		}},
		{"msl+pipeline-constants", true, func(m *ir.Module) ([]byte, error) {
			o := msl.DefaultOptions()
			o.PipelineConstants = c12AllOverrides(m)
			s, _, err := msl.Compile(m, o)
			return []byte(s), err
		}},
	}
}

func outOrErr(b []byte, err error) []byte {
	if err != nil {
		return []byte("ERR " + err.Error())
	}
	return b
}

func C12(c *run.Ctx) int {
	n := c.N(150, 600)
	var srcs []string
	for i := 0; i < n; i++ {
		cfg := wgen.Config{Off: wgen.SafeOff()}
		if i%3 == 0 {
			cfg.Overrides = true
		}
		p := cases.Generate(run.CaseSeed(c.Seed, "accept", i), cfg)
		srcs = append(srcs, wgen.Print(p.M).Src)
	}
	// (c) module unchanged + order independence, (b) reused backend instance — in process, per program
	c.Each(len(srcs), func(i int) (string, run.Outcome) {
		return fmt.Sprintf("prog-%d", i), c12History(c, fmt.Sprintf("prog-%d", i), srcs, i)
	})
	// (a) fresh processes
	c12Processes(c, srcs[:min(len(srcs), c.N(60, 600))])
	// (d) concurrency under the race detector
	c12Race(c)
	return c.Finish("generated programs (a third of them with overrides): (1) every backend is run on a fresh module and on one shared module in many different orders (all 24 orders of the four text/binary backends for part of the programs, random orders otherwise) and its bytes compared with its solo output; the canonical dump of the module is compared before/after every backend call; (2) a reused spirv.Backend instance is fed a random sequence of modules and compared with fresh instances; (3) two separate worker processes (fresh hash seeds) compile the same sources and their per-backend output hashes are compared; (4) a race-detector build runs N in {2,4,16} goroutines compiling separate modules and one shared module with different backends behind a start barrier and compares each concurrent output with the solo output; race reports are counted from the GORACE log and de-duplicated by the pair of outermost naga frames; "+
		"distinct = distinct (program feature set, order pattern); counters list orders, process pairs, goroutine counts and compilations observed",
		[]string{"backends known to mutate their input module (dxil.Compile, PipelineConstants paths; finding F57) are exercised as a committed witness, not in the campaign", "schedules are sampled by the Go scheduler, not enumerated"})
}

var perms4 = func() [][]int {
	var out [][]int
	var rec func(a []int, k int)
	rec = func(a []int, k int) {
		if k == len(a) {
			out = append(out, append([]int{}, a...))
			return
		}
		for i := k; i < len(a); i++ {
			a[k], a[i] = a[i], a[k]
			rec(a, k+1)
			a[k], a[i] = a[i], a[k]
		}
	}
	rec([]int{0, 1, 2, 3}, 0)
	return out
}()

func c12History(c *run.Ctx, id string, srcs []string, i int) run.Outcome {
	src := srcs[i]
	lower := func(s string) *ir.Module {
		m, _, err := lowerSrc(s)
		if err != nil {
			return nil
		}
		return m
	}
	if lower(src) == nil {
		return run.Outcome{V: run.Inconclusive, Reason: "front-end rejected the program"}
	}
	cov := map[string]int{}
	bs := c12Backends()
	pure := bs[:4]
	solo := map[string][]byte{}
	for _, b := range bs {
		solo[b.name] = outOrErr(b.f(lower(src)))
		// determinism on fresh modules
		if again := outOrErr(b.f(lower(src))); !bytes.Equal(again, solo[b.name]) {
			return c12Viol(c, id, "nondeterministic:"+b.name, "two compilations of freshly lowered modules differ", src, cov)
		}
		cov["fresh-pairs"]++
	}
	r := run.NewRng(run.CaseSeed(c.Seed, "order", i))
	orders := perms4
	if i%4 != 0 {
		orders = [][]int{perms4[r.Intn(24)], perms4[r.Intn(24)], perms4[r.Intn(24)]}
	}
	for _, ord := range orders {
		m := lower(src)
		d0 := irstrict.Hash(m)
		for _, bi := range ord {
			b := pure[bi]
			out := outOrErr(b.f(m))
			if !bytes.Equal(out, solo[b.name]) {
				return c12Viol(c, id, "history-dependent:"+b.name, fmt.Sprintf("output of %s after order %v on a shared module differs from its solo output", b.name, ord), src, cov)
			}
			if d := irstrict.Hash(m); d != d0 {
				return c12Viol(c, id, "module-mutated:"+b.name, fmt.Sprintf("%s changed the module it was given", b.name), src, cov)
			}
			cov["order-steps"]++
		}
		cov["orders"]++
	}
	// mutating backends: module must stay unchanged (known finding F57 => attributed)
	var first *run.Outcome
	for _, b := range bs[4:] {
		m := lower(src)
		d0 := irstrict.Hash(m)
		s0 := c12Sections(m)
		b.f(m)
		if irstrict.Hash(m) != d0 {
			s1 := c12Sections(m)
			changed := c12ChangedSections(s0, s1)
			o := c12Viol(c, id, "module-mutated:"+b.name, fmt.Sprintf("%s changed the module it was given (sections: %s) [nodes: %s]", b.name, changed, c12ChangedWhat(s0, s1)), src, cov)
			cov["mutated-nodes:"+b.name+":"+c12ChangedWhat(s0, s1)]++
			if c.KnownMatch(o.Class, o.Reason) {
				cov["known-finding-instances"]++
				continue
			}
			if first == nil {
				first = &o
			}
		}
		cov["mutation-probes"]++
	}
	if first != nil {
		return *first
	}
	// reused spirv.Backend instance over a random sequence of modules
	be := spirv.NewBackend(spirv.Options{Version: spirv.Version1_3})
	var seq []string
	for k := 0; k < 5; k++ {
		j := r.Intn(len(srcs))
		sj := srcs[j]
		if r.Chance(1, 3) {
			// a render / multi-entry module (stage builtins such as sample_mask, interface variables) between the compute ones
			sj = c17Gen(r.Split()).src
		}
		seq = append(seq, sj)
		mj := lower(sj)
		if mj == nil {
			continue
		}
		got := outOrErr(be.Compile(mj))
		want := outOrErr(spirv.NewBackend(spirv.Options{Version: spirv.Version1_3}).Compile(lower(sj)))
		if !bytes.Equal(got, want) {
			o := c12Viol(c, id, "backend-reuse", fmt.Sprintf("reused spirv.Backend: output for program %d at position %d of the sequence differs from a fresh backend's", j, k), sj, cov)
			o.Witness["sequence"] = seq
			return o
		}
		cov["reuse-steps"]++
	}
	sig := map[string]bool{fmt.Sprint(len(orders)): true}
	h := irstrict.Hash(lower(src))
	sig[fmt.Sprintf("%x", h[:6])] = true
	return run.Outcome{V: run.Held, Sig: run.SigOf(sig), Cov: cov, Sample: map[string]any{"case": id, "orders": len(orders)}}
}

func c12Viol(c *run.Ctx, id, class, msg, src string, cov map[string]int) run.Outcome {
	return run.Outcome{V: run.Violated, Class: class, Reason: id + ": " + msg, Witness: map[string]any{"wgsl": src}, Cov: cov}
}

// c12Processes: the same sources through two separate worker processes; per-stage output hashes must agree.
func c12Processes(c *run.Ctx, srcs []string) {
	var ws [2]*worker
	for i := range ws {
		w, err := startWorker(c, 200+i)
		if err != nil {
			c.Note("cannot start worker: %v", err)
			return
		}
		ws[i] = w
		defer w.stop()
	}
	for i, s := range srcs {
		h := hostileInput{ID: fmt.Sprintf("p%04d", i), Kind: "determinism", Src: s}
		var rs [2]*wResultH
		ok := true
		for k := range ws {
			r, err := runOneHashed(ws[k], h)
			if err != nil {
				ok = false
				break
			}
			rs[k] = r
		}
		if !ok {
			c.Record(h.ID, run.Outcome{V: run.Inconclusive, Reason: "worker failed (C10 territory)"})
			return
		}
		o := run.Outcome{V: run.Held, Sig: "proc:" + h.ID, Cov: map[string]int{"process-pairs": 1}}
		for si := range rs[0].Stages {
			if si < len(rs[1].Stages) && rs[0].Stages[si].Hash != rs[1].Stages[si].Hash {
				o = run.Outcome{V: run.Violated, Class: "process-dependent:" + rs[0].Stages[si].Stage, Reason: fmt.Sprintf("%s: stage %s produced different bytes in two fresh processes (%s vs %s)", h.ID, rs[0].Stages[si].Stage, rs[0].Stages[si].Hash, rs[1].Stages[si].Hash), Witness: map[string]any{"wgsl": s}}
				break
			}
			if rs[0].Stages[si].Hash != "" {
				o.Cov["stage-hashes-compared"]++
			}
		}
		c.Record(h.ID, o)
	}
}

type wStageH struct {
	Stage string `json:"stage"`
	Hash  string `json:"hash"`
}
type wResultH struct {
	Stages []wStageH `json:"stages"`
}

func runOneHashed(w *worker, h hostileInput) (*wResultH, error) {
	if _, err := fmt.Fprintf(w.in, "%s %d\n%s", h.ID, len(h.Src), h.Src); err != nil {
		return nil, err
	}
	l, err := w.out.ReadString('\n')
	if err != nil {
		return nil, err
	}
	var r wResultH
	if err := json.Unmarshal([]byte(l), &r); err != nil {
		return nil, err
	}
	return &r, nil
}

var raceFrameRe = regexp.MustCompile(`(?m)^  (github\.com/gogpu/naga[^\s(]*)\(`)

// dedupeRaces groups race reports of a GORACE log by the pair of outermost naga frames of the two accesses.
func dedupeRaces(log string) map[string]int {
	out := map[string]int{}
	for _, blk := range strings.Split(log, "==================") {
		if !strings.Contains(blk, "WARNING: DATA RACE") {
			continue
		}
		secs := strings.Split(blk, "\n\n")
		var outer []string
		for _, s := range secs {
			if strings.Contains(s, "by goroutine") && (strings.HasPrefix(strings.TrimSpace(s), "Write at") || strings.HasPrefix(strings.TrimSpace(s), "Read at") || strings.HasPrefix(strings.TrimSpace(s), "Previous")) {
				ms := raceFrameRe.FindAllStringSubmatch(s, -1)
				if len(ms) > 0 {
					outer = append(outer, ms[len(ms)-1][1])
				}
			}
		}
		sort.Strings(outer)
		out[strings.Join(outer, " <-> ")]++
	}
	return out
}

func c12Race(c *run.Ctx) {
	dir := filepath.Join(c.Verif, "tmpwork", "c12")
	os.MkdirAll(dir, 0o755)
	defer os.RemoveAll(dir)
	bin := filepath.Join(c.Verif, "bin", "racecheck.test")
	build := exec.Command("go", "test", "-tags", "verif", "-race", "-c", "-o", bin, "./racecheck")
	build.Dir = c.Verif
	if out, err := build.CombinedOutput(); err != nil {
		c.Record("race-build", run.Outcome{V: run.Inconclusive, Reason: "MONITOR race build failed: " + oneLine(string(out))})
		return
	}
	runOnce := func(mutating bool, tag string) (sum map[string]any, races map[string]int, err error) {
		logp := filepath.Join(dir, "race-"+tag+".log")
		sump := filepath.Join(dir, "sum-"+tag+".json")
		cmd := exec.Command(bin, "-test.run", "TestRace", "-test.count", "1", "-test.timeout", "30m")
		cmd.Env = append(os.Environ(), "GORACE=halt_on_error=0 exitcode=0 log_path="+logp, "C12_SUMMARY="+sump, fmt.Sprintf("VERIF_SEED=%d", c.Seed), "VERIF_TIER="+c.Tier)
		if mutating {
			cmd.Env = append(cmd.Env, "C12_MUTATING=1")
		}
		cmd.CombinedOutput()
		b, rerr := os.ReadFile(sump)
		if rerr != nil {
			return nil, nil, rerr
		}
		json.Unmarshal(b, &sum)
		races = map[string]int{}
		logs, _ := filepath.Glob(logp + "*")
		for _, l := range logs {
			lb, _ := os.ReadFile(l)
			for k, v := range dedupeRaces(string(lb)) {
				races[k] += v
			}
		}
		return sum, races, nil
	}
	sum, races, err := runOnce(false, "pure")
	if err != nil {
		c.Record("race-run", run.Outcome{V: run.Inconclusive, Reason: "MONITOR race run produced no summary"})
		return
	}
	c.SetExtra("race_run", sum)
	cov := map[string]int{"race-reports-deduplicated": len(races)}
	if f, ok := sum["separate_compiles"].(float64); ok {
		cov["concurrent-compiles-separate-modules"] = int(f)
	}
	if f, ok := sum["shared_compiles"].(float64); ok {
		cov["concurrent-compiles-shared-module"] = int(f)
	}
	if f, ok := sum["distinct_completion_orders"].(float64); ok {
		cov["distinct-completion-orders"] = int(f)
	}
	o := run.Outcome{V: run.Held, Sig: "race-run", Cov: cov}
	if len(races) > 0 {
		var ks []string
		for k := range races {
			ks = append(ks, k)
		}
		sort.Strings(ks)
		o = run.Outcome{V: run.Violated, Class: "data-race", Reason: fmt.Sprintf("%d distinct race report(s); first: %s", len(races), ks[0]), Witness: map[string]any{"races": races}}
	} else if mm, ok := sum["mismatches"].([]any); ok && len(mm) > 0 {
		o = run.Outcome{V: run.Violated, Class: "concurrent-output-differs", Reason: fmt.Sprint(mm[0]), Witness: map[string]any{"mismatches": mm}}
	}
	c.Record("race-run", o)
	// witness for F57: the mutating backends on a shared module
	_, races2, err2 := runOnce(true, "mutating")
	if err2 == nil {
		if len(races2) > 0 {
			var ks []string
			for k := range races2 {
				ks = append(ks, k)
			}
			sort.Strings(ks)
			c.Known("F57", fmt.Sprintf("dxil.Compile and the PipelineConstants paths of the GLSL/MSL backends modify the module they are given (shallow CloneModuleForOverrides): %d distinct data-race reports when they share a module with another backend, e.g. %s", len(races2), trunc(ks[0], 160)))
		} else {
			c.Note("known finding F57 (module mutation races) no longer reproduces")
		}
	}
}

// c12AllOverrides supplies a value for every override of the module (by @id or by name).
func c12AllOverrides(m *ir.Module) map[string]float64 {
	pc := map[string]float64{"0": 2}
	for _, o := range m.Overrides {
		if o.ID != nil {
			pc[fmt.Sprint(*o.ID)] = 2
		} else if o.Name != "" {
			pc[o.Name] = 2
		}
	}
	return pc
}

// c12Sections: canonical dumps of the parts of a module, to say which of them a call changed.
func c12Sections(m *ir.Module) map[string]string {
	return map[string]string{
		"Types":             irstrict.Dump(&ir.Module{Types: m.Types}, false),
		"Constants":         irstrict.Dump(&ir.Module{Constants: m.Constants}, false),
		"GlobalVariables":   irstrict.Dump(&ir.Module{GlobalVariables: m.GlobalVariables}, false),
		"GlobalExpressions": irstrict.Dump(&ir.Module{GlobalExpressions: m.GlobalExpressions}, false),
		"Overrides":         irstrict.Dump(&ir.Module{Overrides: m.Overrides}, false),
		"Functions":         irstrict.Dump(&ir.Module{Functions: m.Functions}, false),
		"EntryPoints":       irstrict.Dump(&ir.Module{EntryPoints: m.EntryPoints}, false),
	}
}

// c12ChangedWhat names the IR node kinds in which the Functions / EntryPoints dumps differ: for each of the two
// sections the enclosing statement / expression / type-resolution kind of the first difference scanning from the
// front and of the first difference scanning from the back (a shifted handle and a replaced node differ in both).
func c12ChangedWhat(a, b map[string]string) string {
	seen := map[string]bool{}
	kindAt := func(s string, i int) string {
		best, name := -1, "other"
		for _, mk := range []string{"(ir.Stmt", "(ir.Expr", "(ir.Literal)", "ir.TypeResolution{", "ir.LocalVariable{", "ir.FunctionArgument{", "NamedExpressions:"} {
			if j := strings.LastIndex(s[:min(i+1, len(s))], mk); j > best {
				best = j
				e := j + len(mk)
				for e < len(s) && (s[e] >= 'a' && s[e] <= 'z' || s[e] >= 'A' && s[e] <= 'Z') {
					e++
				}
				name = strings.Trim(s[j:e], "(){:.")
				name = strings.TrimPrefix(name, "ir.")
			}
		}
		return name
	}
	for _, k := range []string{"Functions", "EntryPoints"} {
		x, y := a[k], b[k]
		if x == y {
			continue
		}
		i := 0
		for i < len(x) && i < len(y) && x[i] == y[i] {
			i++
		}
		seen[kindAt(x, i)] = true
		j := 0
		for j < len(x)-i && j < len(y)-i && x[len(x)-1-j] == y[len(y)-1-j] {
			j++
		}
		seen[kindAt(x, len(x)-1-j)] = true
	}
	var out []string
	for k := range seen {
		out = append(out, k)
	}
	sort.Strings(out)
	return strings.Join(out, ",")
}

func c12ChangedSections(a, b map[string]string) string {
	var out []string
	for k := range a {
		if a[k] != b[k] {
			out = append(out, k)
		}
	}
	sort.Strings(out)
	if len(out) == 0 {
		return "other"
	}
	return strings.Join(out, "+")
}
