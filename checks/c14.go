package checks

import (
	"fmt"
	"math"
	"strconv"

	"github.com/gogpu/naga"
	"github.com/gogpu/naga/ir"
	"github.com/gogpu/naga/spirv"
	"verif/internal/cases"
	"verif/internal/irstrict"
	"verif/internal/irx"
	"verif/internal/run"
	"verif/internal/spvx"
	"verif/internal/wgen"
	"verif/internal/wref"
	"verif/internal/xrt"
)

func init() { register("C14", C14) }

var c14K *run.Ctx

func C14(c *run.Ctx) int {
	c14K = c
	replayWitnesses(c, map[string]func(witness) string{"override-exec": witnessOverrideExec})
	n := c.N(400, 6000)
	nMaps := c.N(4, 8)
	c.Each(n, func(i int) (string, run.Outcome) {
		seed := run.CaseSeed(c.Seed, "override", i)
		id := fmt.Sprintf("prog-%d", i)
		cfg := wgen.Config{Off: wgen.SafeOff("fn.select", "postfix-on-compound", "inline-const-precedence", "fn.dot.int", "fn.round", "fn.sign", "fn.firstLeadingBit", "fn.firstTrailingBit",
			"swizzle.on-constructor", "ptr.dynamic-element", "ptr.struct-vec3-member", "div.runtime-divisor", "op.%.i32", "fn.select.vec-cond", "attr.align", "uniform.matCx2", "fn.atomicSub",
			"stmt.continue-in-switch", "type.array-of-array", "private.array", "fn.extractBits", "fn.insertBits", "decl.reorder", "type.matCx2", "read.struct-from-buffer", "fn.asinh", "fn.acosh", "fn.atanh"), Overrides: true}
		prog := cases.Generate(seed, cfg)
		o := c14Eval(c, id, prog, seed, nMaps)
		if o.V == run.Violated && o.Class != "process-overrides:module-mutated" && c.TakeReduceSlotFor(o.Class) {
			class := o.Class
			orig := wgen.Print(prog.M).Src
			same := func() bool {
				r := c14Eval(nil, id, prog, seed, nMaps)
				return r.V == run.Violated && r.Class == class
			}
			wgen.Reduce(prog.M, same, 5)
			if r := c14Eval(nil, id, prog, seed, nMaps); r.V == run.Violated && r.Class == class {
				r.Witness["reduced"] = true
				r.Witness["wgsl_unreduced"] = orig
				o = r
			}
		}
		return id, o
	})
	c14Derived(c)
	c14Order(c)
	return c.Finish("plus straight-line load / store / pointer-let / side-effecting-call sequences interleaved with foldable override expressions, whose final memory image is computed by executing the statements in order and compared on 7 resolution paths (statement order must survive the arena rewrite of override resolution); generated programs with override declarations of bool / i32 / u32 / f32 (initialisers over literals, module constants and earlier overrides; overrides read in function bodies) x value maps (none, by @id, by name, partial, full) x resolution paths: ir.ProcessOverrides followed by the IR interpreter, by SPIR-V + interpreter and by HLSL / MSL / GLSL + interpreters, and the PipelineConstants options of the GLSL and MSL backends; every path's buffers are compared with wref evaluating the program with the overrides bound to the same values; a missing value without default must be an error; the caller's module must be unchanged (canonical dump); NaN / out-of-range values must not panic; a second, template-based campaign covers @workgroup_size arguments and module-scope initialisers derived from overrides (expected invocation count and values computed from the WGSL rules; resolved module run by the IR and SPIR-V interpreters); "+
		"distinct = distinct (generator features, map kind, paths that produced output); non-trivial = an override value influenced a compared leaf is not measured — conservative: at least one leaf changed",
		[]string{"operators other than + - * in override initialisers are a listed known finding (gated)", "conversion of NaN / out-of-range pipeline values is not asserted beyond absence of panics and module mutation"})
}

type ovMap struct {
	kind string
	wref map[*wgen.Var]float64
	naga map[string]float64
}

func c14Maps(prog *wgen.Program, r *run.Rng, n int) []ovMap {
	ovs := prog.M.Overrides()
	val := func(o *wgen.Var) float64 {
		switch o.Ty.Kind {
		case wgen.KBool:
			return float64(r.Intn(2))
		case wgen.KI32:
			return float64(r.Range(-50, 50))
		case wgen.KU32:
			return float64(r.Range(0, 90))
		}
		return float64(r.Range(-16, 16)) / 4
	}
	var out []ovMap
	for k := 0; k < n; k++ {
		m := ovMap{wref: map[*wgen.Var]float64{}, naga: map[string]float64{}}
		switch k % 4 {
		case 0:
			m.kind = "none"
		case 1:
			m.kind = "by-id-or-name"
		case 2:
			m.kind = "partial"
		default:
			m.kind = "full"
		}
		for i, o := range ovs {
			need := o.Init == nil
			give := need || m.kind == "full" || m.kind == "by-id-or-name" || (m.kind == "partial" && i%2 == 0)
			if m.kind == "none" && !need {
				give = false
			}
			if !give {
				continue
			}
			v := val(o)
			m.wref[o] = v
			if o.ID >= 0 {
				m.naga[strconv.Itoa(o.ID)] = v // an override with an @id is addressed by its id
			} else {
				m.naga[o.Name] = v
			}
		}
		out = append(out, m)
	}
	return out
}

func c14Eval(c *run.Ctx, id string, prog *wgen.Program, seed uint64, nMaps int) run.Outcome {
	if len(prog.M.Overrides()) == 0 {
		return run.Outcome{V: run.Inconclusive, Reason: "no overrides generated"}
	}
	src := wgen.Print(prog.M).Src
	lower := func() *ir.Module {
		m, _, err := lowerSrc(src)
		if err != nil {
			return nil
		}
		return m
	}
	base := lower()
	if base == nil {
		return run.Outcome{V: run.Inconclusive, Reason: "front-end rejected generated program (C08 territory)"}
	}
	entry := prog.M.Entries()[0]
	r := run.NewRng(seed ^ 0xC14)
	cov := map[string]int{}
	var first *run.Outcome
	changed := 0
	note := func(class, msg string, w map[string]any) {
		o := run.Outcome{V: run.Violated, Class: class, Reason: id + ": " + msg, Witness: w}
		if (c != nil && c.KnownMatch(o.Class, o.Reason)) || (c == nil && c14K != nil && c14K.KnownPeek(o.Class, o.Reason)) {
			cov["known-finding-instances:"+class]++
			return
		}
		if first == nil {
			first = &o
		}
	}
	for _, om := range c14Maps(prog, r, nMaps) {
		in := cases.MakeInput(prog.M, r.Split())
		in.Overrides = om.wref
		exp, werr := wref.Run(prog.M, entry, in)
		if werr != nil {
			cov["wref-inconclusive"]++
			continue
		}
		w := map[string]any{"wgsl": src, "map_kind": om.kind, "pipeline_constants": fmt.Sprint(om.naga), "input": cases.DescribeInput(prog.M, in)}
		compare := func(path string, get func(g *wgen.Var) []byte) {
			diffs, st := cases.Compare(prog.M, in, exp, get)
			cov["leaves:"+path] += st.Exact + st.Tolerant
			changed += st.Changed
			if len(diffs) > 0 {
				w2 := map[string]any{}
				for k, v := range w {
					w2[k] = v
				}
				w2["diffs"] = fmt.Sprint(diffs)
				note(path+":result-mismatch", fmt.Sprintf("[%s map %s]%s %s (%d leaves)", path, om.kind, c14Traits(prog, om), diffs[0], len(diffs)), w2)
			}
		}
		// path 1: ProcessOverrides on a clone
		orig := lower()
		d0 := irstrict.Hash(orig)
		s0 := c12Sections(orig)
		clone := ir.CloneModuleForOverrides(orig)
		var perr error
		if st, pan := run.Catch(func() { perr = ir.ProcessOverrides(clone, ir.PipelineConstants(om.naga)) }); pan {
			note("process-overrides:panic", oneLine(st[:min(200, len(st))]), w)
			continue
		}
		if irstrict.Hash(orig) != d0 {
			note("process-overrides:module-mutated", "ProcessOverrides on CloneModuleForOverrides(m) changed the original module (sections: "+c12ChangedSections(s0, c12Sections(orig))+")", w)
		}
		if perr != nil {
			note("process-overrides:error", "valid value map rejected: "+oneLine(perr.Error()), w)
			continue
		}
		cov["resolved:"+om.kind]++
		// IR interpreter
		{
			bufs := cases.Buffers(prog.M, in)
			res, err := irx.Run(clone, entry.Name, bufs, irx.Config{})
			if err == nil && len(res.Traps) == 0 {
				compare("process-overrides+irx", func(g *wgen.Var) []byte { return bufs[cases.SlotOf(g)] })
			} else if err != nil && !isUnsupported(err) {
				note("process-overrides+irx:exec-error", oneLine(err.Error()), w)
			}
		}
		// SPIR-V
		if bin, err := naga.GenerateSPIRV(clone, spirv.Options{Version: spirv.Version1_3}); err == nil {
			if sm, err := spvx.Parse(bin); err == nil {
				bufs := cases.Buffers(prog.M, in)
				if res, err := spvx.Run(sm, entry.Name, bufs, xrt.Options{}); err == nil {
					_ = res
					compare("process-overrides+spirv", func(g *wgen.Var) []byte { return bufs[cases.SlotOf(g)] })
				}
			}
		} else {
			note("process-overrides+spirv:error", oneLine(err.Error()), w)
		}
		// text backends after ProcessOverrides, and the PipelineConstants options on the unresolved module
		type tp struct {
			be   textBackend
			mod  *ir.Module
			pc   map[string]float64
			name string
		}
		paths := []tp{{hlslBackend, clone, nil, "process-overrides+hlsl"}, {mslBackend, clone, nil, "process-overrides+msl"}, {glslBackend, clone, nil, "process-overrides+glsl"},
			{glslBackend, lower(), om.naga, "glsl.PipelineConstants"}, {mslBackend, lower(), om.naga, "msl.PipelineConstants"}}
		for _, p := range paths {
			if p.pc != nil && len(p.pc) == 0 {
				// an empty assignment (every override takes its default) handed to the backend option: its own class,
				// because both backends skip override resolution for an empty map (finding F104)
				p.name += "[empty-map]"
			}
			rs, ridx := resOfProg(prog, in)
			var tr textRun
			pcv := p.pc
			if pcv != nil && len(pcv) == 0 {
				pcv = map[string]float64{}
			}
			if _, pan := run.Catch(func() { tr = p.be.run(p.mod, entry.Name, rs, in.NumGroups, false, 0, false, pcv) }); pan {
				note(p.name+":panic", "backend panicked", w)
				continue
			}
			if tr.err != nil {
				if p.pc != nil {
					note(p.name+":error", "valid value map rejected: "+oneLine(tr.err.Error()), w)
				}
				continue
			}
			if tr.parse != nil || len(tr.static) > 0 || tr.runErr != nil {
				cov["text-path-inconclusive:"+p.name]++
				continue
			}
			compare(p.name, func(g *wgen.Var) []byte {
				if i, ok := ridx[g]; ok {
					return tr.get(i)
				}
				return nil
			})
		}
	}
	// missing value without default must be an error
	for _, o := range prog.M.Overrides() {
		if o.Init == nil {
			clone := ir.CloneModuleForOverrides(lower())
			var perr error
			run.Catch(func() { perr = ir.ProcessOverrides(clone, ir.PipelineConstants{}) })
			if perr == nil {
				note("process-overrides:missing-value-accepted", "override "+o.Name+" has no default and no value was supplied, but ProcessOverrides succeeded", map[string]any{"wgsl": src})
			} else {
				cov["missing-value-rejected"]++
			}
			break
		}
	}
	// NaN / out-of-range values: no panic, original unchanged
	{
		orig := lower()
		d0 := irstrict.Hash(orig)
		pc := ir.PipelineConstants{}
		for _, o := range prog.M.Overrides() {
			key := o.Name
			if o.ID >= 0 {
				key = strconv.Itoa(o.ID)
			}
			pc[key] = []float64{math.NaN(), math.Inf(1), 1e30, -1e30, 4294967296, -1}[r.Intn(6)]
		}
		sh0 := c12Sections(orig)
		if st, pan := run.Catch(func() { ir.ProcessOverrides(ir.CloneModuleForOverrides(orig), pc) }); pan {
			note("process-overrides:panic", "hostile value map: "+oneLine(st[:min(200, len(st))]), map[string]any{"wgsl": src, "pipeline_constants": fmt.Sprint(pc)})
		}
		if irstrict.Hash(orig) != d0 {
			note("process-overrides:module-mutated", "hostile value map changed the original module (sections: "+c12ChangedSections(sh0, c12Sections(orig))+")", map[string]any{"wgsl": src})
		}
		cov["hostile-maps"]++
	}
	if first != nil {
		first.Cov = cov
		return *first
	}
	parts := cases.FeatKeys(prog.Feat)
	for k := range cov {
		parts[k] = 1
	}
	return run.Outcome{V: run.Held, Sig: cases.FeatureSig(parts), Trivial: changed == 0, Cov: cov, Sample: map[string]any{"wgsl": src, "overrides": len(prog.M.Overrides())}}
}

// witnessOverrideExec: header lines "// pc <key> = <value>"; ProcessOverrides + SPIR-V + spvx must give the expected words.
func witnessOverrideExec(w witness) string {
	mod, stage, err := lowerSrc(w.Src)
	if err != nil {
		return stage + ": " + err.Error()
	}
	pc := ir.PipelineConstants{}
	for _, l := range splitLines(w.Src) {
		var k string
		var v float64
		if n, _ := fmt.Sscanf(l, "// pc %s = %g", &k, &v); n == 2 {
			pc[k] = v
		}
	}
	clone := ir.CloneModuleForOverrides(mod)
	if err := ir.ProcessOverrides(clone, pc); err != nil {
		return "ProcessOverrides: " + err.Error()
	}
	bin, err := naga.GenerateSPIRV(clone, spirv.Options{Version: spirv.Version1_3})
	if err != nil {
		return "spirv: " + err.Error()
	}
	sm, err := spvx.Parse(bin)
	if err != nil {
		return err.Error()
	}
	bufs := patternBuffers(mod)
	if _, err := spvx.Run(sm, mod.EntryPoints[0].Name, bufs, xrt.Options{}); err != nil {
		return err.Error()
	}
	return checkExpects(w, bufs)
}

func splitLines(s string) []string {
	var out []string
	cur := ""
	for _, ch := range s {
		if ch == '\n' {
			out = append(out, cur)
			cur = ""
		} else {
			cur += string(ch)
		}
	}
	return append(out, cur)
}

// c14Traits: AST traits used to attribute listed known findings.
func c14Traits(prog *wgen.Program, om ovMap) string {
	compositeStoreWithRead := false
	compoundDefaultUsed := false
	for _, o := range prog.M.Overrides() {
		if _, given := om.wref[o]; given || o.Init == nil {
			continue
		}
		e := o.Init
		for {
			if m, ok := e.(*wgen.Materialize); ok {
				e = m.X
				continue
			}
			if p, ok := e.(*wgen.Paren); ok {
				e = p.X
				continue
			}
			break
		}
		// a negative literal is a unary expression for naga's parser
		if l, isLit := e.(*wgen.Lit); !isLit || l.I < 0 || l.F < 0 || math.Signbit(l.F) {
			compoundDefaultUsed = true
		}
	}
	for _, f := range prog.M.Funcs() {
		wgen.WalkStmts(f.Body, func(st wgen.Stmt) {
			a, ok := st.(*wgen.Assign)
			if !ok || a.LHS == nil || a.LHS.T() == nil || a.LHS.T().IsScalar() {
				return
			}
			if _, isCons := a.RHS.(*wgen.Cons); !isCons {
				return
			}
			wgen.WalkExpr(a.RHS, func(e wgen.Expr) {
				if r, ok := e.(*wgen.Ref); ok && r.V.Kind == wgen.VGlobal && (r.V.Space == "storage" || r.V.Space == "uniform") {
					compositeStoreWithRead = true
				}
			})
		}, nil)
	}
	negIntOverride := false
	for _, f := range prog.M.Funcs() {
		wgen.WalkStmts(f.Body, nil, func(e wgen.Expr) {
			u, ok := e.(*wgen.Unary)
			if !ok || u.Op != "-" {
				return
			}
			x := u.X
			for {
				if p, ok := x.(*wgen.Paren); ok {
					x = p.X
					continue
				}
				break
			}
			if r, ok := x.(*wgen.Ref); ok && r.V.Kind == wgen.VOverride && r.V.Ty.IsInt() {
				negIntOverride = true
			}
		})
	}
	var t []string
	if negIntOverride {
		t = append(t, "negated-integer-override")
	}
	if compositeStoreWithRead {
		t = append(t, "composite-store-of-constructor-with-buffer-read")
	}
	if compoundDefaultUsed {
		t = append(t, "compound-default-initialiser-in-effect")
	}
	if len(t) == 0 {
		return ""
	}
	return " traits=" + fmt.Sprint(t)
}
