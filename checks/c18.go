package checks

import (
	"bytes"
	"fmt"

	"github.com/gogpu/naga/dxil"
	"github.com/gogpu/naga/ir"
	"verif/internal/cases"
	"verif/internal/dxbcx"
	"verif/internal/run"
	"verif/internal/wgen"
)

func init() { register("C18", C18) }

func stageKind(s ir.ShaderStage) int {
	switch s {
	case ir.StageFragment:
		return 0
	case ir.StageVertex:
		return 1
	case ir.StageCompute:
		return 5
	}
	return -1
}

type dxilOpt struct {
	name string
	o    dxil.Options
}

func dxilOptionSets(thorough bool, r *run.Rng, mod *ir.Module) []dxilOpt {
	minors := []uint32{0, 2, 6}
	if thorough {
		minors = []uint32{0, 1, 2, 3, 4, 5, 6}
	}
	var out []dxilOpt
	for i, mn := range minors {
		o := dxil.DefaultOptions()
		o.ShaderModel = dxil.ShaderModel{Major: 6, Minor: mn}
		o.UseBypassHash = i%2 == 1
		name := fmt.Sprintf("sm6.%d/bypass=%v", mn, o.UseBypassHash)
		if i%2 == 0 {
			// random binding map: every resource gets a distinct (space, register)
			bm := dxil.BindingMap{}
			reg := uint32(r.Intn(4))
			for _, g := range mod.GlobalVariables {
				if g.Binding != nil {
					bm[dxil.BindingLocation{Group: g.Binding.Group, Binding: g.Binding.Binding}] = dxil.BindTarget{Space: uint32(r.Intn(3)), Register: reg}
					reg += 1 + uint32(r.Intn(3))
				}
			}
			o.BindingMap = bm
			name += "/bindmap"
		}
		out = append(out, dxilOpt{name, o})
	}
	return out
}

func C18(c *run.Ctx) int {
	replayWitnesses(c, map[string]func(witness) string{"dxil-determinism": witnessDxilDeterminism})
	corpus := loadCorpus()
	nGen := c.N(400, 6000)
	c.SetExtra("rules_implemented", dxbcx.RuleIDs())
	c.Each(nGen+len(corpus), func(i int) (string, run.Outcome) {
		if i < len(corpus) {
			id := "corpus-" + corpus[i].Name
			return id, c18Eval(c, id, corpus[i].Src, map[string]int{"corpus:" + corpus[i].Name: 1}, run.CaseSeed(c.Seed, "dxil", i))
		}
		seed := run.CaseSeed(c.Seed, "exec", i-len(corpus))
		prog := cases.Generate(seed, wgen.Config{Off: wgen.SafeOff()})
		id := fmt.Sprintf("prog-%d", i-len(corpus))
		return id, c18Eval(c, id, wgen.Print(prog.M).Src, cases.FeatKeys(prog.Feat), seed)
	})
	return c.Finish("generated compute modules and naga's corpus (every entry point, by reordering EntryPoints on a shallow copy), compiled by dxil.Compile under shader models 6.0-6.6, retail and bypass hash, default and random binding maps; every returned container is decoded by an independent DXBC / DxilContainer / LLVM-3.7 bitstream reader (rules X container, S signatures, P PSV0, D program header, B bitstream, M module tables, F function bodies) and compiled twice for determinism; "+
		"an ordinary error from the backend is not a violation; counters rule:<id> are non-vacuous evaluations; distinct = distinct (feature set | corpus shader) with at least one container checked",
		[]string{"dxbcx implements the public DXBC/DxilContainer layouts and the LLVM 3.7 bitstream format; no dxil.dll / IDxcValidator is available, so only well-formedness and self-consistency are judged"})
}

func c18Eval(c *run.Ctx, id, src string, feats map[string]int, seed uint64) run.Outcome {
	mod, _, err := lowerSrc(src)
	if err != nil {
		return run.Outcome{V: run.Inconclusive, Reason: "front-end rejected the program"}
	}
	cov := map[string]int{}
	r := run.NewRng(seed ^ 0x18)
	checked := 0
	var first *run.Outcome
	note := func(o run.Outcome) {
		if c.KnownMatch(o.Class, o.Reason) {
			cov["known-finding-instances"]++
			return
		}
		if first == nil {
			first = &o
		}
	}
	for epi := range mod.EntryPoints {
		m := *mod
		m.EntryPoints = append([]ir.EntryPoint{mod.EntryPoints[epi]}, append(append([]ir.EntryPoint{}, mod.EntryPoints[:epi]...), mod.EntryPoints[epi+1:]...)...)
		ep := m.EntryPoints[0]
		for _, os := range dxilOptionSets(!c.Quick(), r, &m) {
			var bin, bin2 []byte
			var cerr error
			fresh := func() *ir.Module {
				mod2, _, err := lowerSrc(src)
				if err != nil {
					return nil
				}
				m2 := *mod2
				m2.EntryPoints = append([]ir.EntryPoint{mod2.EntryPoints[epi]}, append(append([]ir.EntryPoint{}, mod2.EntryPoints[:epi]...), mod2.EntryPoints[epi+1:]...)...)
				return &m2
			}
			if st, pan := run.Catch(func() { bin, cerr = dxil.Compile(fresh(), os.o) }); pan {
				note(run.Outcome{V: run.Violated, Class: "panic", Reason: fmt.Sprintf("%s entry %s [%s]: panic: %s", id, ep.Name, os.name, st[:min(300, len(st))]), Witness: map[string]any{"wgsl": src, "entry": ep.Name, "options": os.name}})
				continue
			}
			if cerr != nil {
				cov["backend-error"]++
				continue
			}
			// second compilation from a freshly lowered module: dxil.Compile is known to mutate the module it is given
			// (finding F57, judged under C12), so re-using `m` would conflate that defect with output nondeterminism.
			run.Catch(func() { bin2, _ = dxil.Compile(fresh(), os.o) })
			if !bytes.Equal(bin, bin2) {
				note(run.Outcome{V: run.Violated, Class: "nondeterministic", Reason: fmt.Sprintf("%s entry %s [%s]: two compilations differ", id, ep.Name, os.name), Witness: map[string]any{"wgsl": src, "entry": ep.Name, "options": os.name}})
			}
			exp := dxbcx.Expect{ShaderKind: stageKind(ep.Stage), NumInputElems: -1, NumOutputElems: -1, AllowZeroHash: os.o.UseBypassHash}
			rep := dxbcx.Check(bin, exp)
			checked++
			for k, v := range rep.Fired {
				cov["rule:"+k] += v
			}
			cov["instructions-decoded"] += rep.NumInstructions
			if rep.Unsupported != "" {
				cov["reader-unsupported"]++
			}
			if rep.ShaderModel[0] != 6 || rep.ShaderModel[1] < int(os.o.ShaderModel.Minor) {
				note(run.Outcome{V: run.Violated, Class: "D2", Reason: fmt.Sprintf("%s entry %s [%s]: program header says SM %v", id, ep.Name, os.name, rep.ShaderModel), Witness: map[string]any{"wgsl": src, "entry": ep.Name, "options": os.name}})
			}
			for _, f := range rep.Findings {
				note(run.Outcome{V: run.Violated, Class: f.Rule, Reason: fmt.Sprintf("%s entry %s [%s]: %s: %s", id, ep.Name, os.name, f.Rule, f.Detail),
					Witness: map[string]any{"wgsl": src, "entry": ep.Name, "options": os.name, "findings": fmt.Sprint(rep.Findings)}})
			}
		}
	}
	if first != nil {
		return *first
	}
	if checked == 0 {
		return run.Outcome{V: run.Inconclusive, Reason: "dxil backend returned only errors for this module"}
	}
	cov["containers-checked"] = checked
	return run.Outcome{V: run.Held, Sig: cases.FeatureSig(feats), Cov: cov, Sample: map[string]any{"case": id, "containers_checked": checked}}
}

// witnessDxilDeterminism: every entry point compiled 30 times from freshly lowered modules must give identical bytes.
func witnessDxilDeterminism(w witness) string {
	for epi := 0; ; epi++ {
		var first []byte
		for k := 0; k < 30; k++ {
			mod, stage, err := lowerSrc(w.Src)
			if err != nil {
				return stage + ": " + err.Error()
			}
			if epi >= len(mod.EntryPoints) {
				return ""
			}
			mod.EntryPoints = []ir.EntryPoint{mod.EntryPoints[epi]}
			var bin []byte
			var cerr error
			if _, pan := run.Catch(func() { bin, cerr = dxil.Compile(mod, dxil.DefaultOptions()) }); pan || cerr != nil {
				break // this entry point is not compilable: nothing to compare
			}
			if first == nil {
				first = bin
			} else if !bytes.Equal(first, bin) {
				return fmt.Sprintf("entry point %d: compilation %d differs from the first", epi, k)
			}
		}
	}
}
