package checks

import (
	"fmt"
	"strings"

	"verif/internal/cases"
	"verif/internal/run"
	"verif/internal/wgen"
)

func init() { register("C15", C15) }

// C15: hostile data. The generator profile emits unguarded dynamic indices (taken straight from buffer data), raw
// shift amounts, raw float->int conversions, run-time divisors and reads of variables without initialiser; inputs are
// boundary-biased 32-bit values. Every emitted program is executed in the target interpreter in trap mode: any trap
// (out-of-object access, poison read, division by zero / overflow, out-of-range conversion) is the violation the
// property forbids, and the result must be what WGSL + the selected policy prescribe (wref evaluates with the same policy).
func C15(c *run.Ctx) int {
	replayWitnesses(c, map[string]func(witness) string{"exec-msl": witnessExecText(mslBackend), "exec-hlsl": witnessExecText(hlslBackend), "exec-glsl": witnessExecText(glslBackend), "exec-spirv": witnessExecSpirv})
	n := c.N(1600, 16000)
	nIn := c.N(2, 4)
	type lane struct {
		be     textBackend
		hostIx bool
		pol    policyFn
	}
	lanes := []lane{
		// MSL: Index/Buffer policies Restrict and ReadZeroSkipWrite (enum: 1 = rzsw, 2 = restrict); unchecked sets are skipped
		{mslBackend, true, func(o string) (string, bool) {
			switch {
			case strings.Contains(o, "policy=2"):
				return "restrict", true
			case strings.Contains(o, "policy=1"):
				return "rzsw", true
			}
			return "", false
		}},
		// HLSL: RestrictIndexing clamps function / private / workgroup indexing
		{hlslBackend, true, func(o string) (string, bool) { return "restrict", strings.Contains(o, "restrict=true") }},
		// GLSL: this naga has no index policy for GLSL; only the hardened operators and zero initialisation are in scope
		{glslBackend, false, func(o string) (string, bool) { return "", true }},
	}
	spv := spvOptionSets(!c.Quick())
	c.SetExtra("lanes", "spirv(default wrappers, zero-init) + msl(restrict, rzsw) + hlsl(restrict) + glsl(operators)")
	c.Each(n, func(i int) (string, run.Outcome) {
		seed := run.CaseSeed(c.Seed, "hostile", i)
		li := i % (len(lanes) + 1)
		if li == len(lanes) {
			id := fmt.Sprintf("spirv-prog-%d", i)
			cfg := execCfg()
			cfg.Hostile = true
			prog := cases.Generate(seed, cfg)
			o := c01Eval(prog, seed, nIn, spv)
			if o.V == run.Violated {
				o.Class = "spirv:" + o.Class
				if c.KnownMatch(o.Class, o.Reason) {
					return id, run.Outcome{V: run.Held, Sig: "known:" + o.Class, Trivial: true, Cov: map[string]int{"known-finding-instances:" + o.Class: 1}}
				}
				if c.TakeReduceSlotFor(o.Class) {
					class := o.Class
					orig := wgen.Print(prog.M).Src
					same := func() bool {
						r := c01Eval(prog, seed, nIn, spv)
						return r.V == run.Violated && "spirv:"+r.Class == class
					}
					wgen.Reduce(prog.M, same, 6)
					if r := c01Eval(prog, seed, nIn, spv); r.V == run.Violated && "spirv:"+r.Class == class {
						r.Class = class
						r.Witness["reduced"] = true
						r.Witness["wgsl_unreduced"] = orig
						o = r
					}
				}
			}
			if o.Cov != nil {
				o.Cov["lane:spirv"]++
			}
			return id, o
		}
		ln := lanes[li]
		id := fmt.Sprintf("%s-prog-%d", ln.be.name, i)
		cfg := c15Cfg(ln.be, ln.hostIx)
		prog := cases.Generate(seed, cfg)
		eval := func(cc *run.Ctx) run.Outcome {
			o := textDiffEval(cc, ln.be, id, prog, seed, nIn, ln.pol)
			if o.V == run.Violated {
				o.Class = ln.be.name + ":" + o.Class
			}
			return o
		}
		o := c15Attr(c, eval(c))
		if o.V == run.Violated && c.TakeReduceSlotFor(o.Class) {
			class := o.Class
			orig := wgen.Print(prog.M).Src
			same := func() bool {
				r := eval(nil)
				return r.V == run.Violated && r.Class == class && !c.KnownPeek(r.Class, r.Reason)
			}
			wgen.Reduce(prog.M, same, 5)
			if r := eval(nil); r.V == run.Violated && r.Class == class {
				r.Witness["reduced"] = true
				r.Witness["wgsl_unreduced"] = orig
				o = r
			}
		}
		if o.Cov != nil {
			o.Cov["lane:"+ln.be.name]++
		}
		return id, o
	})
	c15Templates(c)
	c15EntryGraph(c)
	c15Nested(c)
	return c.Finish("generated compute programs in the hostile profile (unguarded dynamic indices from buffer data for the lanes with an index policy, raw shift amounts, raw float->int conversions, run-time divisors, reads of variables without initialiser) x boundary-biased 32-bit inputs, plus multi-entry-point modules (2-4 compute entry points, random acyclic helper call graphs with diamonds and shared helpers, helpers reading var<workgroup> scalars / arrays / atomics / structs before any write) where every entry point is executed through SPIR-V 1.0/1.3/1.4/1.5, HLSL, MSL and GLSL and compared with the values zero-initialised workgroup memory gives; one lane per backend with its protective options: SPIR-V (default wrappers, zero initialisation), MSL (Index/Buffer policy Restrict and ReadZeroSkipWrite), HLSL (RestrictIndexing, workgroup zero-init), GLSL (operators only: no index policy exists); the emitted code runs in the target interpreter in trap mode (out-of-object access, poison read, division by zero / INT_MIN/-1, out-of-range conversion, oversized shift are traps) and every output leaf is compared with wref evaluating the same policy; plus access-path templates (atomic read-modify-write through an array of structs and an array of atomics, in storage and workgroup memory) with hostile values for both indices, whose expected memory image is computed from the policy; "+
		"distinct = distinct (lane, generator features, interpreter operation kinds executed); non-trivial = an output leaf changed and was compared",
		[]string{"restrict = index clamped to the last element (unsigned), rzsw = out-of-range reads give zero and writes are dropped, as the property states", "interpreters model memory without initialiser as poison, so a missing zero-initialisation is observed as a poison-read trap"})
}

// c15Attr moves a violation of the per-lane class to Held(known) when it is a listed finding (textDiffEval attributes
// with the un-prefixed class, which has no C15 entries).
func c15Attr(c *run.Ctx, o run.Outcome) run.Outcome {
	if o.V == run.Violated && c.KnownMatch(o.Class, o.Reason) {
		return run.Outcome{V: run.Held, Sig: "known:" + o.Class, Trivial: true, Cov: map[string]int{"known-finding-instances:" + o.Class: 1}}
	}
	return o
}

func c15Cfg(be textBackend, hostIx bool) wgen.Config {
	cfg := be.cfg()
	cfg.Hostile = true
	cfg.HostileIx = hostIx
	if be.name == "msl" {
		// finding F110: a runtime-sized array that is the storage variable itself is indexed unclamped under Restrict
		cfg.HostileIxSkip = func(root *wgen.Var) bool {
			return root.Kind == wgen.VGlobal && root.Ty.Kind == wgen.KArray && root.Ty.N == 0
		}
	}
	if be.name == "hlsl" {
		// finding F109: RestrictIndexing does not cover storage / uniform buffers; keep exploring the address spaces it covers
		cfg.HostileIxSkip = func(root *wgen.Var) bool {
			return root.Kind == wgen.VGlobal && (root.Space == "storage" || root.Space == "uniform")
		}
	}
	return cfg
}
