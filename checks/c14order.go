package checks

import (
	"encoding/binary"
	"fmt"
	"strings"

	"github.com/gogpu/naga"
	"github.com/gogpu/naga/ir"
	"github.com/gogpu/naga/spirv"
	"verif/internal/irx"
	"verif/internal/run"
	"verif/internal/spvx"
	"verif/internal/xrt"
)

// c14Order: override resolution rewrites the expression arena of every function that mentions an override (folded
// sub-expressions become literals, handles shift, Emit ranges are re-cut). WGSL fixes WHEN each load happens: a let
// takes its value at the declaration, whatever is stored to the same location later. The programs are straight-line
// sequences over one storage array - loads into lets, stores, accesses through pointer lets, calls of a helper with a
// side effect - in which foldable override expressions sit before, between and after the memory accesses; the final
// memory image is computed here by executing the sequence in order, and compared on every resolution path.
func c14Order(c *run.Ctx) {
	n := c.N(80, 1200)
	c.Each(n, func(i int) (string, run.Outcome) {
		r := run.NewRng(run.CaseSeed(c.Seed, "c14-order", i))
		id := fmt.Sprintf("order-%d", i)
		ov := [2]uint32{uint32(r.Range(1, 9)), uint32(r.Range(1, 9))}
		pc := map[string]float64{"ova": float64(ov[0]), "ovb": float64(ov[1])}
		// foldable override expressions and their values
		type oe struct {
			text string
			val  uint32
		}
		oes := []oe{{"(ova * 2u)", ov[0] * 2}, {"(ova + ovb)", ov[0] + ov[1]}, {"(ovb * ova + 3u)", ov[1]*ov[0] + 3}, {"(ovb * 4u - ovb)", ov[1]*4 - ov[1]}, {"ova", ov[0]}, {"(ova * ovb * 2u)", ov[0] * ov[1] * 2},
			// expressions over lets that are themselves derived from overrides (folded where they are used, in the middle of a range)
			{"(sa * sb)", (ov[0] * 2) * (ov[1] + 1)}, {"(sa + 1u)", ov[0]*2 + 1}, {"(sb * 3u - sa)", (ov[1]+1)*3 - ov[0]*2}}
		pick := func() oe { return oes[r.Intn(len(oes))] }
		var b [16]uint32
		for k := range b {
			b[k] = uint32(k*3 + 1)
		}
		var lines []string
		lets := []uint32{} // values of t0, t1, ...
		ptrs := []int{}    // cell of p0, p1, ...
		newLet := func(expr string, v uint32) {
			lines = append(lines, fmt.Sprintf("let t%d = %s;", len(lets), expr))
			lets = append(lets, v)
		}
		lastLoadCell := -1
		ns := r.Range(6, 14)
		endWithLoad := r.Bool()
		for s := 0; s < ns; s++ {
			cell := r.Intn(len(b))
			e := pick()
			kind := r.Intn(8)
			if endWithLoad && s == ns-1 {
				kind = 0 // the last statement before the result stores is a plain load
				if len(ptrs) > 0 && r.Bool() {
					kind = 50
				}
			}
			lastLoadCell = -1
			switch k := kind; {
			case k == 50:
				p := r.Intn(len(ptrs))
				newLet(fmt.Sprintf("*p%d", p), b[ptrs[p]])
				lastLoadCell = ptrs[p]
			case k == 0 || len(lets) == 0:
				newLet(fmt.Sprintf("b[%d]", cell), b[cell])
				lastLoadCell = cell
			case k == 1:
				if r.Bool() {
					newLet(fmt.Sprintf("b[%d] * %s", cell, e.text), b[cell]*e.val)
				} else {
					newLet(fmt.Sprintf("%s + b[%d]", e.text, cell), e.val+b[cell])
				}
			case k == 2:
				t := r.Intn(len(lets))
				lines = append(lines, fmt.Sprintf("b[%d] = t%d + %s;", cell, t, e.text))
				b[cell] = lets[t] + e.val
			case k == 3:
				lines = append(lines, fmt.Sprintf("b[%d] = %s;", cell, e.text))
				b[cell] = e.val
			case k == 4:
				lines = append(lines, fmt.Sprintf("let p%d = &b[%d];", len(ptrs), cell))
				ptrs = append(ptrs, cell)
			case k == 5 && len(ptrs) > 0:
				p := r.Intn(len(ptrs))
				if r.Bool() {
					newLet(fmt.Sprintf("*p%d", p), b[ptrs[p]])
				} else {
					t := r.Intn(len(lets))
					lines = append(lines, fmt.Sprintf("*p%d = t%d;", p, t))
					b[ptrs[p]] = lets[t]
				}
			case k == 6:
				// helper with a side effect: b[cell] += 1, returns the new value
				b[cell]++
				if r.Chance(1, 3) {
					// the cell is read, then an override expression is folded, then the call changes the cell:
					// WGSL evaluates the operands left to right
					newLet(fmt.Sprintf("b[%d] * %s + bump(%du)", cell, e.text, cell), (b[cell]-1)*e.val+b[cell])
				} else if r.Bool() {
					newLet(fmt.Sprintf("bump(%du) + %s", cell, e.text), b[cell]+e.val)
				} else {
					t := r.Intn(len(lets))
					newLet(fmt.Sprintf("t%d * %s + bump(%du)", t, e.text, cell), lets[t]*e.val+b[cell])
				}
			default:
				t := r.Intn(len(lets))
				newLet(fmt.Sprintf("t%d + %s", t, e.text), lets[t]+e.val)
			}
		}
		// results are written either through fresh access chains, or through pointer lets declared before everything
		// else - then the stores add no expression and the function's last expression is the last load
		ptrTail := r.Bool()
		if ptrTail && lastLoadCell >= 0 && len(lets) > 1 {
			// overwrite the cell that was loaded last, through a pointer let declared up front (no new expression)
			t := r.Intn(len(lets) - 1)
			lines = append(lines, fmt.Sprintf("*pb%d = t%d;", lastLoadCell, t))
			b[lastLoadCell] = lets[t]
		}
		for k := range lets {
			if ptrTail {
				lines = append(lines, fmt.Sprintf("*q%d = t%d;", k, k))
			} else {
				lines = append(lines, fmt.Sprintf("o[%d] = t%d;", k, k))
			}
		}
		if ptrTail {
			var pre []string
			for k := range lets {
				pre = append(pre, fmt.Sprintf("let q%d = &o[%d];", k, k))
			}
			for k := range b {
				pre = append(pre, fmt.Sprintf("let pb%d = &b[%d];", k, k))
			}
			lines = append(pre, lines...)
		}
		src := `override ova: u32 = 1u;
override ovb: u32;
@group(0) @binding(0) var<storage, read_write> b: array<u32, 16>;
@group(0) @binding(1) var<storage, read_write> o: array<u32, 16>;
fn bump(i: u32) -> u32 { b[i] = b[i] + 1u; return b[i]; }
@compute @workgroup_size(1) fn main() {
    let sa = ova * 2u;
    let sb = ovb + 1u;
    ` + strings.Join(lines, "\n    ") + `
}
`
		w := map[string]any{"wgsl": src, "pipeline_constants": fmt.Sprint(pc)}
		cov := map[string]int{}
		var first *run.Outcome
		report := func(path, class, msg string, extra map[string]any) {
			ww := map[string]any{"path": path}
			for k, v := range w {
				ww[k] = v
			}
			for k, v := range extra {
				ww[k] = v
			}
			o := c16Viol(c, "order:"+path+":"+class, id+": ["+path+"] "+msg, ww, "")
			if o.V == run.Violated && first == nil {
				first = &o
			} else if o.V != run.Violated {
				cov["known-finding-instances:order:"+path+":"+class]++
			}
		}
		initB := func() []byte {
			buf := make([]byte, 64)
			for k := 0; k < 16; k++ {
				binary.LittleEndian.PutUint32(buf[4*k:], uint32(k*3+1))
			}
			return buf
		}
		check := func(path string, bb, ob []byte, extra map[string]any) {
			for k, want := range b {
				if got := binary.LittleEndian.Uint32(bb[4*k:]); got != want {
					report(path, "value", fmt.Sprintf("b[%d] = %d, executing the statements in order gives %d", k, got, want), extra)
					return
				}
			}
			for k, want := range lets {
				if got := binary.LittleEndian.Uint32(ob[4*k:]); got != want {
					report(path, "value", fmt.Sprintf("t%d = %d, executing the statements in order gives %d (%s)", k, got, want, lines[0]), extra)
					return
				}
			}
			cov["order:"+path+":ok"]++
		}
		mod, stage, err := lowerSrc(src)
		if err != nil {
			report("front-end", "rejected", stage+": "+oneLine(err.Error()), nil)
			return id, *first
		}
		clone := ir.CloneModuleForOverrides(mod)
		if err := ir.ProcessOverrides(clone, ir.PipelineConstants(pc)); err != nil {
			report("process-overrides", "error", oneLine(err.Error()), nil)
			return id, *first
		}
		// IR interpreter and SPIR-V on the resolved module
		bufs := xrt.Buffers{xrt.Slot{A: 0, B: 0}: initB(), xrt.Slot{A: 0, B: 1}: make([]byte, 64)}
		if res, err := irx.Run(clone, "main", bufs, irx.Config{}); err != nil || len(res.Traps) > 0 {
			report("process-overrides+irx", "exec-error", fmt.Sprint(err, res.Traps), nil)
		} else {
			check("process-overrides+irx", bufs[xrt.Slot{A: 0, B: 0}], bufs[xrt.Slot{A: 0, B: 1}], nil)
		}
		if bin, err := naga.GenerateSPIRV(clone, spirv.Options{Version: spirv.Version1_3}); err != nil {
			report("process-overrides+spirv", "backend-error", oneLine(err.Error()), nil)
		} else if sm, err := spvx.Parse(bin); err == nil {
			bufs = xrt.Buffers{xrt.Slot{A: 0, B: 0}: initB(), xrt.Slot{A: 0, B: 1}: make([]byte, 64)}
			if res, err := spvx.Run(sm, "main", bufs, xrt.Options{TrapMode: true}); err != nil || len(res.Traps) > 0 {
				if !isUnsupported(err) {
					report("process-overrides+spirv", "exec-error", fmt.Sprint(err, res.Traps), nil)
				}
			} else {
				check("process-overrides+spirv", bufs[xrt.Slot{A: 0, B: 0}], bufs[xrt.Slot{A: 0, B: 1}], nil)
			}
		}
		// text backends: on the resolved module, and through their own PipelineConstants option where they have one
		for _, ln := range []struct {
			be    textBackend
			ownPC bool
		}{{hlslBackend, false}, {mslBackend, false}, {glslBackend, false}, {mslBackend, true}, {glslBackend, true}} {
			path := "process-overrides+" + ln.be.name
			m := clone
			var pcs []map[string]float64
			if ln.ownPC {
				path = ln.be.name + ".PipelineConstants"
				m, _, _ = lowerSrc(src)
				pcs = []map[string]float64{pc}
			}
			rs := resOfModule(m)
			for k := range rs {
				if rs[k].Binding == 0 {
					rs[k].Image = append(initB(), make([]byte, 192)...)
				} else {
					rs[k].Image = make([]byte, 256)
				}
			}
			var tr textRun
			if st, pan := run.Catch(func() { tr = ln.be.run(m, "main", rs, [3]uint32{1, 1, 1}, false, 0, true, pcs...) }); pan {
				report(path, "panic", oneLine(st[:min(200, len(st))]), nil)
				continue
			}
			extra := map[string]any{"emitted": tr.text}
			switch {
			case tr.err != nil:
				report(path, "backend-error", oneLine(tr.err.Error()), extra)
			case tr.parse != nil && isUnsupported(tr.parse), tr.runErr != nil && isUnsupported(tr.runErr):
				cov["unsupported:"+path]++
			case tr.parse != nil:
				report(path, "emitted-text-invalid", oneLine(tr.parse.Error()), extra)
			case len(tr.static) > 0:
				report(path, "static:"+string(tr.static[0].Kind), oneLineN(tr.static[0].Error(), 300), extra)
			case tr.runErr != nil:
				report(path, "exec-error", oneLine(tr.runErr.Error()), extra)
			case len(tr.traps) > 0:
				report(path, "trap:"+string(tr.traps[0].Kind), oneLine(tr.traps[0].Error()), extra)
			default:
				var bb, ob []byte
				for k := range rs {
					if rs[k].Binding == 0 {
						bb = tr.get(k)
					} else {
						ob = tr.get(k)
					}
				}
				if len(bb) >= 64 && len(ob) >= 64 {
					check(path, bb, ob, extra)
				}
			}
		}
		if first != nil {
			first.Cov = cov
			return id, *first
		}
		return id, run.Outcome{V: run.Held, Sig: fmt.Sprintf("%s lets=%d ptrs=%d", id, len(lets), len(ptrs)), Cov: cov, Sample: map[string]any{"wgsl": src}}
	})
}
