package checks

import (
	"encoding/binary"
	"fmt"
	"strings"

	"verif/internal/run"
)

// c15Nested: an index that is itself a dynamically indexed element of a by-value array, data.values[remap[lane]], with
// hostile lane values and hostile table contents, for loads and stores, in a helper and in the entry point. Both index
// operations fall under the policy: ReadZeroSkipWrite makes an out-of-range inner read 0 (then element 0 is accessed),
// Restrict clamps each index to the last element.
func c15Nested(c *run.Ctx) {
	vals := []uint32{0, 1, 3, 4, 5, 7, 8, 100, 0x7FFFFFFF, 0x80000000, 0xFFFFFFFF}
	type tcase struct {
		lane, tbl uint32
		store     bool
		inHelper  bool
	}
	var tcs []tcase
	for _, l := range vals {
		for _, t := range vals {
			for _, st := range []bool{false, true} {
				for _, h := range []bool{false, true} {
					tcs = append(tcs, tcase{l, t, st, h})
				}
			}
		}
	}
	r0 := run.NewRng(run.CaseSeed(c.Seed, "c15-nested", 0))
	for k := len(tcs) - 1; k > 0; k-- {
		j := r0.Intn(k + 1)
		tcs[k], tcs[j] = tcs[j], tcs[k]
	}
	n := c.N(120, len(tcs))
	if n > len(tcs) {
		n = len(tcs)
	}
	c.Each(n, func(ti int) (string, run.Outcome) {
		tc := tcs[ti]
		id := fmt.Sprintf("nested-index lane=%d table[2]=%d store=%v helper=%v", tc.lane, tc.tbl, tc.store, tc.inHelper)
		// remap = (1, 6, tbl, 2); o[1] == 1 in the pattern buffer makes the values run-time values
		use := "o[20] = data.values[remap[lane]];"
		if tc.store {
			use = "data.values[remap[lane]] = 99u;"
		}
		body := use
		helper := ""
		if tc.inHelper {
			if tc.store {
				helper = "fn acc(remap: array<u32, 4>, lane: u32) { data.values[remap[lane]] = 99u; }\n"
				body = "acc(remap, lane);"
			} else {
				helper = "fn acc(remap: array<u32, 4>, lane: u32) -> u32 { return data.values[remap[lane]]; }\n"
				body = "o[20] = acc(remap, lane);"
			}
		}
		src := fmt.Sprintf(`struct D { values: array<u32, 8>, guard: u32, }
@group(0) @binding(0) var<storage, read_write> o: array<u32, 64>;
@group(0) @binding(1) var<storage, read_write> data: D;
%s@compute @workgroup_size(1) fn main() {
    let lane = o[1] * %du;
    let remap = array<u32, 4>(o[1], 6u, o[1] * %du, 2u);
    %s
}
`, helper, tc.lane, tc.tbl, body)
		mod, stage, err := lowerSrc(src)
		if err != nil {
			return id, run.Outcome{V: run.Inconclusive, Reason: "front end rejected the template: " + stage + ": " + oneLine(err.Error())}
		}
		cov := map[string]int{}
		var first *run.Outcome
		tbl := [4]uint32{1, 6, tc.tbl, 2}
		for _, ln := range []struct{ sub, pol string }{{"policy=2", "restrict"}, {"policy=1", "rzsw"}} {
			oi := -1
			for k := 0; k < mslBackend.nopt(false); k++ {
				if strings.Contains(mslBackend.optName(false, k), ln.sub) {
					oi = k
				}
			}
			lane := "msl/" + ln.pol
			rs := resOfModule(mod)
			var tr textRun
			if st, pan := run.Catch(func() { tr = mslBackend.run(mod, "main", rs, [3]uint32{1, 1, 1}, false, oi, true) }); pan {
				o := c16Viol(c, "nested:"+lane+":panic", id+": "+oneLine(st[:min(200, len(st))]), map[string]any{"wgsl": src}, "")
				if o.V == run.Violated && first == nil {
					first = &o
				}
				continue
			}
			w := map[string]any{"wgsl": src, "lane": lane, "emitted": tr.text}
			report := func(class, msg string) {
				o := c16Viol(c, "nested:"+lane+":"+class, id+": ["+lane+"] "+msg, w, "")
				if o.V == run.Violated && first == nil {
					first = &o
				} else if o.V != run.Violated {
					cov["known-finding-instances:nested:"+lane+":"+class]++
				}
			}
			switch {
			case tr.err != nil:
				report("backend-error", oneLine(tr.err.Error()))
				continue
			case tr.parse != nil && isUnsupported(tr.parse), tr.runErr != nil && isUnsupported(tr.runErr):
				cov["nested-unsupported:"+lane]++
				continue
			case tr.parse != nil:
				report("emitted-text-invalid", oneLine(tr.parse.Error()))
				continue
			case len(tr.static) > 0:
				report("static:"+string(tr.static[0].Kind), oneLineN(tr.static[0].Error(), 300))
				continue
			case tr.runErr != nil:
				report("exec-error", oneLine(tr.runErr.Error()))
				continue
			case len(tr.traps) > 0:
				report("trap:"+string(tr.traps[0].Kind), oneLine(tr.traps[0].Error()))
				continue
			}
			// what the policy prescribes
			var inner uint32
			innerOK := tc.lane < 4
			switch {
			case innerOK:
				inner = tbl[tc.lane]
			case ln.pol == "restrict":
				inner = tbl[3]
			default:
				inner = 0 // an out-of-range read gives zero
			}
			outer, outerOK := inner, inner < 8
			if !outerOK && ln.pol == "restrict" {
				outer, outerOK = 7, true
			}
			get := func(res, word int) uint32 {
				b := tr.get(res)
				if len(b) < word*4+4 {
					return 0xDEADBEEF
				}
				return binary.LittleEndian.Uint32(b[word*4:])
			}
			for k := 0; k < 9; k++ {
				want := uint32(k) // pattern buffer
				if tc.store && outerOK && uint32(k) == outer {
					want = 99
				}
				if got := get(1, k); got != want {
					report("memory", fmt.Sprintf("data word %d = %d after the operation, the policy prescribes %d", k, got, want))
					break
				}
			}
			if !tc.store {
				want := uint32(0)
				if outerOK {
					want = outer // values[k] holds k
				}
				if got := get(0, 20); got != want {
					report("value", fmt.Sprintf("read %d, the policy prescribes %d (inner index -> %d)", got, want, inner))
				}
			}
			cov["nested-checked:"+lane]++
		}
		if first != nil {
			first.Cov = cov
			return id, *first
		}
		return id, run.Outcome{V: run.Held, Sig: id, Trivial: tc.lane < 4 && tc.tbl < 8, Cov: cov, Sample: map[string]any{"wgsl": src}}
	})
}
