// Package racecheck is compiled with `go test -race -c` by check C12: it drives concurrent compilations of the real
// naga under the Go race detector and compares every concurrent output with the output produced alone.
package racecheck

import (
	"bytes"
	"encoding/json"
	"fmt"
	"os"
	"strconv"
	"sync"
	"testing"

	"github.com/gogpu/naga"
	"github.com/gogpu/naga/dxil"
	"github.com/gogpu/naga/glsl"
	"github.com/gogpu/naga/hlsl"
	"github.com/gogpu/naga/ir"
	"github.com/gogpu/naga/msl"
	"github.com/gogpu/naga/spirv"
	"verif/internal/cases"
	"verif/internal/run"
	"verif/internal/wgen"
)

type backendFn struct {
	name string
	f    func(m *ir.Module) ([]byte, error)
}

func backends(withMutating bool) []backendFn {
	bs := []backendFn{
		{"spirv", func(m *ir.Module) ([]byte, error) { return naga.GenerateSPIRV(m, spirv.Options{Version: spirv.Version1_3}) }},
		{"hlsl", func(m *ir.Module) ([]byte, error) { s, _, err := hlsl.Compile(m, hlsl.DefaultOptions()); return []byte(s), err }},
		{"msl", func(m *ir.Module) ([]byte, error) { s, _, err := msl.Compile(m, msl.DefaultOptions()); return []byte(s), err }},
		{"glsl", func(m *ir.Module) ([]byte, error) {
			o := glsl.DefaultOptions()
			o.LangVersion = glsl.Version{Major: 4, Minor: 50}
			o.EntryPoint = m.EntryPoints[0].Name
			s, _, err := glsl.Compile(m, o)
			return []byte(s), err
		}},
		{"validate", func(m *ir.Module) ([]byte, error) { _, err := naga.Validate(m); return nil, err }},
	}
	if withMutating {
		bs = append(bs,
			backendFn{"dxil", func(m *ir.Module) ([]byte, error) { return dxil.Compile(m, dxil.DefaultOptions()) }},
			backendFn{"glsl+pipeline-constants", func(m *ir.Module) ([]byte, error) {
				o := glsl.DefaultOptions()
				o.LangVersion = glsl.Version{Major: 4, Minor: 50}
				o.EntryPoint = m.EntryPoints[0].Name
				o.PipelineConstants = ir.PipelineConstants{"0": 2}
				s, _, err := glsl.Compile(m, o)
				return []byte(s), err
			}},
			backendFn{"msl+pipeline-constants", func(m *ir.Module) ([]byte, error) {
				o := msl.DefaultOptions()
				o.PipelineConstants = map[string]float64{"0": 2}
				s, _, err := msl.Compile(m, o)
				return []byte(s), err
			}})
	}
	return bs
}

type summary struct {
	Programs         int            `json:"programs"`
	Rounds           int            `json:"rounds"`
	SeparateCompiles int            `json:"separate_compiles"`
	SharedCompiles   int            `json:"shared_compiles"`
	Mismatches       []string       `json:"mismatches"`
	Goroutines       map[string]int `json:"goroutine_counts_used"`
	StartOrders      int            `json:"distinct_completion_orders"`
}

func lower(src string) *ir.Module {
	ast, err := naga.Parse(src)
	if err != nil {
		return nil
	}
	m, err := naga.LowerWithSource(ast, src)
	if err != nil {
		return nil
	}
	return m
}

func TestRace(t *testing.T) {
	seed, _ := strconv.ParseUint(os.Getenv("VERIF_SEED"), 10, 64)
	if seed == 0 {
		seed = 1
	}
	nProg, rounds := 12, 2
	if os.Getenv("VERIF_TIER") == "thorough" {
		nProg, rounds = 120, 12
	}
	withMutating := os.Getenv("C12_MUTATING") == "1"
	var srcs []string
	for i := 0; len(srcs) < nProg && i < nProg*3; i++ {
		cfg := wgen.Config{Off: wgen.SafeOff()}
		if i%2 == 0 {
			cfg.Overrides = true
		}
		p := cases.Generate(run.CaseSeed(seed, "accept", i), cfg)
		s := wgen.Print(p.M).Src
		if lower(s) != nil {
			srcs = append(srcs, s)
		}
	}
	bs := backends(withMutating)
	sum := summary{Programs: len(srcs), Rounds: rounds, Goroutines: map[string]int{}}
	// solo reference outputs (fresh module per backend)
	solo := make([]map[string][]byte, len(srcs))
	for i, s := range srcs {
		solo[i] = map[string][]byte{}
		for _, b := range bs {
			out, err := b.f(lower(s))
			if err != nil {
				out = []byte("ERR " + err.Error())
			}
			solo[i][b.name] = out
		}
	}
	var mu sync.Mutex
	orders := map[string]bool{}
	mismatch := func(format string, a ...any) {
		mu.Lock()
		if len(sum.Mismatches) < 20 {
			sum.Mismatches = append(sum.Mismatches, fmt.Sprintf(format, a...))
		}
		mu.Unlock()
	}
	for r := 0; r < rounds; r++ {
		for _, n := range []int{2, 4, 16} {
			sum.Goroutines[fmt.Sprint(n)]++
			// (i) separate modules, every backend, n goroutines
			start := make(chan struct{})
			var wg sync.WaitGroup
			var order []int
			for g := 0; g < n; g++ {
				wg.Add(1)
				go func(g int) {
					defer wg.Done()
					<-start
					for k := g; k < len(srcs); k += n {
						for _, b := range bs {
							out, err := b.f(lower(srcs[k]))
							if err != nil {
								out = []byte("ERR " + err.Error())
							}
							if !bytes.Equal(out, solo[k][b.name]) {
								mismatch("separate modules: program %d backend %s: concurrent output differs from solo output", k, b.name)
							}
							mu.Lock()
							sum.SeparateCompiles++
							mu.Unlock()
						}
					}
					mu.Lock()
					order = append(order, g)
					mu.Unlock()
				}(g)
			}
			close(start)
			wg.Wait()
			orders[fmt.Sprint(order)] = true
			// (ii) one shared module, a different backend per goroutine
			for k := r % 3; k < len(srcs); k += 3 {
				m := lower(srcs[k])
				start := make(chan struct{})
				var wg sync.WaitGroup
				for g := 0; g < n; g++ {
					b := bs[(g+r)%len(bs)]
					wg.Add(1)
					go func(b backendFn) {
						defer wg.Done()
						<-start
						out, err := b.f(m)
						if err != nil {
							out = []byte("ERR " + err.Error())
						}
						if !bytes.Equal(out, solo[k][b.name]) {
							mismatch("shared module: program %d backend %s: concurrent output differs from solo output", k, b.name)
						}
						mu.Lock()
						sum.SharedCompiles++
						mu.Unlock()
					}(b)
				}
				close(start)
				wg.Wait()
			}
		}
	}
	sum.StartOrders = len(orders)
	if p := os.Getenv("C12_SUMMARY"); p != "" {
		b, _ := json.MarshalIndent(sum, "", " ")
		os.WriteFile(p, b, 0o644)
	}
}
