// finding=F12 property=C08,C06 status=known kind=accept
// builtin calls and negated parenthesised expressions in module-scope const initialisers are rejected ("unsupported call expression")
@group(0) @binding(0) var<storage,read_write> o: array<i32,4>;
const A: i32 = max(3, 4) + abs(-2);
const B: f32 = -(2.0 * 3.5);
@compute @workgroup_size(1) fn main() { o[0] = A; o[1] = i32(B); }
