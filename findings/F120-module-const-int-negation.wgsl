// finding=F120 property=C06 status=fixed kind=exec-spirv
// module-scope negation of a non-literal integer constant expression stored float bits: const C: i32 = -(5 + 3) was 0xC1000000 (bits of -8.0f)
// expect 0,0[0] = 4294967288
// expect 0,0[1] = 4294967290
@group(0) @binding(0) var<storage,read_write> o: array<i32,16>;
const C: i32 = -(5 + 3);
const E: i32 = -(2i * 3i);
@compute @workgroup_size(1) fn main() { o[0] = C; o[1] = E; }
