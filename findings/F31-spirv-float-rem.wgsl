// finding=F31 property=C01 status=known kind=exec-spirv
// f32 % is the truncated remainder (sign of the dividend): -5.5 % 2.0 = -1.5 (0xBFC00000); SPIR-V output uses OpFMod (+0.5)
// expect 0,0[0] = 3217031168
@group(0) @binding(0) var<storage,read_write> o: array<u32,16>;
@compute @workgroup_size(1) fn main() { let a = -f32(o[11]) * 0.5; o[0] = bitcast<u32>(a % 2.0); }
