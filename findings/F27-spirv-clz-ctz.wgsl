// finding=F27 property=C01 status=known kind=exec-spirv
// countTrailingZeros(0) = 32 and countLeadingZeros(1) = 31 in WGSL; SPIR-V output uses bare FindILsb / FindUMsb
// expect 0,0[2] = 32
// expect 0,0[0] = 31
@group(0) @binding(0) var<storage,read_write> o: array<u32,16>;
@compute @workgroup_size(1) fn main() { o[2] = countTrailingZeros(o[0]); o[0] = countLeadingZeros(o[1]); }
