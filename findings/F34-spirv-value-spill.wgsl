// finding=F34 property=C01 status=known kind=exec-spirv
// a let-bound array dynamically indexed inside an untaken branch is spilled there; the later constant-index use reads an undefined variable
// expect 0,0[3] = 8
@group(0) @binding(0) var<storage,read_write> o: array<u32,16>;
@compute @workgroup_size(1) fn main() {
    let l = array<u32, 3>(7u, 8u, 9u);
    if o[1] == 5u { o[2] = l[o[0]]; }
    o[3] = l[1];
}
