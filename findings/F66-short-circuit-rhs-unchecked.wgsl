// finding=F66 property=C11 status=known kind=must-reject
// the right operand of && whose left operand is a constant false is dropped without being checked: an undeclared member goes undiagnosed
struct S { a: vec2<f32> }
@group(0) @binding(0) var<storage,read_write> o: array<u32,4>;
@compute @workgroup_size(1) fn main() { var s = S(); if (1i > 2i) && (2.0 >= s.zz_nomember[1].y) { o[0] = 1u; } }
