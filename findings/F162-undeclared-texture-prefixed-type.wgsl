// finding=F162 property=C11 status=fixed kind=must-reject
// an undeclared type whose name starts with "texture" (texturezzz, texture_info without declaration) was accepted as a 2D sampled texture
@group(0) @binding(0) var<storage, read_write> o: array<u32, 4>;
fn f(t: texturezzz) -> u32 { return 1u; }
@compute @workgroup_size(1) fn main() { o[0] = 2u; }
