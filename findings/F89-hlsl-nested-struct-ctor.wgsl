// finding=F89 property=C03,C08 status=known kind=exec-hlsl
// loading a whole buffer struct that contains an array of structs calls ConstructS..() helpers that are never emitted
// expect 0,0[0] = 5
struct I { a: u32, b: u32 }
struct B { w: array<u32, 4>, arr: array<I, 2> }
@group(0) @binding(0) var<storage,read_write> b: B;
@compute @workgroup_size(1) fn main() { var v = b; b.w[0] = v.arr[0].b; }
