// finding=F143 property=C07 status=fixed kind=exec-spirv
// @align / @size given in hexadecimal, by a named constant or by an expression were silently ignored (members placed at their natural offsets)
// expect 0,0[4] = 2
// expect 0,0[9] = 4
// expect 0,0[12] = 5
const A: u32 = 16u;
struct S { x: u32, @align(0x10) y: u32, @size(0x10) z: u32, w: u32, @align(A) v: u32, }
@group(0) @binding(0) var<storage, read_write> o: S;
@compute @workgroup_size(1) fn main() { o.x = 1u; o.y = 2u; o.z = 3u; o.w = 4u; o.v = 5u; }
