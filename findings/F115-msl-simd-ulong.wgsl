// finding=F115 property=C16 status=fixed kind=exec-msl
// MSL: simd (namespace of the included <simd/simd.h>) and ulong are emitted unchanged as user identifiers
// expect 0,0[0] = 8
@group(0) @binding(0) var<storage,read_write> o: array<u32,64>;
struct ulong { simd: u32, }
fn f(p: u32) -> u32 { let s = ulong(p + 7u); return s.simd; }
@compute @workgroup_size(1) fn main() { o[0] = f(o[1]); }
