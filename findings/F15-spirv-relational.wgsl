// finding=F15 property=C08 status=fixed
// run-time all()/any() had no SPIR-V lowering
@group(0) @binding(0) var<storage,read_write> o: array<u32,4>;
@compute @workgroup_size(1) fn main(@builtin(workgroup_id) b: vec3<u32>) {
    if any(b >= b) && all(vec2<bool>(b.x > 1u, b.y < 3u)) { o[0] = 1u; }
}
