// finding=F91 property=C03,C08 status=known kind=exec-hlsl
// asinh / acosh / atanh are emitted as calls to HLSL functions that do not exist
// expect 0,0[0] = 0
@group(0) @binding(0) var<storage,read_write> o: array<f32,16>;
@compute @workgroup_size(1) fn main() { o[0] = asinh(o[0]); }
