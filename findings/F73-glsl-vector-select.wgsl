// finding=F73 property=C05,C08 status=known kind=exec-glsl
// select() with a vector condition is emitted as `bvec ? a : b`, which is not valid GLSL (?: needs a scalar bool; mix() is the valid form)
// expect 0,0[0] = 7
@group(0) @binding(0) var<storage,read_write> o: array<u32,16>;
@compute @workgroup_size(1) fn main() { let c = vec2<bool>(o[1] == 1u, o[2] == 5u); let v = select(vec2<u32>(3u, 4u), vec2<u32>(7u, 8u), c); o[0] = v.x; o[1] = v.y; }
