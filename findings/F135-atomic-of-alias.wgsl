// finding=F135 property=C08 status=fixed kind=accept
// atomic<A> with A an alias of u32 / i32 was rejected: "unknown scalar type for atomic: A"
alias A = u32;
var<workgroup> c: atomic<A>;
@group(0) @binding(0) var<storage,read_write> o: array<u32,4>;
@compute @workgroup_size(1) fn main() { atomicAdd(&c, 2u); o[0] = atomicLoad(&c); }
