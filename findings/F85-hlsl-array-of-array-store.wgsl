// finding=F85 property=C03,C08 status=known kind=exec-hlsl
// storing an array of arrays to a byte-address buffer declares `int2[1] _value4[3]` (invalid declarator) and calls Constructarray helpers that are never emitted
// expect 0,0[2] = 9
struct S { a: array<array<u32, 2>, 2>, pad: array<u32, 8> }
@group(0) @binding(0) var<storage,read_write> s: S;
@compute @workgroup_size(1) fn main() { var l = array<array<u32, 2>, 2>(array<u32, 2>(1u, 2u), array<u32, 2>(9u, 4u)); l[0][0] = s.a[0][1]; s.a = l; }
