// finding=F63 property=C19,C08 status=known kind=accept
// a trailing comma is allowed in template lists and in the argument list of bitcast<T>(e,); the parser rejects both
@group(0) @binding(0) var<storage,read_write> o: array<vec4<f32,>, 4,>;
@compute @workgroup_size(1,) fn main() { o[0] = vec4<f32,>(bitcast<f32,>(1u,), 2.0, 3.0, 4.0,); }
