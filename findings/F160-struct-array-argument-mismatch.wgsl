// finding=F160 property=C11 status=fixed kind=must-reject
// a struct argument of a different struct type was accepted for a user-function parameter (only the kind of composite was compared); likewise arrays of another length / element type
struct A { x: u32 }
struct B { y: f32, z: f32 }
fn g(b: B) -> f32 { return b.z; }
@group(0) @binding(0) var<storage, read_write> o: array<f32, 4>;
@compute @workgroup_size(1) fn main() { var a: A; o[0] = g(a); }
