// finding=F113 property=C16 status=known kind=exec-glsl
// GLSL: a user identifier starting with gl_ only gets a trailing underscore (gl_Position_), which still begins with the reserved prefix gl_
// expect 0,0[0] = 8
@group(0) @binding(0) var<storage,read_write> o: array<u32,64>;
fn f(gl_Position: u32) -> u32 { return gl_Position + 7u; }
@compute @workgroup_size(1) fn main() { o[0] = f(o[1]); }
