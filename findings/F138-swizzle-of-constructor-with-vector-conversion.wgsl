// finding=F138 property=C03 status=fixed kind=exec-hlsl
// a swizzle of a constructor whose vector argument is a conversion (vec3<u32>(vec2<u32>(vec2<bool>()), 7u).xxx) was folded to a Compose of three vec2 values: HLSL uint3(uint2(..), uint2(..), uint2(..))
// expect 0,0[0] = 0
// expect 0,0[4] = 7
struct O { a: vec3<u32>, pad: u32, c: vec3<u32>, }
@group(0) @binding(0) var<storage,read_write> o: O;
@compute @workgroup_size(1) fn main() {
  o.a = vec3<u32>(vec2<u32>(vec2<bool>()), 7u).xxx;
  o.c = vec3<u32>(vec2<u32>(vec2<bool>()), 7u).zzy;
}
