// finding=F77 property=C15 status=known kind=exec-glsl
// integer division / remainder by zero and with negative operands are emitted as bare GLSL / and %, which GLSL leaves undefined (WGSL: x/0 = x, x%0 = 0)
// expect 0,0[0] = 7
// expect 0,0[1] = 0
@group(0) @binding(0) var<storage,read_write> o: array<u32,16>;
@compute @workgroup_size(1) fn main() { let z = o[0]; o[0] = o[7] / z; o[1] = o[7] % z; }
