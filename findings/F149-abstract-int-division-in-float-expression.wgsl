// finding=F149 property=C06 status=known kind=exec-spirv
// an abstract-int division inside an abstract-float expression of a module-scope constant is evaluated in floating point: 255.0 * (32 / 36) is 0.0 (32 / 36 is the integer 0), naga stores 226.67
// expect 0,0[0] = 0
const K: f32 = 255.0 * (32 / 36);
@group(0) @binding(0) var<storage, read_write> o: array<u32, 64>;
@compute @workgroup_size(1) fn main() { o[0] = bitcast<u32>(K); }
