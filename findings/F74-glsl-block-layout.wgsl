// finding=F74 property=C05,C07 status=known kind=exec-glsl
// GLSL blocks carry no explicit offsets: @align(32) on a member (WGSL offset 32) is lost, the emitted std430 block puts b at offset 4
// expect 0,0[8] = 9
struct S { a: u32, @align(32) b: u32, pad: array<u32, 32> }
@group(0) @binding(0) var<storage,read_write> s: S;
@compute @workgroup_size(1) fn main() { s.b = 9u; }
