// finding=F139 property=C01 status=fixed kind=exec-spirv
// f().xzzy.xyxy evaluated the call twice (two StmtCall in the IR): the side effect of f happened twice in every backend
// expect 0,0[8] = 9
// expect 0,0[0] = 1
// expect 0,0[1] = 3
@group(0) @binding(0) var<storage,read_write> o: array<u32,64>;
fn f() -> vec4<u32> { o[8] = o[8] + 1u; return vec4<u32>(1u, 2u, 3u, 4u); }
@compute @workgroup_size(1) fn main() { let v = f().xzzy.xyxy; o[0] = v.x; o[1] = v.y; o[2] = v.z; o[3] = v.w; }
