// finding=F150 property=C08 status=fixed kind=exec-spirv
// a name declared in an inner block hid a later reference to a module-scope declaration that follows the function: the dependency order dropped the dependency and the valid program was rejected ("unresolved identifier")
// expect 0,0[0] = 6
// expect 0,0[1] = 1
@group(0) @binding(0) var<storage, read_write> out: array<i32, 64>;
fn f(x: i32) -> i32 { { let K = 1; out[1] = K; } return K + x; }
const K = 5;
@compute @workgroup_size(1) fn main() { out[0] = f(1); }
