// finding=F134 property=C08 status=fixed kind=accept
// bitcast<T>(x) with T a type alias, and bitcast<vec2f>(x), were rejected: "unsupported bitcast target type"
alias S = i32;
alias V = vec2<u32>;
@group(0) @binding(0) var<storage,read_write> o: array<f32,8>;
@compute @workgroup_size(1) fn main() {
  let q = bitcast<S>(o[0]);
  let v = bitcast<V>(vec2<f32>(o[1], o[2]));
  let w = bitcast<vec2f>(v);
  o[4] = f32(q) + w.x;
}
