// finding=F152 property=C18 status=fixed kind=dxil-determinism
// dxil.Compile panicked ("assignment to entry in nil map") on a helper function that is not inlined and has a local with an initialiser that is never stored to
@group(0) @binding(0) var<storage, read_write> o: array<f32, 16>;
fn h(x: f32) -> f32 { var t = vec2<f32>(1.0, 2.0); if x > 0.0 { return t.x + x; } return t.y; }
@compute @workgroup_size(1) fn main() { o[0] = h(o[1]); }
