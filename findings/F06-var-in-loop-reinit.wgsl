// finding=F06 property=C01,C03,C04,C05 status=known kind=exec-spirv
// each execution of `var t: u32;` creates a zeroed variable: outputs 1,2,3,4; naga zeroes once per call (1,3,6,10)
// expect 0,0[0] = 1
// expect 0,0[1] = 2
// expect 0,0[2] = 3
// expect 0,0[3] = 4
@group(0) @binding(0) var<storage,read_write> o: array<u32,16>;
@compute @workgroup_size(1) fn main() {
    var i = 0u;
    loop { if i >= 4u { break; } var t: u32; t = t + i + 1u; o[i] = t; i++; }
}
