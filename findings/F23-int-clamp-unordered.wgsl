// finding=F23 property=C01,C15 status=known kind=exec-spirv
// integer clamp(e, low, high) with low > high is min(max(e, low), high) in WGSL; SPIR-V output uses UClamp (undefined)
// expect 0,0[0] = 1
@group(0) @binding(0) var<storage,read_write> o: array<u32,16>;
@compute @workgroup_size(1) fn main() { o[0] = clamp(o[7], o[5], o[1]); }
