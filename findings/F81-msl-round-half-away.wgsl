// finding=F81 property=C04 status=known kind=exec-msl
// WGSL round() rounds ties to even (round(2.5) = 2); MSL output uses metal::round (half away from zero => 3); metal::rint would be correct
// expect 0,0[0] = 2
@group(0) @binding(0) var<storage,read_write> o: array<u32,16>;
@compute @workgroup_size(1) fn main() { o[0] = u32(round(f32(o[5]) * 0.5)); }
