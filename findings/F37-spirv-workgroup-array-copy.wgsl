// finding=F37 property=C02 status=known kind=spirv-valid
// whole-array copy of a workgroup array: OpStore whose object type is a different (undecorated vs decorated) array type than the pointee (invalid SPIR-V)
@group(0) @binding(0) var<storage,read_write> o: array<f32,4>;
var<workgroup> w: array<f32, 1>;
@compute @workgroup_size(1) fn main() { w = w; o[0] = w[0]; }
