// finding=F136 property=C11 status=fixed kind=must-reject
// a vec2<f32> variable passed for a vec2<u32> parameter was accepted (only size was compared) and ill-typed code emitted
@group(0) @binding(0) var<storage, read_write> o: array<u32, 4>;
fn c2(a: vec2<u32>) -> u32 { return a.x; }
@compute @workgroup_size(1) fn main(@builtin(local_invocation_index) i: u32) { var v = vec2<f32>(f32(i), 1.0); o[1] = c2(v); }
