// finding=F111 property=C05 status=fixed kind=exec-glsl
// GLSL: integer dot() is expanded only when the argument's recorded expression type is an integer vector; for a typed let of a splat constant inside a helper function the type is not recorded and `dot(l, l)` on uvec2 is emitted, which is not valid GLSL (dot is float-only)
struct S11 {
    m10: vec4<f32>,
}

@compute @workgroup_size(1)
fn main_29() {
    outp9.m4 = 1.0f;
}

struct Out8 {
    oi1: array<i32, 8>,
    ou2: array<u32, 8>,
    of3: array<f32, 8>,
    m4: f32,
    m5: mat4x2<f32>,
    m6: vec2<i32>,
    tail7: array<vec3<f32>>,
}

fn fn_19(a20: vec2<f32>, a21: i32, a22: ptr<function, i32>) {
    let l26: vec2<u32> = vec2<u32>(167u);
    outp9.tail7[dot(l26, l26) % arrayLength((&outp9.tail7))] = vec3<f32>();
}

@group(0) @binding(0) var<storage, read_write> outp9: Out8;

