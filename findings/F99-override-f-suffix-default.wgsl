// finding=F99 property=C14 status=fixed kind=override-exec
// `override a: f32 = 2.5f;` loses its default initialiser (ProcessOverrides reports "no value provided and no default initializer"); `= 2.5` works
// expect 0,0[0] = 1075838976
override a: f32 = 2.5f;
@group(0) @binding(0) var<storage,read_write> o: array<f32,16>;
@compute @workgroup_size(1) fn main() { o[0] = a; }
