// finding=F137 property=C11 status=known kind=must-reject
// a concretely typed literal or constructor passed directly as argument for a parameter of another scalar kind (callee(i, 1.5f), callee(i, 1i), c2(vec2<f32>(f, f)) for u32 / vec2<u32> parameters) is accepted: concretizeExpressionToType relabels it as if it were abstract
@group(0) @binding(0) var<storage, read_write> o: array<u32, 4>;
fn callee(a: u32, b: u32) -> u32 { return a + b; }
@compute @workgroup_size(1) fn main(@builtin(local_invocation_index) i: u32) { o[0] = callee(i, 1.5f); }
