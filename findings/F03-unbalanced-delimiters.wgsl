// finding=F03 property=C11 status=fixed kind=must-reject
// missing ')' and ']' were silently accepted
@group(0) @binding(0) var<storage,read_write> o: array<u32,4>;
@compute @workgroup_size(1) fn main() { let x = min(1u, 2u; o[0 = x; }
