// finding=F24 property=C01,C15 status=known kind=exec-spirv
// extractBits offset/count beyond the width must be clamped (WGSL); SPIR-V output passes them to OpBitFieldUExtract (undefined)
// expect 0,0[0] = 0
@group(0) @binding(0) var<storage,read_write> o: array<u32,64>;
@compute @workgroup_size(1) fn main() { o[0] = extractBits(o[3], o[40], o[2]); }
