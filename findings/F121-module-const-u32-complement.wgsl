// finding=F121 property=C06 status=fixed kind=exec-spirv
// ~x of a u32 inside a module-scope constant expression was a 64-bit complement: (~3u) / 2147483647u was 0 instead of 1
// expect 0,0[0] = 1
// expect 0,0[1] = 15
@group(0) @binding(0) var<storage,read_write> o: array<u32,16>;
const A: u32 = (~3u) / 2147483647u;
const B: u32 = ~0u >> 28u;
@compute @workgroup_size(1) fn main() { o[0] = A; o[1] = B; }
