// finding=F80 property=C04,C15 status=known kind=exec-msl
// MSL: integer dot() is emitted as a.x * b.x + ... on int; signed overflow is undefined in C++14/MSL while WGSL wraps: dot((65536,1),(65536,1)) = 1
// expect 0,0[0] = 1
@group(0) @binding(0) var<storage,read_write> o: array<i32,16>;
@compute @workgroup_size(1) fn main() { let a = vec2<i32>(o[1] * 65536i, 1i); o[0] = dot(a, a); }
