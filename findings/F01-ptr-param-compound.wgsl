// finding=F01 property=C08,C09 status=known kind=accept
// compound assignment through a pointer parameter lowers without a Load: SPIR-V backend fails "binary operator on non-numeric type: ir.PointerType"
@group(0) @binding(0) var<storage,read_write> o: array<i32,4>;
fn bump(p: ptr<function, i32>, k: i32) { *p += k; }
@compute @workgroup_size(1) fn main() { var x = 1i; bump(&x, 2i); o[0] = x; }
