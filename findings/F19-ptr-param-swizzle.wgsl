// finding=F19 property=C08 status=known kind=accept
// multi-component swizzle of a dereferenced pointer parameter: "swizzle requires vector type, got ir.PointerType"
@group(0) @binding(0) var<storage,read_write> o: array<f32,4>;
fn h(p: ptr<function, vec4<f32>>) -> vec4<f32> { return (*p).zyww; }
@compute @workgroup_size(1) fn main() { var v = vec4<f32>(1.0, 2.0, 3.0, 4.0); o[0] = h(&v).x; }
