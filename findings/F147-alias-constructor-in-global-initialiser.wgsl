// finding=F147 property=C10,C08 status=fixed kind=accept
// a module-scope variable initialised through a type alias constructor (var<private> p: T = T(...), alias T = mat4x2<f32>, more types declared around it) made the lowerer panic: index out of range in buildGlobalExprFromAST (stale type handle after CompactTypes)
@group(1) @binding(1) var<storage> inp11: S10;
fn fn_14() { let l17 = select(1u, 15u, (outp8.oi1[0i] < 8i)); }
alias T34 = mat4x2<f32>;
@group(1) @binding(0) var<storage, read_write> outp8: Out7;
@compute @workgroup_size(1, 1) fn main_28() { }
struct S10 { @align(16) m9: vec3<u32>, }
struct Out7 { oi1: array<i32, 8>, ou2: array<u32, 8>, of3: array<f32, 8>, m4: u32, m5: vec2<f32>, at6: atomic<i32>, }
var<private> pv12: T34 = T34(1024.0f, 3.5f, 0.25f, 0.0625f, (-1.0f), (-2.5f), (-15.5f), (-3.5f));
