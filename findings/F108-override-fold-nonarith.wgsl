// finding=F108 property=C14 status=fixed kind=override-exec
// ProcessOverrides folded every binary expression on literal/constant operands in function bodies with an evaluator that implements only + - * /: a ^ 1, a << 2u became 0 and a != 4 an i32 literal where a bool is required
// expect 0,0[0] = 2
// expect 0,0[1] = 12
// expect 0,0[2] = 1
// expect 0,0[3] = 1
override a: i32 = 3;
@group(0) @binding(0) var<storage,read_write> o: array<i32,16>;
@compute @workgroup_size(1) fn main() { o[0] = a ^ 1; o[1] = a << 2u; o[2] = i32(a != 4); o[3] = a % 2; }
