// finding=F140 property=C16 status=fixed kind=exec-spirv
// a struct or function named like a predeclared function (struct fwidthCoarse, fn textureDimensions, fn pack4xU8) was resolved to the built-in at its call sites
// expect 0,0[0] = 7
// expect 0,0[1] = 2
// expect 0,0[2] = 3
struct fwidthCoarse { a: i32, }
struct dpdxFine { a: i32, }
fn textureDimensions(a: u32) -> u32 { return a + 1u; }
fn pack4xU8(a: u32) -> u32 { return a + 2u; }
@group(0) @binding(0) var<storage,read_write> o: array<u32,64>;
@compute @workgroup_size(1) fn main() { let s = fwidthCoarse(3); let t = dpdxFine(4); o[0] = u32(s.a + t.a); o[1] = textureDimensions(1u); o[2] = pack4xU8(1u); }
