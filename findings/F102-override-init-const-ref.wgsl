// finding=F102 property=C14 status=known kind=override-exec
// an override initialiser that mentions a module constant (or a conversion / built-in call) is dropped: ProcessOverrides reports "no value provided and no default initializer"
// expect 0,0[0] = 4
const C: i32 = 3;
override a: i32 = C + 1;
@group(0) @binding(0) var<storage,read_write> o: array<i32,16>;
@compute @workgroup_size(1) fn main() { o[0] = a; }
