// finding=F114 property=C16 status=fixed kind=exec-hlsl
// HLSL: the keywords sampler1D / sampler2D / sampler3D / samplerCUBE / sampler_state are emitted unchanged as user identifiers
// expect 0,0[0] = 8
@group(0) @binding(0) var<storage,read_write> o: array<u32,64>;
fn f(sampler2D: u32) -> u32 { var samplerCUBE = sampler2D + 7u; return samplerCUBE; }
@compute @workgroup_size(1) fn main() { o[0] = f(o[1]); }
