// finding=F153 property=C06 status=fixed kind=exec-spirv
// module-scope constant arithmetic on a u32 and an abstract integer was evaluated as signed: (~(2863311530u + 21)) >> 29u gave 0xFFFFFFFA instead of 2
// expect 0,0[0] = 2
// expect 0,0[1] = 4294967292
const K: u32 = (~(2863311530u + 21)) >> 29u;
const L: i32 = (-8) >> 1u;
@group(0) @binding(0) var<storage, read_write> o: array<u32, 64>;
@compute @workgroup_size(1) fn main() { o[0] = K; o[1] = bitcast<u32>(L); }
