// finding=F26 property=C01,C07 status=known kind=exec-spirv
// AlignOf(I) must be 32 because of its member attribute, so O.i sits at byte 32 (word 8); naga places it at byte 16
// expect 0,0[8] = 9
struct I { @align(32) a: u32, b: u32 }
struct O { x: u32, i: I, pad: array<u32, 32> }
@group(0) @binding(0) var<storage,read_write> o: O;
@compute @workgroup_size(1) fn main() { o.i.a = 9u; }
