// finding=F84 property=C03,C08 status=known kind=exec-hlsl
// a private array variable is declared as `static float[3] pv = ...` (dimension before the name), which is not valid HLSL
// expect 0,0[0] = 7
@group(0) @binding(0) var<storage,read_write> o: array<u32,16>;
var<private> pa: array<u32, 3>;
@compute @workgroup_size(1) fn main() { pa[1] = 7u; o[0] = pa[1]; }
