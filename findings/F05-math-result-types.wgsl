// finding=F05 property=C08 status=fixed
// transpose of a non-square matrix / determinant were typed as their argument
@group(0) @binding(0) var<storage,read_write> o: array<f32,8>;
fn takes(m: mat4x2<f32>) -> f32 { return m[3].y; }
@compute @workgroup_size(1) fn main() {
    let m = mat2x4<f32>(1.0, 2.0, 3.0, 4.0, 5.0, 6.0, 7.0, 8.0);
    o[0] = takes(transpose(m));
    let t = transpose(mat3x2<f32>(0.25, 10.0, 255.0, 2.0, -0.5, -3.5));
    o[1] = t[1].z;
    o[2] = -(determinant(mat2x2<f32>(1.0, 2.0, 3.0, 4.0)) + 1.0);
}
