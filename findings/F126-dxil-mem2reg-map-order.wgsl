// finding=F126 property=C18 status=fixed kind=dxil-determinism
// dxil.Compile gave two different containers for this module in repeated compilations: mem2reg visited promotion candidates in map order while appending expressions
var<private> pv17: vec3<u32>;

struct S11 {
    m9: vec3<u32>,
    m10: i32,
}

struct S15 {
    m14: vec3<i32>,
}

@group(1) @binding(3) var<uniform> ub16: S15;

@compute @workgroup_size(1, 1)
fn main_24(@builtin(workgroup_id) b25: vec3<u32>, @builtin(num_workgroups) b26: vec3<u32>) {
    pv17 = vec3<u32>(0x0u, 0x80000001u, 65536u);
    pv18 = 65536.0f;
    pv18 = (pv18 * (4.0 * (-3.5))) * (trunc(pv18) - (256.0f + outp8.tail6[min(pv17[2u], b25.r) % arrayLength((&outp8.tail6))].b));
    outp8.of3 = array<f32, 8>();
    var v27 = ub16.m14.z >> 23u;
    var ix28 = 0i;
    while ix28 < 2i {
        ix28++;
        if rt13[(346u & 65536u) % arrayLength((&rt13))][min(dot(b25, b26), 2u)] < reverseBits(670i) {
            pv18 *= fn_19((!true), (b26[0] - b26.y));
            if (95081057u | b25.x) < 34 {
                let l29 = mat3x4<f32>(vec4<f32>(3.0f, pv18, outp8.of3[3u], (-1e+06f)), vec4<f32>(8.25f), vec4((-1.5f), 7.0f, 0.25f, 2.0f));
            }
        }
        outp8.m4 = (min((-22.0f), pv18) + (outp8.of3[3u] + 10.0f)) + f32(firstLeadingBit(4294967295u));
        var v30 = sign(rt13[(inp12.m9[2] * 64u) % arrayLength((&rt13))].xxz);
    }
    var v31: i32 = -2147483647;
    if (-32768i) <= (rt13[0u][0i] << 19u) {
        v31 = (40 - (-6)) / (-255);
        var ix32: u32 = 0u;
        loop {
            for(var ix33: i32 = 0i; ix33 < 4i; ix33++) {
            }
            continuing {
                outp8.tail6[dot(b25, inp12.m9) % arrayLength((&outp8.tail6))] = vec3<f32>(fn_19(false, 135066u), (-outp8.tail6[0u][2]), select(pv18, outp8.m4, true)).zxy;
                _ = fn_19(false, 20);
                ix32 += 1u;
                break if ix32 >= 4u;
            }
        }
        if (~0x259DE4u) <= min(4294967294u, 1591077u) {
            if outp8.ou2[3i] < firstTrailingBit(135621817u) {
            }
        } else {
            outp8.ou2 = array<u32, 8>();
            if false {
                v27 = ((rt13[32u % arrayLength((&rt13))].z & rt13[select(inp12.m9[1u], pv17.y, false) % arrayLength((&rt13))].b) % (-26980426i)) % 65536i;
            }
        }
    }
    outp8.oi1[0u] = v27;
    outp8.oi1[1u] = v31;
    outp8.ou2[0u] ^= pv17.x;
    outp8.ou2[1u] += pv17.y;
    outp8.ou2[2u] = pv17.z;
    outp8.of3[0u] = pv18;
}

@group(1) @binding(1) var<storage> inp12: S11;

@group(1) @binding(2) var<storage, read_write> rt13: array<vec3<i32>>;

@compute @workgroup_size(1, 1)
fn main_34() {
    pv17 = vec3<u32>(0x3u, 3u, 2334656178u);
    pv18 = 100.0f;
    outp8.ou2[3i] = outp8.ou2[min(dot(inp12.m9, pv17), 7u)];
    let l35 = any((vec2<i32>(305419896i, 15i) >= vec2<i32>(255i, 100i)));
    outp8.oi1 = array<i32, 8>(ub16.m14.z, (-28840i), (~inp12.m10), i32(l35), ((-outp8.oi1[5]) * dot(ub16.m14, ub16.m14)), (-(31746325i ^ (-20))), (rt13[min(inp12.m9.z, 65536u) % arrayLength((&rt13))][clamp(i32(false), 0i, 2i)] ^ (inp12.m10 * ub16.m14.g)), (sign(15i) >> 25u));
    var ix36 = 0i;
    loop {
        if !(ix36 < 1i) {
            break;
        }
        pv18 = outp8.of3[clamp(inp12.m10, 0i, 7i)];
        var v37: vec2<u32> = vec2<u32>((64u + pv17.y), insertBits(pv17[2], pv17.r, (inp12.m9[1i] & 15u), (pv17.y & 15u)));
        let l38: u32 = u32(clamp(fn_19(l35, inp12.m9[0]), 0.0f, 1e+06f));
        var v39 = ub16;
        continuing {
            outp8.ou2[2i] = (-23) - ((-32768) - 1431655765);
            ix36 += 1i;
        }
    }
    if select((305419896u < 32u), all(vec2<bool>(true, false)), (pv18 != pv18)) {
        var ix40: i32 = 0i;
        while ix40 < 1i {
            ix40++;
            outp8.oi1[7i] = select((-inp12.m10), ix40, l35) * rt13[(305419896u % 5540105u) % arrayLength((&rt13))][min(u32(65536i), 2u)];
            if 0.5f == ((-10.0) * 100.0) {
                rt13[(inp12.m9.z << 30u) % arrayLength((&rt13))] <<= vec3<u32>(6u, 30u, 15u);
            } else {
                outp8.oi1[7] = select(((-1360050i) >> ((15u | inp12.m9.y) & 31u)), reverseBits(clamp(outp8.oi1[6i], min(outp8.oi1[5i], (-958654987i)), max(outp8.oi1[5i], (-958654987i)))), ((0xFFFFu > inp12.m9[1]) == (7.0f <= outp8.tail6[0u].y)));
            }
        }
        _ = mat3x3<f32>(vec3<f32>(vec3<bool>(false, true, false)), vec3<f32>(pv18, vec2<f32>(0.375f, 0.75f)), vec3<f32>(16.0f, (-29.0f), 1.5f));
        switch min(max(pv17[2], 0xFFFFFFFFu), firstTrailingBit(7u)) {
            case 2u: {
            }
            case 1: {
                _ = insertBits(vec2<i32>(outp8.oi1[7], 0i), vec4<i32>((-7i)).yz, 30u, 1u);
            }
            case 4, 1000: {
                outp8.m4 += ceil((-0.5f)) + (outp8.tail6[(pv17[2u] >> 11u) % arrayLength((&outp8.tail6))][1u] - pv18);
            }
            default: {
                outp8.tail6[outp8.ou2[clamp(305419896i, 0i, 7i)] % arrayLength((&outp8.tail6))][1] = -0.5;
            }
        }
    } else {
        let l41 = true != (4294967295u == 2628u);
        outp8.m4 *= clamp(16.0f, min(f32(rt13[4575u % arrayLength((&rt13))][2u]), f32(false)), max(f32(rt13[4575u % arrayLength((&rt13))][2u]), f32(false)));
        _ = array<vec3<u32>, 5>();
        let l42 = outp8.ou2[0u] != dot(inp12.m9, inp12.m9);
    }
    switch min(inp12.m9.y, pv17.x) + (0xFFFFFFFEu + pv17[0i]) {
        case 6u: {
            outp8.oi1[1] |= select((-1i), 32i, false) - inp12.m10;
            switch (65536i / rt13[bitcast<u32>(31i) % arrayLength((&rt13))][2]) & (rt13[u32(inp12.m10) % arrayLength((&rt13))].b & 2147483646i) {
                case (-2i), 3i: {
                    const k43: i32 = -2;
                }
                case default, 0i, 2i: {
                    if (rt13[0u][2u] / ub16.m14[2u]) <= (1 % 2) {
                        return;
                    }
                    if false {
                        break;
                    }
                    let l44 = saturate((-10.0f)) - vec3<f32>((-1e+06f), (-2.0f), outp8.m4);
                }
            }
        }
        case 2u, 1u: {
            switch outp8.oi1[1u] {
                case (-1i): {
                    rt13[0u][2]--;
                }
                default: {
                    var v45 = outp8.of3[2i] - outp8.of3[clamp(inp12.m10, 0i, 7i)];
                }
            }
            outp8.oi1 = array<i32, 8>();
        }
        default: {
            switch 15u {
                default: {
                    if l35 {
                    } else {
                    }
                    outp8.tail6[(outp8.ou2[3] ^ pv17[1]) % arrayLength((&outp8.tail6))] *= vec3<f32>(f32(16i), (-vec2<f32>(100.0f, 1.0f)));
                }
            }
            switch min((pv17.x >> (33u & 31u)), (15324u / pv17[1u])) {
                case 3u, 1u: {
                    if ub16.m14.x <= 65535i {
                        break;
                    }
                    var v46: S11 = inp12;
                }
                case 4, 6: {
                    if l35 {
                        break;
                    }
                    outp8.m4 = -2.5f;
                }
                case 3735928559u, default, 2u: {
                    if 31i == inp12.m10 {
                        break;
                    }
                    outp8.tail6[(~30u) % arrayLength((&outp8.tail6))] += vec3<f32>((outp8.m4 - (-0.25f)), trunc(pv18), (pv18 * (-10.0f)));
                }
                case 5u: {
                    if true != true {
                        break;
                    }
                    outp8.ou2[4] = atomicExchange((&outp8.at5), 100u);
                }
            }
        }
    }
    pv18 += saturate(10.0f);
    outp8.ou2[0u] += select(0u, 1u, l35);
    outp8.ou2[1u] ^= pv17.x;
    outp8.ou2[2u] ^= pv17.y;
    outp8.ou2[3u] ^= pv17.z;
    outp8.of3[0u] = pv18;
}

struct Out7 {
    oi1: array<i32, 8>,
    ou2: array<u32, 8>,
    of3: array<f32, 8>,
    m4: f32,
    at5: atomic<u32>,
    tail6: array<vec3<f32>>,
}

fn fn_19(a20: bool, a21: u32) -> f32 {
    var ix22 = 0i;
    loop {
        let l23 = transpose(mat4x4<f32>(vec4<f32>(0.5f, (-2.0f), 65536.0f, 7.0f), vec4<f32>(2.0f, (-0.8125f), 100.0f, (-1e+06f)), vec4<f32>(0.5f, (-0.25f), 0.0f, 1e+06f), vec4<f32>(45.0f, 3.5f, (-1.6875f), (-1.0f))));
        continuing {
            outp8.of3[4u] *= ((-0.5f) * 20) * (1024.0f - (-54.0f));
            ix22++;
            break if ix22 >= 3i;
        }
    }
    return 2;
}

@group(0) @binding(0) var<storage, read_write> outp8: Out7;

var<private> pv18: f32;

