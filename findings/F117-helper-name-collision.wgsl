// finding=F117 property=C16 status=fixed kind=exec-msl
// MSL / HLSL: a user variable named naga_neg collides with the generated helper function of that name (naga_div, naga_mod are protected; naga_neg / naga_abs are not)
// expect 0,0[0] = 4294967295
@group(0) @binding(0) var<storage,read_write> o: array<u32,64>;
fn f(p: u32) -> u32 { let naga_neg = i32(p); return u32(-naga_neg); }
@compute @workgroup_size(1) fn main() { o[0] = f(o[1]); }
