// finding=F13 property=C08 status=known kind=accept
// component/member access on an element of a module-scope const array is rejected ("unsupported member access")
@group(0) @binding(0) var<storage,read_write> o: array<f32,4>;
const T: array<vec3<f32>, 2> = array<vec3<f32>, 2>(vec3<f32>(2.0, -10.0, 0.0625), vec3<f32>(19.5, -0.5, -3.125));
@compute @workgroup_size(1) fn main() { o[0] = T[0i].z; o[1] = T[1][1]; }
