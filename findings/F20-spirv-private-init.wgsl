// finding=F20 property=C01,C15 status=known kind=exec-spirv
// SPIR-V: the initialiser of a private global is dropped (OpVariable without initializer)
// expect 0,0[0] = 3
@group(0) @binding(0) var<storage,read_write> o: array<u32,16>;
var<private> a: u32 = 3u;
@compute @workgroup_size(1) fn main() { o[0] = a; }
