// finding=F88 property=C03,C08 status=known kind=exec-hlsl
// a matCx2 member of a struct that is also used in a uniform buffer is read through GetMat<member>On<struct>() accessors that are never emitted when the struct value is a local
// expect 0,0[0] = 1073741824
struct S { m: mat2x2<f32>, k: u32 }
@group(0) @binding(0) var<storage,read_write> o: array<f32,16>;
@group(0) @binding(1) var<uniform> u: S;
@compute @workgroup_size(1) fn main() { let l = S(mat2x2<f32>(1.0, 2.0, 3.0, 4.0), u.k); o[0] = l.m[0].y; }
