// finding=F100 property=C08 status=fixed kind=exec-spirv
// a @must_use call used as an argument of a call statement was rejected: "result of @must_use function 'g' must be used"
// expect 0,0[0] = 7
@group(0) @binding(0) var<storage,read_write> o: array<u32,16>;
@must_use fn g() -> u32 { return 7u; }
fn f(a: u32) { o[0] = a; }
@compute @workgroup_size(1) fn main() { f(g()); }
