// finding=F143 property=C17 status=fixed kind=exec-spirv
// attribute arguments with a suffix or in hexadecimal were read as 0 (@group(1u) @binding(2u) -> group 0 binding 0) and @workgroup_size(2u, 1i) became (1, 1)
// expect 1,2[0] = 7
// expect 1,2[1] = 7
// expect 1,2[2] = 2
@group(1u) @binding(0x2) var<storage, read_write> o: array<u32, 64>;
@compute @workgroup_size(2u, 1i) fn main(@builtin(local_invocation_index) li: u32) { o[li] = 7u; }
