// finding=F158 property=C07 status=fixed kind=exec-spirv
// @align(N) / @size(M) naming a module constant declared after the struct (or an untyped constant) were silently ignored: members were placed at their natural offsets
// expect 0,0[4] = 2
// expect 0,0[5] = 3
// expect 0,0[7] = 4
// expect 0,0[8] = 5
struct S { x: u32, @align(N) y: u32, @size(M) z: u32, w: u32, @align(A) v: u32, }
const N = 16;
const M = 8;
const A: u32 = 32u;
@group(0) @binding(0) var<storage, read_write> o: S;
@compute @workgroup_size(1) fn main() { o.x = 1u; o.y = 2u; o.z = 3u; o.w = 4u; o.v = 5u; }
