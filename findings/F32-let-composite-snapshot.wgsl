// finding=F32 property=C01 status=known kind=exec-spirv
// `let l = s;` must snapshot the whole struct; naga re-reads the buffer at the later use
// expect 0,0[0] = 100
// expect 0,0[4] = 0
struct S { a: array<u32, 8> }
@group(0) @binding(0) var<storage,read_write> s: S;
@compute @workgroup_size(1) fn main() { let l: S = s; s.a[0u] = 100u; s.a[4u] = l.a[0u]; }
