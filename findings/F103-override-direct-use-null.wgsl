// finding=F103 property=C14 status=fixed kind=override-exec
// a resolved override used directly as a value (o[1] = a; let b = a;) was OpConstantNull in SPIR-V: ProcessOverrides created constants without inline value
// expect 0,0[0] = 8
// expect 0,0[1] = 7
// expect 0,0[2] = 7
override a: i32 = 7;
@group(0) @binding(0) var<storage,read_write> o: array<i32,16>;
@compute @workgroup_size(1) fn main() { o[0] = a + 1; o[1] = a; let b = a; o[2] = b; }
