// finding=F141 property=C11 status=fixed kind=must-reject
// arrayLength(&o) with o a fixed-size array (array<u32, 8>) is accepted; WGSL requires a pointer to a runtime-sized array, and the SPIR-V backend then emits OpArrayLength on a struct member that is not a runtime array
@group(0) @binding(0) var<storage, read_write> o: array<u32, 8>;
@compute @workgroup_size(1) fn main() { o[1] = arrayLength(&o); }
