// finding=F132 property=C08 status=fixed kind=accept
// a module-scope constant initialised by constructing a value through a type alias is rejected: "module constant 'C': unsupported call expression 'T'"
alias T = vec3<f32>;
const C = T(1.0, 2.0, 3.0);
@group(0) @binding(0) var<storage,read_write> o: array<f32,4>;
@compute @workgroup_size(1) fn main() { o[0] = C.y; }
