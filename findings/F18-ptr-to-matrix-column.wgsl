// finding=F18 property=C08 status=known kind=accept
// &m[i] (pointer to a matrix column) as a call argument is rejected ("expected ptr<...>, got unknown")
@group(0) @binding(0) var<storage,read_write> o: array<f32,4>;
fn g(p: ptr<function, vec4<f32>>) -> f32 { return (*p).y; }
@compute @workgroup_size(1) fn main() { var m = mat4x4<f32>(); m[3] = vec4<f32>(1.0, 2.0, 3.0, 4.0); o[0] = g(&m[3i]); }
