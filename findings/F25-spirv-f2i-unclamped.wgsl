// finding=F25 property=C01,C15 status=known kind=exec-spirv
// u32(negative f32) is 0 in WGSL; SPIR-V output is a bare OpConvertFToU (undefined for out-of-range values)
// expect 0,0[0] = 0
@group(0) @binding(0) var<storage,read_write> o: array<u32,16>;
@compute @workgroup_size(1) fn main() { o[0] = u32(-f32(o[3])); }
