// finding=F64 property=C11 status=fixed kind=must-reject
// a negative array size (literal or constant expression) was accepted and wrapped around to 2^32 - n elements; the HLSL writer then exhausted memory writing a constructor with that many parameters (C10)
@group(0) @binding(0) var<storage, read_write> o: array<u32, 8>;
const N = 4;
@compute @workgroup_size(1) fn main() { var b: array<u32, N - 9>; o[0] = b[0]; }
