// finding=F46 property=C09 status=known kind=ir-strict
// atomicStore(&a, expr): the Store statement is placed before the Emit of its value expression (use before emit)
var<workgroup> w: atomic<u32>;
@group(0) @binding(0) var<storage,read_write> o: array<u32,4>;
@compute @workgroup_size(1) fn main() { atomicStore(&w, o[1] + 1u); o[0] = atomicLoad(&w); }
