// finding=F119 property=C05 status=fixed kind=exec-glsl
// the GLSL writer folded ~x on a named constant with a 64-bit complement: (~C) / 255u was written as 0u (also reached through ProcessOverrides + GLSL under C14)
// expect 0,0[0] = 16843008
@group(0) @binding(0) var<storage,read_write> o: array<u32,16>;
const C: u32 = 23u;
@compute @workgroup_size(1) fn main() { let l = C; o[0] = (~l) / 255u; o[1] = (~C) / 255u; }
