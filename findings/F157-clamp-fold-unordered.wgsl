// finding=F157 property=C06 status=fixed kind=exec-spirv
// constant folding of clamp(e, low, high) with low > high gave low (7) instead of min(max(e, low), high) = high (3)
// expect 0,0[0] = 3
// expect 0,0[1] = 3
// expect 0,0[2] = 3
// expect 0,0[3] = 3
// expect 0,0[4] = 1
// expect 0,0[5] = 1
@group(0) @binding(0) var<storage, read_write> o: array<u32, 64>;
@compute @workgroup_size(1) fn main() {
    let c = clamp(5, 7, 3);
    o[0] = u32(c);
    let d = clamp(5i, 7i, 3i);
    o[1] = u32(d);
    const e = clamp(5u, 7u, 3u);
    o[2] = e;
    let f = clamp(vec2(5, 1), vec2(7, 0), vec2(3, 2));
    o[3] = u32(f.x);
    o[4] = u32(f.y);
    o[5] = u32(clamp(-4, -3, 1) == -3);
}
