// finding=F110 property=C15 status=known kind=exec-msl
// MSL Buffer/Index policy Restrict: inside a helper function a dynamic index into a runtime-sized array that is itself the storage variable (var<storage> rt: array<u32>) is emitted unclamped (rt[_e6]); with the 64-word pattern buffers rt[o[2] * 1000u] must clamp to the last element (63)
// option-set policy=2
// expect 0,0[0] = 63
@group(0) @binding(0) var<storage,read_write> o: array<u32,64>;
@group(0) @binding(1) var<storage> rt: array<u32>;
fn f() -> u32 { return rt[o[2] * 1000u]; }
@compute @workgroup_size(1) fn main() { o[0] = f(); }
