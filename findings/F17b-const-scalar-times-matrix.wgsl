// finding=F17 property=C08 status=known kind=accept
// scalar * matrix with constant operands (also through a let of a constant) is folded to a wrongly typed value: m[1].y is rejected with "unsupported member access"; when the value is only discarded the SPIR-V backend emits an OpCompositeConstruct with 9 constituents for a vec3
@group(0) @binding(0) var<storage,read_write> o: array<f32,64>;
@compute @workgroup_size(1) fn main() { let l = vec3<f32>(2.0); let m = 2.0f * mat3x3<f32>(vec3<f32>(1.0), l, vec3<f32>(3.0)); o[0] = m[1].y; }
