// finding=F146 property=C11 status=fixed kind=must-reject
// an abstract function-scope constant stayed visible after its block: { const k = 3; } o[0] = k; was accepted although k is undeclared there
@group(0) @binding(0) var<storage, read_write> o: array<i32, 8>;
@compute @workgroup_size(1) fn main() { { const k = 3; o[1] = k; } o[0] = k; }
