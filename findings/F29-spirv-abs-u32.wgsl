// finding=F29 property=C01 status=known kind=exec-spirv
// abs on u32 is the identity; SPIR-V output uses SAbs
// expect 0,0[0] = 4294967281
@group(0) @binding(0) var<storage,read_write> o: array<u32,16>;
@compute @workgroup_size(1) fn main() { o[0] = abs(o[1] + 0xFFFFFFF0u); }
