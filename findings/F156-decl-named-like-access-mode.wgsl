// finding=F156 property=C08 status=fixed
// module-scope declarations named read / write / function / storage / handle, used before they are declared, were "unresolved identifier" (the dependency order ignored predeclared enumerant names)
@group(0) @binding(0) var<storage, read_write> o: array<u32, 4>;
fn f() -> u32 { return read + write + function + storage + handle + uniform + workgroup; }
const read = 1u; const write = 2u; const function = 3u; const storage = 4u; const handle = 5u;
var<private> uniform: u32 = 6u; var<private> workgroup: u32;
@compute @workgroup_size(1) fn main() { o[0] = f(); }
