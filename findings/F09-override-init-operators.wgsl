// finding=F09 property=C14 status=known kind=override-exec
// override initialisers are evaluated by EvalBinaryFloat, which implements only + - * /: % & | ^ << >> comparisons && || give 0 / false
// expect 0,0[0] = 2
// expect 0,0[1] = 1
// expect 0,0[2] = 48
override a: u32 = 12u;
override b: u32 = a % 5u;
override c: bool = a > 5u;
override d: u32 = a << 2u;
@group(0) @binding(0) var<storage,read_write> o: array<u32,16>;
@compute @workgroup_size(1) fn main() { o[0] = b; o[1] = u32(c); o[2] = d; }
