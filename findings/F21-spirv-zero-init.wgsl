// finding=F21 property=C01,C15 status=known kind=exec-spirv
// SPIR-V: private and function variables without initialiser are left undefined instead of zero
// expect 0,0[1] = 5
// expect 0,0[2] = 7
@group(0) @binding(0) var<storage,read_write> o: array<u32,16>;
var<private> b: u32;
@compute @workgroup_size(1) fn main() { var t: u32; o[1] = b + 5u; o[2] = t + 7u; }
