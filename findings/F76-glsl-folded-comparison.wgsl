// finding=F76 property=C05 status=fixed kind=exec-glsl
// GLSL folds binary operators other than + - * / to 0 when both operands are constants or lets of constants: `if (C & l) != 1` becomes `if (0)` (ill-typed, wrong value), `(l & C)` becomes 0u
// expect 0,0[0] = 1
@group(0) @binding(0) var<storage,read_write> o: array<u32,16>;
const C: i32 = 6i;
@compute @workgroup_size(1) fn main() { let l = 3i; if (C & l) != 1i { o[0] = 1u; } else { o[0] = 2u; } }
