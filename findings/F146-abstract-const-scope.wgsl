// finding=F146 property=C01 status=fixed kind=exec-spirv
// abstract function-scope constants ignored block scope and shadowing: { const k = 5; } out[0] = k used 5 for the module constant k = 9, and a later let / inner let of the same name read the constant instead of its own value
// expect 0,0[0] = 9
// expect 0,0[1] = 5
// expect 0,0[8] = 7
// expect 0,0[3] = 5
// expect 0,0[4] = 1
@group(0) @binding(0) var<storage, read_write> out: array<i32, 64>;
const k = 9;
@compute @workgroup_size(1) fn main() {
  { const k = 5; out[1] = k; }
  out[0] = k;
  { const q = 5; out[2] = q; }
  let q = out[7];
  out[8] = q;
  const a = 1;
  { let a = out[5]; out[3] = a; }
  out[4] = a;
}
