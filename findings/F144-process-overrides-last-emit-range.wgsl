// finding=F144 property=C14 status=fixed kind=exec-hlsl
// ProcessOverrides left the last Emit range of a function too short (its end equalled the old arena length): the trailing Load was written inline after an intervening Store, so `let v = *q; *q = seven; *p = v;` stored the NEW value of *q
// pc n = 5
// expect 0,0[0] = 1
// expect 0,0[1] = 5
// expect 0,0[7] = 5
override n: u32 = 2u;
@group(0) @binding(0) var<storage, read_write> out: array<u32, 64>;
@compute @workgroup_size(1) fn main() {
  out[7] = n;
  let p = &out[0]; let q = &out[1];
  let seven = out[5];
  let v = *q;
  *q = seven;
  *p = v;
}
