// finding=F33 property=C01,C06 status=fixed kind=exec-spirv
// const C: u32 = -(-2147483647) must be 2147483647; naga stores the bits of the float 2147483648.0
// expect 0,0[0] = 2147483647
@group(0) @binding(0) var<storage,read_write> o: array<u32,16>;
const C: u32 = -(-2147483647);
@compute @workgroup_size(1) fn main() { o[0] = C; }
