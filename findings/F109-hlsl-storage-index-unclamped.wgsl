// finding=F109 property=C15 status=known kind=exec-hlsl
// HLSL RestrictIndexing does not clamp a dynamic index into an array inside a storage buffer: s.a[5] (array of 4) reads the word after the array (another part of the buffer) instead of the clamped element a[3]
// option-set restrict=true
// expect 0,0[0] = 3
struct S { a: array<u32, 4>, b: u32, }
@group(0) @binding(0) var<storage,read_write> o: array<u32,64>;
@group(0) @binding(1) var<storage> s: S;
@compute @workgroup_size(1) fn main() { o[0] = s.a[o[5]]; }
