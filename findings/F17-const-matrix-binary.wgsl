// finding=F17 property=C08 status=known kind=accept
// + and - on two constant matrices are folded to a wrongly typed value ("argument type mismatch (expected mat3x2, got vec2)")
@group(0) @binding(0) var<storage,read_write> o: array<f32,4>;
fn f(m: mat3x2<f32>) -> f32 { return m[2].y; }
@compute @workgroup_size(1) fn main() {
    o[0] = f(mat3x2<f32>(-2.0, -10.0, 30.5, -2.0, 16.0, 1e6) - mat3x2<f32>(-2.0, 9.0, 1e6, 7.0, 4.625, -1.5));
}
