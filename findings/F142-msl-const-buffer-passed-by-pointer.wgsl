// finding=F142 property=C04 status=fixed kind=exec-msl
// MSL: a read_write storage buffer that the entry point only passes on by pointer was declared `device T const&`; the call then binds it to the helper's `device T&` parameter, which Metal rejects
// expect 0,1[2] = 102
// expect 0,0[20] = 2
struct Grid { cells: array<u32, 4>, }
@group(0) @binding(0) var<storage, read_write> o: array<u32, 64>;
@group(0) @binding(1) var<storage, read_write> g: Grid;
fn op(p: ptr<storage, Grid, read_write>, i: u32) -> u32 { let old = (*p).cells[i]; (*p).cells[i] = old + 100u; return old; }
@compute @workgroup_size(1) fn main() { o[20] = op(&g, o[1] * 2u); }
