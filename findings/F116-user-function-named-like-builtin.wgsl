// finding=F116 property=C16 status=fixed kind=exec-spirv
// front end: a call to a user function whose name starts with `texture` is lowered as a texture built-in: the call and the store using its result disappear
// expect 0,0[0] = 8
@group(0) @binding(0) var<storage,read_write> o: array<u32,64>;
fn texture2d_ms(p: u32) -> u32 { return p + 7u; }
@compute @workgroup_size(1) fn main() { o[0] = texture2d_ms(o[1]); }
