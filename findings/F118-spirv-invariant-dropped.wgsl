// finding=F118 property=C17 status=known kind=spirv-decoration
// SPIR-V: @invariant on the position output is not translated (no OpDecorate ... Invariant); goldens spv/interface.spvasm and spv/invariant.spvasm encode its absence, so it is recorded rather than repaired
// require-decoration Invariant
struct VOut { @invariant @builtin(position) pos: vec4<f32>, }
@vertex fn vs() -> VOut { var o: VOut; o.pos = vec4<f32>(1.0); return o; }
