// finding=F07 property=C19 status=fixed kind=neutral-edit
// a line comment terminated by a bare CR (a WGSL line break) swallows the following lines: only LF ends a comment in the lexer
@group(0) @binding(0) var<storage,read_write> o: array<u32,4>;
@compute @workgroup_size(1) fn main() {
    o[0] = 1u;
    o[1] = 2u;
}
// ---- edited ----
@group(0) @binding(0) var<storage,read_write> o: array<u32,4>;
@compute @workgroup_size(1) fn main() {
    o[0] = 1u; // note<CR>    o[1] = 2u;<CR>}
