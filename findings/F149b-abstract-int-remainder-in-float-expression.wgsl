// finding=F149 property=C08 status=known kind=accept
// an abstract-int remainder inside an abstract-float expression of a module-scope constant is rejected: "left operand: expected integer literal, got FloatLiteral"
const C: f32 = ((-3.5) + 255.0) * ((-11) % 6);
@group(0) @binding(0) var<storage, read_write> o: array<u32, 64>;
@compute @workgroup_size(1) fn main() { o[0] = bitcast<u32>(C); }
