// finding=F75 property=C05,C08 status=known kind=exec-glsl
// atomicSub(&a, -29) is emitted as atomicAdd(a, --29): "--29" is a decrement of a literal, not valid GLSL
// expect 0,0[1] = 30
struct B { a: atomic<i32>, r: i32 }
@group(0) @binding(0) var<storage,read_write> b: B;
@compute @workgroup_size(1) fn main() { atomicStore(&b.a, 1i); let old = atomicSub(&b.a, -29i); b.r = atomicLoad(&b.a) + old - 1i; }
