// finding=F155 property=C19 status=fixed kind=neutral-edit
// redundant parentheses around the left operand of a const_assert condition were a parse error: const_assert (A + 1) == 3;
@group(0) @binding(0) var<storage, read_write> o: array<u32, 4>;
const A = 2;
const_assert A + 1 == 3;
const_assert A == 2;
@compute @workgroup_size(1) fn main() {
    const_assert A + 1 == 3;
    o[0] = 1u;
}
// ---- edited ----
@group(0) @binding(0) var<storage, read_write> o: array<u32, 4>;
const A = 2;
const_assert (A + 1) == 3;
const_assert(A == 2);
@compute @workgroup_size(1) fn main() {
    const_assert ((A) + 1) == (3);
    o[0] = 1u;
}
