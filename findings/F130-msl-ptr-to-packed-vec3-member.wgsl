// finding=F130 property=C04 status=known kind=exec-msl
// MSL: &s.m with m: vec3<f32> a struct member (emitted as packed_float3) is passed to a helper whose parameter is `thread metal::float3&`: a reference to float3 cannot bind to a packed_float3 lvalue (the emitted call has no matching function)
// expect 0,0[0] = 7
@group(0) @binding(0) var<storage,read_write> o: array<u32,16>;
struct S { m: vec3<f32>, a: f32, }
fn f(p: ptr<function, vec3<f32>>) -> u32 { (*p).x = 7.0; return u32((*p).x); }
@compute @workgroup_size(1) fn main() { var s: S = S(); o[0] = f(&s.m); }
