// finding=F78 property=C05 status=known kind=exec-glsl
// `continue` inside a switch nested in a single-case (default-only) switch: the forwarding flag is set but the code after the inner switch still runs
// expect 0,0[0] = 0
@group(0) @binding(0) var<storage,read_write> o: array<u32,16>;
@compute @workgroup_size(1) fn main() {
    for (var i = 0i; i < 3i; i++) {
        switch 7i {
            default: {
                switch 1i { case 5i: {} default: { continue; } }
                o[0] += 1u;
            }
        }
    }
}
