// finding=F161 property=C19 status=fixed kind=neutral-edit
// redundant parentheses around an array-size template argument with a bitwise operator were required: array<u32, N & 3u> was a parse error while array<u32, (N & 3u)> was accepted
const N = 7u;
@group(0) @binding(0) var<storage, read_write> o: array<u32, 4>;
var<private> a: array<u32, (N & 3u)>;
var<private> b: array<u32, (N | 8u)>;
var<private> c: array<u32, (N ^ 1u)>;
var<private> d: array<u32, ((N & 6u) | 1u)>;
@compute @workgroup_size(1) fn main() { o[0] = a[2] + b[14] + c[5] + d[6]; }
// ---- edited ----
const N = 7u;
@group(0) @binding(0) var<storage, read_write> o: array<u32, 4>;
var<private> a: array<u32, N & 3u>;
var<private> b: array<u32, N | 8u>;
var<private> c: array<u32, N ^ 1u>;
var<private> d: array<u32, (N & 6u) | 1u>;
@compute @workgroup_size(1) fn main() { o[0] = a[2] + b[14] + c[5] + d[6]; }
