// finding=F159 property=C17 status=fixed kind=exec-spirv
// @group(G) @binding(B + 1) with module constants left the resource without any binding (only literal arguments were read); @workgroup_size(W) with an untyped constant became 1
// expect 1,3[0] = 7
// expect 1,3[1] = 7
// expect 1,3[2] = 2
@group(G) @binding(B + 1) var<storage, read_write> o: array<u32, 64>;
const G = 1;
const B: u32 = 2u;
@compute @workgroup_size(W) fn main(@builtin(local_invocation_index) li: u32) { o[li] = 7u; }
const W = 2;
