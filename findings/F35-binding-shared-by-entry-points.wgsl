// finding=F35 property=C08 status=known kind=accept
// two resources may use the same @group/@binding when no single entry point uses both; ir.Validate reports "duplicate binding"
@group(0) @binding(0) var<storage,read_write> a: array<u32,4>;
@group(0) @binding(0) var<storage,read_write> b: array<u32,8>;
@compute @workgroup_size(1) fn ea() { a[0] = 1u; }
@compute @workgroup_size(1) fn eb() { b[0] = 2u; }
