// finding=F30 property=C01,C06 status=known kind=exec-spirv
// a module-scope const vector indexed by a non-literal constant expression reads as zero
// expect 0,0[0] = 733
@group(0) @binding(0) var<storage,read_write> o: array<u32,16>;
const C: vec2<u32> = vec2<u32>(8u, 733u);
@compute @workgroup_size(1) fn main() { o[0] = C[bitcast<i32>(1u)]; }
