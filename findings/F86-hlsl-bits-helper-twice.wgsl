// finding=F86 property=C03,C08 status=known kind=exec-hlsl
// using extractBits with two different operand sets emits the helper naga_extractBits twice with identical parameter types (redefinition)
// expect 0,0[0] = 1
@group(0) @binding(0) var<storage,read_write> o: array<u32,16>;
fn f(x: u32) -> u32 { return extractBits(x, 1u, 2u); }
@compute @workgroup_size(1) fn main() { o[0] = extractBits(o[2], 1u, 3u) + f(o[0]); }
