// finding=F83 property=C04 status=known kind=exec-msl
// MSL ReadZeroSkipWrite: &arr[i] with a dynamic index passed as a pointer argument becomes `i < N ? arr.inner[i] : DefaultConstructible()` when the call sits in a switch inside a loop (elsewhere the writer uses an `oob` variable): a prvalue cannot bind to the helper's `thread int&` parameter
// option-set policy=1
// expect 0,0[0] = 0
@group(0) @binding(0) var<storage,read_write> o: array<i32,16>;
fn fn_17(a18: ptr<function, i32>) -> u32 { return 1u; }
@compute @workgroup_size(1) fn main(@builtin(num_workgroups) b34: vec3<u32>) {
    var v173 = array<i32, 1>();
    var ix191 = 0u;
    loop {
        switch 1i { default: { o[0] = (1i >> fn_17((&v173[(b34.x << (ix191 & 31u)) % 1u]))); } }
        switch 1i { default: { return; } }
        continuing { }
    }
}
