// finding=F83 property=C04 status=known kind=exec-msl
// MSL with a bounds-check policy: &arr[i] with a dynamic index passed as a pointer argument becomes `i < N ? arr[i] : DefaultConstructible()`, which cannot bind to a reference parameter
// option-set policy=2
// expect 0,0[0] = 8
@group(0) @binding(0) var<storage,read_write> o: array<u32,16>;
fn bump(p: ptr<function, u32>) { *p = *p + 1u; }
@compute @workgroup_size(1) fn main() { var a = array<u32, 3>(5u, 7u, 9u); bump(&a[o[1]]); o[0] = a[1]; }
