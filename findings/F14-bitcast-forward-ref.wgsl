// finding=F14 property=C08 status=fixed
// forward reference to a module-scope variable from inside bitcast<T>(...) in an earlier function
fn f() -> u32 { var v = reverseBits(bitcast<i32>(pv[1u])); return u32(v); }
@compute @workgroup_size(1) fn main() { o[0] = f(); }
var<private> pv: array<u32, 4>;
@group(0) @binding(0) var<storage,read_write> o: array<u32,4>;
