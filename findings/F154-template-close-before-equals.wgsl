// finding=F154 property=C19 status=fixed kind=neutral-edit
// removing the blankspace between the '>' that closes a vec / mat / ptr template list and the following '=' was a parse error ("expected >, got >=")
@group(0) @binding(0) var<storage, read_write> o: array<u32, 4>;
var<private> pv: array<vec2<u32>, 2> = array<vec2<u32>, 2>();
const cc: vec2<u32> = vec2<u32>(1u, 2u);
@compute @workgroup_size(1) fn main() {
    var v: vec3<f32> = vec3<f32>(1.0);
    let l: vec2<u32> = cc;
    var q: array<vec2<u32>, 2> = pv;
    let p: ptr<function, vec3<f32> > = &v;
    var m: mat2x2<f32> = mat2x2<f32>(1.0, 0.0, 0.0, 1.0);
    o[0] = u32(v.x) + l.x + q[0].x + u32(m[1].y);
    o[1] = u32(v.x >= 1.0);
    o[2] = u32((*p).y);
}
// ---- edited ----
@group(0) @binding(0) var<storage, read_write> o: array<u32, 4>;
var<private> pv: array<vec2<u32>, 2>=array<vec2<u32>, 2>();
const cc: vec2<u32>=vec2<u32>(1u, 2u);
@compute @workgroup_size(1) fn main() {
    var v: vec3<f32>=vec3<f32>(1.0);
    let l: vec2<u32>=cc;
    var q: array<vec2<u32>, 2>=pv;
    let p: ptr<function, vec3<f32>>=&v;
    var m: mat2x2<f32>=mat2x2<f32>(1.0, 0.0, 0.0, 1.0);
    o[0] = u32(v.x) + l.x + q[0].x + u32(m[1].y);
    o[1] = u32(v.x >= 1.0);
    o[2] = u32((*p).y);
}
