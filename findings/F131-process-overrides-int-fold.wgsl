// finding=F131 property=C14 status=fixed kind=override-exec
// ProcessOverrides folded integer arithmetic on literal operands through float64 with a saturating conversion: 1691240i * l (let l = 819521198i) became INT_MIN instead of the wrapped product
// expect 0,0[0] = 3904617136
// pc ov = 1
override ov: bool;
@group(0) @binding(0) var<storage,read_write> o: array<i32,16>;
@compute @workgroup_size(1) fn main() { let l = 819521198i; o[0] = 1691240i * l; o[1] = i32(ov); }
