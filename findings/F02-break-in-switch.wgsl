// finding=F02 property=C08 status=fixed
// break inside switch that is not enclosed by a loop; and break leaving a switch nested in a continuing block
@group(0) @binding(0) var<storage,read_write> o: array<u32,4>;
@compute @workgroup_size(1) fn main() {
    switch o[1] {
        case 1u: { if o[2] == 3u { break; } o[0] = 7u; }
        default: { o[0] = 9u; }
    }
    var i = 0u;
    loop {
        if i >= 2u { break; }
        continuing {
            switch i { case 0u: { if o[3] == 0u { break; } o[1] = 5u; } default: {} }
            i++;
        }
    }
}
