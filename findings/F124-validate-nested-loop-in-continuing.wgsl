// finding=F124 property=C08 status=fixed kind=accept
// ir.Validate reported "break in continuing block" / "continue in continuing block" for statements that target a loop nested inside the continuing block (valid WGSL); also reached through InlineUserFunctions under C13
@group(0) @binding(0) var<storage,read_write> o: array<u32,16>;
fn f() -> u32 { var n = 0u; loop { if n > 3u { break; } continuing { var k = 0u; loop { k += 1u; if k > 2u { break; } continue; } n += k; } } return n; }
@compute @workgroup_size(1) fn main() { o[0] = f(); }
