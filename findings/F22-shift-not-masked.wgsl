// finding=F22 property=C01,C15 status=known kind=exec-spirv
// run-time shift amount >= 32 must be taken modulo 32 (WGSL); SPIR-V output shifts by the raw amount (undefined)
// expect 0,0[0] = 2
@group(0) @binding(0) var<storage,read_write> o: array<u32,64>;
@compute @workgroup_size(1) fn main() { o[0] = 1u << o[33]; }
