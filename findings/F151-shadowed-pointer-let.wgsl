// finding=F151 property=C09 status=fixed kind=exec-spirv
// a local that shadows a pointer let inherited the "is a pointer" flag: { var p = 0u; while p < 2u ... } compared a pointer and the module was ill-typed
// expect 0,0[0] = 2
// expect 0,0[1] = 7
@group(0) @binding(0) var<storage, read_write> o: array<u32, 64>;
@compute @workgroup_size(1) fn main() {
  var v = 7u;
  let p = &v;
  { var p = 0u; while p < 2u { p = p + 1u; } o[0] = p; }
  o[1] = *p;
}
