// finding=F79 property=C04 status=known kind=exec-msl
// MSL: select() becomes an unparenthesised ?: and an operator expression feeding a swizzle loses its parentheses: `x += select(0u,1u,b)` is emitted as `x = _e + b ? 1u : 0u`
// expect 0,0[3] = 4
// expect 0,0[4] = 12
@group(0) @binding(0) var<storage,read_write> o: array<u32,16>;
var<private> pb: vec4<bool>;
@compute @workgroup_size(1) fn main() {
    pb = vec4<bool>(false, false, false, true);
    o[3] += select(0u, 1u, pb.w);
    let v = vec3<u32>(o[1], o[2], 7u);
    o[4] = (v + vec3<u32>(1u, 2u, 3u)).zy.x + 2u;
}
