// finding=F16 property=C08 status=fixed
// HLSL: unary operator inside a module-scope initialiser
var<private> p = vec2<i32>(-1, 2);
@group(0) @binding(0) var<storage,read_write> o: array<i32,4>;
@compute @workgroup_size(1) fn main() { o[0] = p.x; }
