// finding=F123 property=C06 status=fixed kind=exec-spirv
// module-scope f32(integer expression) evaluated its argument in floating point: f32(10795413i / 64i) was 168678.33 instead of 168678.0
// expect 0,0[0] = 1210366336
// expect 0,0[1] = 1077936128
@group(0) @binding(0) var<storage,read_write> o: array<f32,16>;
const A: f32 = f32((10795413i / 64i));
const B: f32 = f32(7 / 2);
@compute @workgroup_size(1) fn main() { o[0] = A; o[1] = B; }
