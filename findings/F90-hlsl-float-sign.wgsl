// finding=F90 property=C03 status=known kind=exec-hlsl
// sign(f32) maps to HLSL sign(), which returns int: storing / bitcasting the result writes the integer -1/0/1 instead of the float
// expect 0,0[0] = 1065353216
@group(0) @binding(0) var<storage,read_write> o: array<f32,16>;
@compute @workgroup_size(1) fn main() { o[0] = sign(o[3] + 2.0); }
