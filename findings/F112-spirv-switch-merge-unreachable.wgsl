// finding=F112 property=C01 status=known kind=exec-spirv
// SPIR-V: when every case of a switch ends in break / return, the merge block is emitted as OpUnreachable although `break` branches to it: the function executes OpUnreachable (undefined behaviour). A repair changes golden testdata/golden/spv/control-flow.spvasm, which contains the same pattern (OpBranch %55 / %55 = OpLabel / OpUnreachable)
// expect 0,0[0] = 7
@group(0) @binding(0) var<storage,read_write> o: array<u32,64>;
fn f() { switch o[1] { default: { break; } case 3u: { } } }
@compute @workgroup_size(1) fn main() { f(); o[0] = 7u; }
