// finding=F36 property=C02 status=known kind=spirv-valid
// a ptr<private,T> parameter is accessed through OpAccessChain whose result pointer is in Function storage class while the base is Private (invalid SPIR-V)
struct S { a: vec3<f32>, m: mat4x3<f32> }
@group(0) @binding(0) var<storage,read_write> o: array<f32,4>;
var<private> g: S;
fn take(p: ptr<private, S>) -> f32 { return (*p).m[0i].z; }
@compute @workgroup_size(1) fn main() { o[0] = take(&g); }
